#!/bin/bash
# Offline setup: make sure hypothesis is importable by /venv/bin/python (else install
# it from the local wheelhouse into /verif/.deps); nothing else needs building -
# loki is pure Python and is imported from the working tree via PYTHONPATH.
HERE="$(cd "$(dirname "${BASH_SOURCE[0]}")" && pwd)"
mkdir -p "$HERE/.deps" "$HERE/evidence"
if ! PYTHONPATH="$HERE/.deps" /venv/bin/python -c 'import hypothesis' 2>/dev/null; then
  /venv/bin/pip install --no-index --find-links /opt/veriftools/wheels --target "$HERE/.deps" hypothesis || exit 1
fi
PYTHONPATH="$HERE/.deps" /venv/bin/python -c 'import hypothesis, sys; print("hypothesis", hypothesis.__version__)' || exit 1
which gfortran gcc >/dev/null || { echo "gfortran/gcc missing"; exit 1; }
exit 0
