"""
Runner: ./check <ID> [--tier quick|thorough] [--replay file] [--seed N] [--shards N]

exit 0  property held on everything explored (KNOWN-FINDING lines allowed)
exit 1  unlisted violation; prints 'VIOLATION property=<id> replay=<path>'
exit 2  harness error (never dressed up as a violation)
"""
import argparse
import importlib
import json
import os
import shutil
import subprocess
import sys
import tempfile
import time
from collections import Counter

from . import findings
from .core import VERIF_DIR, REPO, Ctx

DEFAULT_SHARDS = {'quick': 8, 'thorough': 16}
DEFAULT_BUDGET = {'quick': 75.0, 'thorough': 1500.0}


def load_prop(prop_id):
    return importlib.import_module(f'lokiverif.props.{prop_id.lower()}')


def do_replay_case(mod, prop_id, tier, seed, case):
    ctx = Ctx(prop_id, tier, seed)
    res = mod.replay(case, ctx)
    return list(res or [])


def main(argv=None):
    ap = argparse.ArgumentParser()
    ap.add_argument('prop')
    ap.add_argument('--tier', default=os.environ.get('VERIF_TIER') or 'quick', choices=['quick', 'thorough'])
    ap.add_argument('--seed', type=int, default=None)
    ap.add_argument('--replay', default=None)
    ap.add_argument('--shards', type=int, default=None)
    ap.add_argument('--budget', type=float, default=None, help='per-shard exploration budget in seconds')
    args = ap.parse_args(argv)

    prop_id = args.prop.upper()
    seed = args.seed if args.seed is not None else int(os.environ.get('VERIF_SEED', '1') or 1)
    tier = args.tier
    t0 = time.time()

    scratch = tempfile.mkdtemp(prefix=f'lokiverif.{prop_id}.')
    os.environ['LOKIVERIF_SCRATCH'] = scratch
    try:
        return _run(prop_id, tier, seed, args, scratch, t0)
    finally:
        shutil.rmtree(scratch, ignore_errors=True)


def _run(prop_id, tier, seed, args, scratch, t0):
    try:
        mod = load_prop(prop_id)
    except Exception as e:  # noqa
        print(f'HARNESS-ERROR property={prop_id} cannot load check: {e!r}')
        return 2
    known, fixed = findings.load(prop_id)

    # ---- replay mode ----------------------------------------------------
    if args.replay:
        data = findings.load_replay(args.replay)
        case = data['case'] if isinstance(data, dict) and 'case' in data else data
        try:
            fails = do_replay_case(mod, prop_id, tier, seed, case)
        except Exception as e:  # noqa
            import traceback
            traceback.print_exc()
            print(f'HARNESS-ERROR property={prop_id} replay raised {e!r}')
            return 2
        if not fails:
            print(f'replay {args.replay}: property holds on this case')
            return 0
        known_sigs = {k['sig'] for k in known}
        rc = 0
        for sig, detail in fails:
            if sig in known_sigs:
                print(f'KNOWN-FINDING: property={prop_id} sig={sig} {detail}')
            else:
                print(f'replay failure sig={sig}: {detail}')
                rc = 1
        if rc:
            print(f'VIOLATION property={prop_id} replay={args.replay}')
        return rc

    # ---- known findings: replay each, report those that still fail --------
    lines = []
    known_active = {}
    violations = []   # (sig, replay path, detail)
    for k in known:
        try:
            data = findings.load_replay(k['replay'])
            fails = do_replay_case(mod, prop_id, tier, seed, data['case'])
        except Exception as e:  # noqa
            print(f'HARNESS-ERROR property={prop_id} known-finding replay {k["replay"]} raised {e!r}')
            return 2
        sigs = {s for s, _ in fails}
        if k['sig'] in sigs:
            known_active[k['sig']] = k
            lines.append(f'KNOWN-FINDING: property={prop_id} sig={k["sig"]} {k["what"]}')
        for s, d in fails:
            if s != k['sig'] and s not in {kk['sig'] for kk in known}:
                violations.append((s, k['replay'], d))
    known_sigs = {k['sig'] for k in known}

    # ---- fixed findings: regression replays must pass ---------------------
    regressions = 0
    for fx in fixed:
        if not fx.get('replay'):
            continue
        try:
            data = findings.load_replay(fx['replay'])
            fails = do_replay_case(mod, prop_id, tier, seed, data['case'])
        except Exception as e:  # noqa
            print(f'HARNESS-ERROR property={prop_id} regression replay {fx["replay"]} raised {e!r}')
            return 2
        regressions += 1
        for s, d in fails:
            if s not in known_sigs:
                violations.append((s, fx['replay'], d))

    # ---- committed regression replays (replays/<id>/regress-*.json) -------
    rdir = os.path.join(VERIF_DIR, 'replays', prop_id)
    if os.path.isdir(rdir):
        for fn in sorted(os.listdir(rdir)):
            if not fn.startswith('regress-') or not fn.endswith('.json'):
                continue
            rel = os.path.join('replays', prop_id, fn)
            try:
                data = findings.load_replay(rel)
                fails = do_replay_case(mod, prop_id, tier, seed, data['case'])
            except Exception as e:  # noqa
                print(f'HARNESS-ERROR property={prop_id} regression replay {rel} raised {e!r}')
                return 2
            regressions += 1
            for s, d in fails:
                if s not in known_sigs:
                    violations.append((s, rel, d))

    # ---- exploration shards ------------------------------------------------
    nshards = args.shards or getattr(mod, 'SHARDS', DEFAULT_SHARDS).get(tier, DEFAULT_SHARDS[tier])
    budget = args.budget or getattr(mod, 'BUDGET', DEFAULT_BUDGET).get(tier, DEFAULT_BUDGET[tier])
    procs = []
    env = dict(os.environ)
    env['PYTHONHASHSEED'] = '0'
    for i in range(nshards):
        out = os.path.join(scratch, f'shard{i}.json')
        sdir = os.path.join(scratch, f's{i}')
        os.makedirs(sdir, exist_ok=True)
        e = dict(env, LOKIVERIF_SCRATCH=sdir, TMPDIR=sdir)
        log = open(os.path.join(scratch, f'shard{i}.log'), 'w')
        p = subprocess.Popen([sys.executable, '-m', 'lokiverif.shard', prop_id, tier, str(seed), str(i),
                              str(nshards), str(budget), out], env=e, stdout=log, stderr=subprocess.STDOUT,
                             cwd=VERIF_DIR)
        procs.append((p, out, log))
    hard = budget * 3 + 300
    results = []
    harness_errors = []
    for i, (p, out, log) in enumerate(procs):
        try:
            rc = p.wait(timeout=max(5, hard - (time.time() - t0)))
        except subprocess.TimeoutExpired:
            p.kill()
            harness_errors.append(f'shard {i} exceeded hard timeout {hard:.0f}s')
            continue
        finally:
            log.close()
        if os.path.exists(out):
            with open(out) as f:
                r = json.load(f)
            results.append(r)
            if r.get('error'):
                harness_errors.append(f'shard {i}: {r["error"]}')
        else:
            with open(os.path.join(scratch, f'shard{i}.log')) as f:
                tail = f.read()[-3000:]
            harness_errors.append(f'shard {i} died rc={rc}: {tail}')

    # ---- merge -------------------------------------------------------------
    evaluations = sum(r['evaluations'] for r in results)
    nontrivial = set()
    classes, rejected, excluded, sigcount = Counter(), Counter(), Counter(), Counter()
    samples, notes, rej_samples, extra = [], [], {}, {}
    merged_fail = {}
    exhaustive = None
    budget_exhausted = False
    for r in results:
        nontrivial.update(r['nontrivial'])
        classes.update(r['classes'])
        rejected.update(r['rejected'])
        excluded.update(r['excluded'])
        for s in r['samples']:
            if len(samples) < 5:
                samples.append(s)
        for n in r['notes']:
            if n not in notes:
                notes.append(n)
        for b, s in r['rejected_samples'].items():
            if len(rej_samples) < 8:
                rej_samples.setdefault(b, s)
        for sig, ent in r['failures'].items():
            sigcount[sig] += ent['count']
            cur = merged_fail.get(sig)
            if cur is None or ent['size'] < cur['size']:
                merged_fail[sig] = ent
        if r.get('exhaustive') is not None:
            exhaustive = r['exhaustive'] if exhaustive is None else (exhaustive and r['exhaustive'])
        budget_exhausted = budget_exhausted or r.get('budget_exhausted', False)
        for k, v in (r.get('extra') or {}).items():
            if isinstance(v, (int, float)) and isinstance(extra.get(k, 0), (int, float)):
                extra[k] = extra.get(k, 0) + v
            else:
                extra.setdefault(k, v)

    for sig, ent in merged_fail.items():
        if sig in known_sigs:
            if sig not in known_active:
                k = next(kk for kk in known if kk['sig'] == sig)
                known_active[sig] = k
                lines.append(f'KNOWN-FINDING: property={prop_id} sig={sig} {k["what"]}')
            continue
        path = findings.write_replay(prop_id, sig, ent['case'], ent['detail'], seed, tier)
        violations.append((sig, path, ent['detail']))

    # ---- evidence ------------------------------------------------------------
    wall = time.time() - t0
    if exhaustive and budget_exhausted:
        exhaustive = False
    coverage = {
        'evaluations': evaluations,
        'distinct_nontrivial': len(nontrivial),
        'rule': getattr(mod, 'RULE', ''),
        'samples': samples,
        'classes': dict(classes.most_common()),
        'rejected_by_loki': dict(rejected.most_common()),
        'rejected_samples': rej_samples,
        'excluded_by_construction': dict(excluded),
        'failure_signatures': dict(sigcount),
        'known_findings_reproduced': sorted(known_active),
        'regression_replays': regressions,
        'shards': nshards,
        'budget_exhausted': budget_exhausted,
        'notes': notes,
        'repo': REPO,
    }
    coverage.update(extra)
    if exhaustive is not None:
        coverage['exhaustive'] = bool(exhaustive)
    ev = {
        'property_id': prop_id, 'tier': tier, 'seed': seed,
        'level': getattr(mod, 'LEVEL', 'exploration'),
        'coverage': coverage,
        'assumptions': list(getattr(mod, 'ASSUMPTIONS', [])),
        'wall_s': round(wall, 2),
        'violations': len(violations),
    }
    # VERIF_EVIDENCE_DIR: sensitivity runs against mutated scratch copies write their evidence elsewhere
    evdir = os.environ.get('VERIF_EVIDENCE_DIR') or os.path.join(VERIF_DIR, 'evidence')
    os.makedirs(evdir, exist_ok=True)
    with open(os.path.join(evdir, f'{prop_id}.json'), 'w') as f:
        json.dump(ev, f, indent=1, default=str)

    for ln in lines:
        print(ln)
    print(f'{prop_id} tier={tier} seed={seed} shards={nshards} evaluations={evaluations} '
          f'distinct_nontrivial={len(nontrivial)} rejected={sum(rejected.values())} '
          f'signatures={dict(sigcount)} wall={wall:.1f}s')
    if harness_errors:
        for h in harness_errors:
            print(f'HARNESS-ERROR property={prop_id} {h}')
        if not violations:
            return 2
    if violations:
        seen = set()
        for sig, path, detail in violations:
            if (sig, path) in seen:
                continue
            seen.add((sig, path))
            print(f'violation sig={sig}: {str(detail)[:500]}')
            print(f'VIOLATION property={prop_id} replay={path}')
        return 1
    return 0


if __name__ == '__main__':
    sys.exit(main())
