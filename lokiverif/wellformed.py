"""
Well-formedness battery for loki program units (used by C41), independent of loki's visitors:

* ``units(sfs)``            all program units of a list of Sourcefiles with their *real* ancestors (found by walking
                            ``Sourcefile.ir`` / ``contains`` / interface bodies downwards, never by following ``.parent``)
* ``anomalies(sfs)``        -> {(unit name, oracle, tag, symbol name): detail}
      oracle 'scope'        a TypedSymbol reachable in the spec/body of a unit whose ``.scope`` is not the unit, one of the scoped
                            IR nodes (Associate, TypeDef, ...) currently inside the unit, a contained unit or a real ancestor
                            (identity, not equality); tags: unscoped | detached-<NodeClass> | stale-copy-of-own-unit |
                            stale-copy-of-ancestor | other-unit(-sibling) ; '@decl-type' is appended when the symbol sits in the
                            kind / initial value / length of a declared symbol's type instead of in the IR tree itself
      oracle 'scope'        tag unit-parent-is-not-its-container: ``unit.parent`` is not the unit that contains it
      oracle 'undeclared'   a variable (Scalar / Array / DeferredTypeSymbol; for derived-type members the root object) used in
                            the unit that is not declared in the unit or a real ancestor (declaration nodes, not symbol tables),
                            not imported (USE without ONLY: the public names of the module when the module is among the given
                            files, otherwise the unit counts as "open" and is not judged), not an associate name of the unit,
                            not a function result / statement function / enumerator; tag = class of the symbol
* ``inventory(sfs)``        {(unit, symbol name)} of everything reachable (for "introduced or removed a symbol")

Walks ``node.args`` of IR nodes and ``__getinitargs__`` of expressions generically, so that nodes and expression classes
it has never heard of are still traversed.
"""
import pymbolic.primitives as pmbl

SKIP_FIELDS = {'source', 'parent', 'symbol_attrs', 'rescope_symbols', 'incomplete', 'ast', '_source', '_incomplete', 'label',
               'pragma', 'pragma_post', 'text', 'name_str'}


def _classes():
    from loki.expression import symbols as sym
    from loki.ir import Node
    from loki.program_unit import ProgramUnit
    from loki.types.scope import Scope
    return sym, Node, ProgramUnit, Scope


class Walk:
    """one traversal of the spec/body of a unit: symbols (with where they sit), scoped nodes, nested units, declarations"""

    def __init__(self, unit):
        self.sym, self.Node, self.ProgramUnit, self.Scope = _classes()
        self.unit = unit
        self.symbols = []        # (symbol, where) where in 'ir' | 'decl-type'
        self.scoped = []         # scoped IR nodes inside the unit (Associate, TypeDef, ...)
        self.nested = []         # ProgramUnits found inside spec/body (interface bodies)
        self.declared = set()    # names declared / imported / associated in this unit
        self.wild = []           # module names imported without ONLY
        self.seen = set()
        for sec in ('spec', 'body'):
            s = getattr(unit, sec, None)
            if s is not None:
                self.node(s)

    # ---- IR ---------------------------------------------------------------------------------------------------
    def node(self, n):
        if n is None or isinstance(n, (str, bool, int, float)):
            return
        if isinstance(n, (tuple, list)):
            for x in n:
                self.node(x)
            return
        if isinstance(n, dict):
            for k, v in n.items():
                self.node(k)
                self.node(v)
            return
        if isinstance(n, self.ProgramUnit):
            self.nested.append(n)
            return
        if isinstance(n, self.Node):
            if id(n) in self.seen:
                return
            self.seen.add(id(n))
            if isinstance(n, self.Scope):
                self.scoped.append(n)
            self.declares(n)
            for k, v in n.args.items():
                if k in SKIP_FIELDS:
                    continue
                if k == 'name' and type(n).__name__ == 'CallStatement' and isinstance(v, (self.sym.TypedSymbol, self.sym.MetaSymbol)):
                    # the name of a called subroutine is a procedure name, whatever class the symbol has
                    self.symbols.append((v, 'ir:callee'))
                    self.expr(getattr(v, 'parent', None), 'ir')
                    continue
                self.node(v)
            return
        self.expr(n, 'ir')

    def declares(self, n):
        cls = type(n).__name__
        if cls in ('VariableDeclaration', 'ProcedureDeclaration'):
            for s in n.symbols:
                if not hasattr(s, 'name'):
                    # a transformation left an expression where the declared name belongs: nothing is declared by it; the
                    # expression is walked like any other argument of the node and the backend oracle (fgen) judges the node
                    continue
                self.declared.add(s.name.lower())
                t = getattr(s, 'type', None)
                if cls == 'VariableDeclaration' and t is not None:
                    for attr in ('kind', 'initial', 'length'):
                        v = getattr(t, attr, None)
                        if v is not None and not isinstance(v, (str, bool, int)):
                            self.expr(v, 'decl-type')
        elif cls == 'Import':
            if n.symbols:
                for s in n.symbols:
                    self.declared.add(s.name.lower())
            elif not getattr(n, 'c_import', False) and not getattr(n, 'f_include', False):
                self.wild.append(str(n.module).lower())
            for k, v in (getattr(n, 'rename_list', None) or ()):
                self.declared.add(str(k).lower())
        elif cls == 'Associate':
            for _, name in n.associations:
                self.declared.add(name.name.lower())
        elif cls == 'StatementFunction':
            self.declared.add(n.variable.name.lower())
        elif cls == 'Enumeration':
            for s in n.symbols:
                self.declared.add(s.name.lower())
        elif cls == 'TypeDef':
            self.declared.add(n.name.lower())
        elif cls == 'Interface':
            for s in getattr(n, 'symbols', ()) or ():
                self.declared.add(s.name.lower())

    # ---- expressions ------------------------------------------------------------------------------------------
    def expr(self, e, where, depth=0):
        if e is None or isinstance(e, (str, bool, int, float)) or depth > 200:
            return
        if isinstance(e, (tuple, list)):
            for x in e:
                self.expr(x, where, depth + 1)
            return
        if isinstance(e, dict):
            for v in e.values():
                self.expr(v, where, depth + 1)
            return
        sym = self.sym
        if isinstance(e, (sym.TypedSymbol, sym.MetaSymbol)):
            self.symbols.append((e, where))
            self.expr(getattr(e, 'dimensions', None), where, depth + 1)
            self.expr(getattr(e, 'parent', None), where, depth + 1)
            return
        if isinstance(e, sym.InlineCall):
            # the name of a referenced function is a procedure / intrinsic name, whatever class the symbol has
            f = e.function
            if isinstance(f, (sym.TypedSymbol, sym.MetaSymbol)):
                self.symbols.append((f, where + ':callee'))
                self.expr(getattr(f, 'parent', None), where, depth + 1)
            else:
                self.expr(f, where, depth + 1)
            self.expr(e.parameters, where, depth + 1)
            self.expr(e.kw_parameters, where, depth + 1)
            return
        if isinstance(e, pmbl.Expression):
            try:
                args = e.__getinitargs__()
            except Exception:  # noqa: an expression class without init args has no children
                return
            self.expr(args, where, depth + 1)


def units(sfs):
    """[(unit, [real ancestors, innermost first])] for all units of the files, containers before members"""
    _, _, ProgramUnit, _ = _classes()
    out = []

    def rec(u, anc):
        out.append((u, anc))
        cont = getattr(u, 'contains', None)
        for c in (getattr(cont, 'body', None) or ()):
            if isinstance(c, ProgramUnit):
                rec(c, [u] + anc)

    for sf in sfs:
        for n in sf.ir.body:
            if isinstance(n, ProgramUnit):
                rec(n, [])
    return out


def _uname(u, anc):
    return '/'.join([a.name.lower() for a in reversed(anc)] + [u.name.lower()])


def _public_names(mod, mods, seen):
    """names a USE of module ``mod`` without ONLY makes available (None = unknown because of an unknown module)"""
    if id(mod) in seen:
        return set()
    seen.add(id(mod))
    w = Walk(mod)
    names = set(w.declared)
    _, _, ProgramUnit, _ = _classes()
    for c in (getattr(getattr(mod, 'contains', None), 'body', None) or ()):
        if isinstance(c, ProgramUnit):
            names.add(c.name.lower())
    for m in w.wild:
        if m not in mods:
            return None
        sub = _public_names(mods[m], mods, seen)
        if sub is None:
            return None
        names |= sub
    return names


def analyse(sfs):
    """-> (anomalies dict, inventory set, stats dict)"""
    sym, Node, ProgramUnit, Scope = _classes()
    allunits = units(sfs)
    mods = {u.name.lower(): u for u, anc in allunits if type(u).__name__ == 'Module' and not anc}
    walks = {}
    extra = []

    def walk_of(u):
        if id(u) not in walks:
            walks[id(u)] = Walk(u)
        return walks[id(u)]

    # interface bodies are units of their own (ancestors: the unit that holds the interface + its ancestors)
    for u, anc in list(allunits):
        for nu in walk_of(u).nested:
            extra.append((nu, [u] + anc))
    allunits = allunits + extra
    contained = {}

    def members(u):
        if id(u) not in contained:
            ids = set()
            for c in (getattr(getattr(u, 'contains', None), 'body', None) or ()):
                if isinstance(c, ProgramUnit):
                    ids.add(id(c))
                    ids |= members(c)
            for nu in walk_of(u).nested:
                ids.add(id(nu))
            contained[id(u)] = ids
        return contained[id(u)]

    anomalies, inventory = {}, set()
    stats = {'symbols': 0, 'units': len(allunits), 'open-units': 0}
    byname = {}
    for u, anc in allunits:
        byname.setdefault(u.name.lower(), []).append(u)
    for u, anc in allunits:
        w = walk_of(u)
        uname = u.name.lower()
        is_ifbody = any(u is x for x, _ in extra)
        if anc and not is_ifbody and getattr(u, 'parent', None) is not anc[0]:
            anomalies[(uname, 'scope', 'unit-parent-is-not-its-container', uname)] = \
                f'{_uname(u, anc)}.parent is {getattr(u, "parent", None)!r}, contained in {anc[0]!r}'
        if not anc and getattr(u, 'parent', None) is not None:
            anomalies[(uname, 'scope', 'unit-parent-is-not-its-container', uname)] = \
                f'{uname}.parent is {getattr(u, "parent", None)!r} although the unit stands at file level'
        allowed = {id(u)} | {id(n) for n in w.scoped} | members(u) | {id(a) for a in anc}
        # a unit whose .parent is not its container is reported once (above); what resolves through that chain is its consequence
        p, hops = getattr(u, 'parent', None), 0
        while p is not None and hops < 20:
            allowed.add(id(p))
            p, hops = getattr(p, 'parent', None), hops + 1
        anc_names = {a.name.lower(): a for a in anc}
        # ---- declared names along the chain
        declared, is_open = set(), False
        for x in [u] + anc:
            wx = walk_of(x)
            declared |= wx.declared
            for m in wx.wild:
                pub = _public_names(mods[m], mods, set()) if m in mods else None
                if pub is None:
                    is_open = True
                else:
                    declared |= pub
            if getattr(x, 'is_function', False):
                declared.add(x.name.lower())
                rn = getattr(x, 'result_name', None)
                if rn:
                    declared.add(str(rn).lower())
            if is_ifbody and x is u:
                break       # an interface body has no host association (no IMPORT statements are generated)
        if is_open:
            stats['open-units'] += 1
        for s, where in w.symbols:
            stats['symbols'] += 1
            name = s.name.lower()
            inventory.add((uname, name))
            sc = getattr(s, 'scope', None)
            tag = None
            if sc is None:
                tag = 'unscoped'
            elif id(sc) not in allowed:
                if isinstance(sc, ProgramUnit):
                    scn = sc.name.lower()
                    if scn == uname and type(sc) is type(u):
                        tag = 'stale-copy-of-own-unit'
                    elif scn in anc_names and type(sc) is type(anc_names[scn]):
                        tag = 'stale-copy-of-ancestor'
                    elif any(sc is x for x in byname.get(scn, ())):
                        tag = 'other-unit'
                    else:
                        tag = 'unit-outside-the-files'
                elif isinstance(sc, Node):
                    tag = 'detached-' + type(sc).__name__
                else:
                    tag = 'detached-' + type(sc).__name__
            callee = where.endswith(':callee')
            if callee:
                where = where[:-7]
            if tag is not None:
                if where != 'ir':
                    tag += '@' + where
                key = (uname, 'scope', tag, name)
                if key not in anomalies:
                    anomalies[key] = f'{type(s).__name__} {s!s} in {_uname(u, anc)}: scope {sc!r}'
            # ---- declaredness (variables only; members through their root object)
            if isinstance(s, (sym.Scalar, sym.Array, sym.DeferredTypeSymbol)) and not is_open and not callee:
                if getattr(s, 'parent', None) is not None:
                    continue
                if name not in declared:
                    key = (uname, 'undeclared', type(s).__name__, name)
                    if key not in anomalies:
                        anomalies[key] = f'{type(s).__name__} {s!s} used in {_uname(u, anc)} is not declared, imported, ' \
                                         f'associated or host-associated'
    return anomalies, inventory, stats
