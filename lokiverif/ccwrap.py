"""
Compiler wrapper for C44 (parallel JIT builds respect module dependencies).

Two roles:

* imported: helpers that create a per-build *control directory* (delay plan +
  event log), a tiny launcher script whose path is configured as the Fortran
  compiler executable of a :class:`loki.jit_build.compiler.Compiler`, and a
  reader for the event log;
* executed (``python ccwrap.py <ctl_dir> <compiler args...>``): appends a
  ``start`` event, sleeps the planned delay of the object being compiled,
  runs the real ``gfortran`` with the given arguments, appends an ``end``
  event and exits with gfortran's status.

Timestamps are ``CLOCK_MONOTONIC`` nanoseconds (system-wide on Linux, so
comparable between the worker processes). Every event is one ``os.write`` to a
file opened with ``O_APPEND`` (atomic for short lines).

No loki import at module level: the executed role must start fast.
"""
import json
import os
import sys
import time

REAL_FC = 'gfortran'


# --------------------------------------------------------------------------
# executed role
# --------------------------------------------------------------------------

def _log(ctl, rec):
    fd = os.open(os.path.join(ctl, 'events.log'), os.O_WRONLY | os.O_APPEND | os.O_CREAT, 0o644)
    try:
        os.write(fd, (json.dumps(rec) + '\n').encode())
    finally:
        os.close(fd)


def _main(argv):
    ctl, args = argv[0], argv[1:]
    src = args[-1]
    stem = os.path.splitext(os.path.basename(src))[0].lower()
    try:
        with open(os.path.join(ctl, 'plan.json')) as f:
            plan = json.load(f)
    except OSError:
        plan = {}
    _log(ctl, {'ev': 'start', 'obj': stem, 't': time.monotonic_ns(), 'pid': os.getpid()})
    delay = plan.get(stem, 0)
    if delay:
        time.sleep(delay / 1000.0)
    import subprocess
    p = subprocess.run([REAL_FC] + args, stdout=subprocess.PIPE, stderr=subprocess.STDOUT)
    _log(ctl, {'ev': 'end', 'obj': stem, 't': time.monotonic_ns(), 'pid': os.getpid(), 'rc': p.returncode})
    if p.stdout:
        sys.stdout.write(p.stdout.decode(errors='replace'))
    return p.returncode


# --------------------------------------------------------------------------
# imported role
# --------------------------------------------------------------------------

def make_control_dir(ctl, plan):
    """Create ``ctl`` with the delay plan ``{stem(lower): milliseconds}`` and return the launcher path"""
    os.makedirs(ctl, exist_ok=True)
    with open(os.path.join(ctl, 'plan.json'), 'w') as f:
        json.dump({k.lower(): int(v) for k, v in plan.items()}, f)
    open(os.path.join(ctl, 'events.log'), 'w').close()
    launcher = os.path.join(ctl, 'fc')
    with open(launcher, 'w') as f:
        f.write('#!/bin/sh\nexec %s -S -E %s %s "$@"\n' % (sys.executable, os.path.abspath(__file__), ctl))
    os.chmod(launcher, 0o755)
    return launcher


def make_compiler(launcher):
    """A loki ``Compiler`` whose Fortran compile step goes through the launcher (archive step: plain ``ar``)"""
    from loki.jit_build.compiler import Compiler

    class WrappedCompiler(Compiler):
        """``compile_args`` puts ``self.f90`` first; nothing else is changed"""
        F90 = launcher
        FC = launcher
        F90FLAGS = ['-O0']
        FCFLAGS = ['-O0']

    return WrappedCompiler()


def read_events(ctl):
    """-> list of event dicts in file order"""
    out = []
    with open(os.path.join(ctl, 'events.log')) as f:
        for line in f:
            line = line.strip()
            if line:
                out.append(json.loads(line))
    return out


if __name__ == '__main__':
    sys.exit(_main(sys.argv[1:]))
