"""
Evaluate a loki/pymbolic expression tree under Fortran semantics.

Dispatch is on node *class*; nothing of loki's own stringifier, evaluation
mapper or pymbolic's evaluator is used. Integers are Python ints with
truncating division; reals are ``fractions.Fraction`` (algebraic mode, so no
rounding alarms) or Python floats; logicals are bools.

Two layers:

* :class:`Sem` - the arithmetic of Fortran values (typed: int / real / logical),
  parameterised by an overflow limit, the integer-division mode ('trunc' =
  Fortran, 'exact' = rational arithmetic, used only to *classify* defects) and
  a ``machine`` mode in which every intermediate value must be exactly
  representable by gfortran default integers / double precision reals (used
  when values are compared against compiled code).
  ``ftext.py`` (text evaluators) uses the same class, so that tree-side and
  text-side differ only in *how the structure is obtained* (node classes vs.
  our own parser).
* :func:`compile_expr` - turns a loki tree into a Python closure ``f(env)``
  by class dispatch; :func:`feval` / :func:`safe_eval` are the one-shot forms.
"""
from fractions import Fraction
import math
import operator

import pymbolic.primitives as pmbl


class Unevaluable(Exception):
    """tree contains something this evaluator has no Fortran meaning for"""


class DivByZero(Exception):
    pass


class TooBig(Exception):
    pass


class Inexact(TooBig):
    """machine mode: value not exactly representable (valuation is skipped)"""


LIMIT = 10 ** 60
INT32 = 2 ** 31 - 1


def is_int(v):
    return isinstance(v, int) and not isinstance(v, bool)


def is_real(v):
    return isinstance(v, (Fraction, float))


def is_num(v):
    return is_int(v) or is_real(v)


def fdiv(a, b):
    """Fortran division: integer/integer truncates toward zero"""
    if b == 0:
        raise DivByZero()
    if is_int(a) and is_int(b):
        q = abs(a) // abs(b)
        return q if (a >= 0) == (b >= 0) else -q
    if isinstance(a, float) or isinstance(b, float):
        return float(a) / float(b)
    return Fraction(a) / Fraction(b)


def fpow(a, b):
    if is_int(b):
        if abs(b) > 64 and a not in (0, 1, -1):
            raise TooBig()
        if b >= 0:
            r = a ** b
            if is_num(r) and abs(r) > LIMIT:
                raise TooBig()
            return r
        # negative exponent
        if a == 0:
            raise DivByZero()
        if is_int(a):
            return fdiv(1, fpow(a, -b))
        return 1 / fpow(a, -b)
    if is_real(b):
        fb = Fraction(b) if not isinstance(b, float) else None
        if fb is not None and fb.denominator == 1:
            r = fpow(a if is_real(a) else Fraction(a), int(fb))
            return r
        raise Unevaluable('non-integral real exponent')
    raise Unevaluable(f'power exponent {b!r}')


_CMP = {
    '==': operator.eq, '!=': operator.ne, '<': operator.lt, '<=': operator.le,
    '>': operator.gt, '>=': operator.ge,
    '.eq.': operator.eq, '.ne.': operator.ne, '.lt.': operator.lt, '.le.': operator.le,
    '.gt.': operator.gt, '.ge.': operator.ge, '/=': operator.ne,
}


def _sign(a, b):
    return abs(a) if b >= 0 else -abs(a)


def _trunc(q):
    """truncate a rational toward zero"""
    if isinstance(q, float):
        return int(q)
    q = Fraction(q)
    n = abs(q.numerator) // q.denominator
    return n if q >= 0 else -n


def _mod(a, p):
    if p == 0:
        raise DivByZero()
    if is_int(a) and is_int(p):
        return a - fdiv(a, p) * p
    return a - _trunc(Fraction(a) / Fraction(p)) * p


def _modulo(a, p):
    if p == 0:
        raise DivByZero()
    if is_int(a) and is_int(p):
        return a - (a // p) * p
    q = Fraction(a) / Fraction(p)
    return a - math.floor(q) * p


def _to_int(a, *k):
    if is_int(a):
        return a
    return _trunc(a)


def _to_real(a, *k):
    return Fraction(a) if not isinstance(a, float) else a


INTRINSICS = {
    'abs': lambda a: abs(a),
    'min': lambda *a: min(a),
    'max': lambda *a: max(a),
    'mod': _mod,
    'modulo': _modulo,
    'sign': _sign,
    'int': _to_int,
    'real': _to_real,
    'dble': lambda a: _to_real(a),
    'merge': lambda t, f, m: t if m else f,
}
# intrinsics whose arguments must all be numeric of one type class (int or real)
_SAME_TYPE = {'min', 'max', 'mod', 'modulo', 'sign'}


class Sem:
    """Fortran value arithmetic (see module docstring)"""

    def __init__(self, limit=LIMIT, intdiv='trunc', machine=False, real_as='fraction'):
        self.limit = INT32 if machine else limit
        self.intdiv = intdiv
        self.machine = machine
        self.real_as = real_as

    # -- value checks --------------------------------------------------
    def chk(self, r):
        if isinstance(r, bool):
            return r
        if isinstance(r, int):
            if abs(r) > self.limit:
                raise TooBig()
            return r
        if isinstance(r, Fraction):
            if self.machine:
                d = r.denominator
                if d & (d - 1) or d > (1 << 20) or abs(r.numerator) > (1 << 22):
                    raise Inexact()
            elif abs(r.numerator) > LIMIT or r.denominator > LIMIT:
                raise TooBig()
            return r
        return r

    @staticmethod
    def num(v, what):
        if isinstance(v, bool) or not isinstance(v, (int, Fraction, float)):
            raise Unevaluable(f'non-numeric operand of {what}')
        return v

    @staticmethod
    def log(v, what):
        if not isinstance(v, bool):
            raise Unevaluable(f'non-logical operand of {what}')
        return v

    def real(self, fr):
        return fr if self.real_as == 'fraction' else float(fr)

    def lit(self, v):
        """closure for a literal value (machine mode: non-representable literal -> Inexact when evaluated)"""
        try:
            v = self.chk(v)
        except TooBig as e:
            exc = type(e)

            def f_bad(env):
                raise exc()
            return f_bad
        return lambda env: v

    # -- operations ------------------------------------------------------
    def add(self, a, b):
        return self.chk(self.num(a, '+') + self.num(b, '+'))

    def sub(self, a, b):
        return self.chk(self.num(a, '-') - self.num(b, '-'))

    def mul(self, a, b):
        return self.chk(self.num(a, '*') * self.num(b, '*'))

    def neg(self, a):
        return -self.num(a, 'unary -')

    def div(self, a, b):
        self.num(a, '/'), self.num(b, '/')
        if self.intdiv == 'exact':
            if b == 0:
                raise DivByZero()
            r = Fraction(a) / Fraction(b)
            return self.chk(int(r) if r.denominator == 1 and is_int(a) and is_int(b) else r)
        return self.chk(fdiv(a, b))

    def pow(self, a, b):
        self.num(a, '**'), self.num(b, '**')
        if self.intdiv == 'exact' and is_int(a) and is_int(b) and b < 0:
            if a == 0:
                raise DivByZero()
            return self.chk(Fraction(1) / fpow(a, -b))
        if is_int(b) and abs(b) > 64 and a not in (0, 1, -1):
            raise TooBig()
        if is_real(b) and abs(b) > 64:
            raise TooBig()
        return self.chk(fpow(a, b))

    def cmp(self, op, a, b):
        fn = _CMP.get(op)
        if fn is None:
            raise Unevaluable(f'comparison operator {op}')
        return bool(fn(self.num(a, op), self.num(b, op)))

    def and_(self, vals):
        return all([self.log(v, '.and.') for v in vals])

    def or_(self, vals):
        return any([self.log(v, '.or.') for v in vals])

    def not_(self, v):
        return not self.log(v, '.not.')

    def eqv(self, a, b):
        return self.log(a, '.eqv.') == self.log(b, '.eqv.')

    def call(self, name, args):
        fn = INTRINSICS.get(name)
        if fn is None:
            raise Unevaluable(f'call to {name}')
        if name == 'merge':
            if len(args) != 3:
                raise Unevaluable('merge arity')
            self.log(args[2], 'merge mask')
            return args[0] if args[2] else args[1]
        for a in args:
            self.num(a, name)
        if name in _SAME_TYPE and len({is_int(a) for a in args}) > 1:
            raise Unevaluable(f'mixed-type arguments of {name}')
        try:
            return self.chk(fn(*args))
        except TypeError as e:
            raise Unevaluable(f'call to {name}: {e}') from e

    def index(self, tgt, name, idx):
        for i in idx:
            if not is_int(i):
                raise Unevaluable(f'non-integer subscript of {name}')
        if callable(tgt):
            return tgt(*idx)
        try:
            return tgt[idx]
        except KeyError as e:
            raise Unevaluable(f'subscript of {name} out of the valuation') from e


DEFAULT_SEM = Sem()


def float_literal_value(text):
    """value of a Fortran real literal spelled ``text`` (kind suffix ignored) as Fraction"""
    txt = str(text).lower().replace('d', 'e')
    if '_' in txt:
        txt = txt.split('_')[0]
    return Fraction(txt)


def _fname(f):
    return str(f.name if hasattr(f, 'name') else f).lower()


def compile_expr(expr, sem=DEFAULT_SEM):
    """loki/pymbolic tree -> closure f(env). env: lower-case name -> value
    (arrays: callable(*idx) or dict {tuple: value})"""
    from loki.expression import symbols as sym
    from loki.expression import operations as ops
    rec = lambda e: compile_expr(e, sem)  # noqa

    # raw python numbers (pymbolic allows them as children)
    if isinstance(expr, bool):
        return lambda env: expr
    if isinstance(expr, int):
        return lambda env: expr
    if isinstance(expr, Fraction):
        return lambda env: expr
    if isinstance(expr, float):
        v = sem.real(Fraction(expr))
        return lambda env: v
    try:
        import numpy as np
        if isinstance(expr, np.integer):
            v = int(expr)
            return lambda env: v
        if isinstance(expr, np.floating):
            v = sem.real(Fraction(float(expr)))
            return lambda env: v
    except ImportError:
        pass

    if isinstance(expr, sym.IntLiteral):
        return sem.lit(int(expr.value))
    if isinstance(expr, sym.FloatLiteral):
        return sem.lit(sem.real(float_literal_value(expr.value)))
    if isinstance(expr, sym.LogicLiteral):
        v = bool(expr.value)
        return lambda env: v
    if isinstance(expr, pmbl.Sum):
        fs = [rec(c) for c in expr.children]
        if not fs:
            raise Unevaluable('empty Sum')

        def f_sum(env):
            vals = [f(env) for f in fs]
            r = sem.num(vals[0], '+')
            for v in vals[1:]:
                r = sem.add(r, v)
            return r
        return f_sum
    if isinstance(expr, pmbl.Product):
        fs = [rec(c) for c in expr.children]
        if not fs:
            raise Unevaluable('empty Product')

        def f_prod(env):
            vals = [f(env) for f in fs]
            r = sem.num(vals[0], '*')
            for v in vals[1:]:
                r = sem.mul(r, v)
            return r
        return f_prod
    if isinstance(expr, pmbl.Quotient):
        fn, fd = rec(expr.numerator), rec(expr.denominator)

        def f_quot(env):
            a = fn(env)
            b = fd(env)
            return sem.div(a, b)
        return f_quot
    if isinstance(expr, pmbl.FloorDiv):
        fn, fd = rec(expr.numerator), rec(expr.denominator)

        def f_floordiv(env):
            a, b = fn(env), fd(env)
            if b == 0:
                raise DivByZero()
            return a // b
        return f_floordiv
    if isinstance(expr, pmbl.Remainder):
        fn, fd = rec(expr.numerator), rec(expr.denominator)

        def f_rem(env):
            a, b = fn(env), fd(env)
            if b == 0:
                raise DivByZero()
            return a % b
        return f_rem
    if isinstance(expr, pmbl.Power):
        fb, fe = rec(expr.base), rec(expr.exponent)

        def f_pow(env):
            a = fb(env)
            b = fe(env)
            return sem.pow(a, b)
        return f_pow
    if isinstance(expr, pmbl.Comparison):
        op = expr.operator
        if op not in _CMP:
            raise Unevaluable(f'comparison operator {op}')
        fl, fr = rec(expr.left), rec(expr.right)

        def f_cmp(env):
            a = fl(env)
            b = fr(env)
            return sem.cmp(op, a, b)
        return f_cmp
    if isinstance(expr, pmbl.LogicalAnd):
        fs = [rec(c) for c in expr.children]
        return lambda env: sem.and_([f(env) for f in fs])
    if isinstance(expr, pmbl.LogicalOr):
        fs = [rec(c) for c in expr.children]
        return lambda env: sem.or_([f(env) for f in fs])
    if isinstance(expr, pmbl.LogicalNot):
        fc = rec(expr.child)
        return lambda env: sem.not_(fc(env))
    if isinstance(expr, ops.Cast):
        if len(expr.parameters) != 1:
            raise Unevaluable('cast arity')
        fa = rec(expr.parameters[0])
        name = str(expr.name).lower()
        if name not in ('int', 'real', 'dble'):
            raise Unevaluable(f'cast {name}')
        return lambda env: sem.call(name, [fa(env)])
    if isinstance(expr, (sym.InlineCall, pmbl.Call)):
        name = _fname(expr.function)
        fs = [rec(a) for a in expr.parameters]
        kw = getattr(expr, 'kw_parameters', None) or {}
        if any(str(k).lower() != 'kind' for k in kw):
            raise Unevaluable(f'keyword arguments of {name}')

        def f_call(env):
            if name not in INTRINSICS:
                fn = env.get(name)
                if fn is None or not callable(fn):
                    raise Unevaluable(f'call to {name}')
                return fn(*[f(env) for f in fs])
            return sem.call(name, [f(env) for f in fs])
        return f_call
    if isinstance(expr, sym.Array) or (isinstance(expr, sym.MetaSymbol) and getattr(expr, 'dimensions', None)):
        name = expr.name.lower()
        dims = getattr(expr, 'dimensions', None) or ()
        fs = [rec(d) for d in dims]

        def f_arr(env):
            tgt = env.get(name)
            if tgt is None:
                raise Unevaluable(f'unbound array {name}')
            if not fs:
                return tgt
            return sem.index(tgt, name, tuple(f(env) for f in fs))
        return f_arr
    if isinstance(expr, (sym.MetaSymbol, pmbl.Variable)):
        name = expr.name.lower()

        def f_var(env):
            if name not in env:
                raise Unevaluable(f'unbound variable {name}')
            return env[name]
        return f_var
    raise Unevaluable(f'node class {type(expr).__name__}')


def feval(expr, env, real_as='fraction'):
    """
    env: lower-case name -> value; for arrays name -> callable(*idx) or dict{tuple: value}
    """
    sem = DEFAULT_SEM if real_as == 'fraction' else Sem(real_as=real_as)
    return compile_expr(expr, sem)(env)


def guarded(fn, env):
    """run a compiled closure: ('ok', value) | ('div0',) | ('big',) | ('uneval', msg)"""
    try:
        return ('ok', fn(env))
    except DivByZero:
        return ('div0',)
    except TooBig:
        return ('big',)
    except Unevaluable as e:
        return ('uneval', str(e))
    except (OverflowError, ZeroDivisionError):
        return ('div0',)


def safe_compile(expr, sem=DEFAULT_SEM):
    """closure env -> status tuple (never raises for evaluation problems)"""
    try:
        fn = compile_expr(expr, sem)
    except Unevaluable as e:
        msg = str(e)
        return lambda env: ('uneval', msg)
    return lambda env: guarded(fn, env)


def safe_eval(expr, env, real_as='fraction'):
    """returns ('ok', value) | ('div0',) | ('big',) | ('uneval', msg)"""
    sem = DEFAULT_SEM if real_as == 'fraction' else Sem(real_as=real_as)
    return safe_compile(expr, sem)(env)
