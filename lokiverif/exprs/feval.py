"""
Evaluate a loki/pymbolic expression tree under Fortran semantics.

Dispatch is on node *class*; nothing of loki's own stringifier, evaluation
mapper or pymbolic's evaluator is used. Integers are Python ints with
truncating division; reals are ``fractions.Fraction`` (algebraic mode, so no
rounding alarms) or Python floats; logicals are bools.
"""
from fractions import Fraction
import operator

import pymbolic.primitives as pmbl


class Unevaluable(Exception):
    """tree contains something this evaluator has no Fortran meaning for"""


class DivByZero(Exception):
    pass


class TooBig(Exception):
    pass


LIMIT = 10 ** 60


def is_int(v):
    return isinstance(v, int) and not isinstance(v, bool)


def is_real(v):
    return isinstance(v, (Fraction, float))


def is_num(v):
    return is_int(v) or is_real(v)


def fdiv(a, b):
    """Fortran division: integer/integer truncates toward zero"""
    if b == 0:
        raise DivByZero()
    if is_int(a) and is_int(b):
        q = abs(a) // abs(b)
        return q if (a >= 0) == (b >= 0) else -q
    if isinstance(a, float) or isinstance(b, float):
        return float(a) / float(b)
    return Fraction(a) / Fraction(b)


def fpow(a, b):
    if is_int(b):
        if b >= 0:
            if abs(a) > 1 and b > 64:
                raise TooBig()
            r = a ** b
            if is_num(r) and abs(r) > LIMIT:
                raise TooBig()
            return r
        # negative exponent
        if a == 0:
            raise DivByZero()
        if is_int(a):
            return fdiv(1, fpow(a, -b))
        return 1 / fpow(a, -b)
    if is_real(b):
        fb = Fraction(b) if not isinstance(b, float) else None
        if fb is not None and fb.denominator == 1:
            r = fpow(a if is_real(a) else Fraction(a), int(fb))
            return r
        raise Unevaluable('non-integral real exponent')
    raise Unevaluable(f'power exponent {b!r}')


_CMP = {
    '==': operator.eq, '!=': operator.ne, '<': operator.lt, '<=': operator.le,
    '>': operator.gt, '>=': operator.ge,
    '.eq.': operator.eq, '.ne.': operator.ne, '.lt.': operator.lt, '.le.': operator.le,
    '.gt.': operator.gt, '.ge.': operator.ge, '/=': operator.ne,
}


def _sign(a, b):
    return abs(a) if b >= 0 else -abs(a)


def _mod(a, p):
    if p == 0:
        raise DivByZero()
    if is_int(a) and is_int(p):
        return a - fdiv(a, p) * p
    q = Fraction(a) / Fraction(p)
    t = int(q)  # trunc toward zero
    return a - t * p


def _modulo(a, p):
    if p == 0:
        raise DivByZero()
    if is_int(a) and is_int(p):
        return a - (a // p) * p
    import math
    q = Fraction(a) / Fraction(p)
    return a - math.floor(q) * p


INTRINSICS = {
    'abs': lambda a: abs(a),
    'min': lambda *a: min(a),
    'max': lambda *a: max(a),
    'mod': _mod,
    'modulo': _modulo,
    'sign': _sign,
    'int': lambda a, *k: int(a) if not isinstance(a, Fraction) else (abs(a.numerator) // a.denominator) * (1 if a >= 0 else -1),
    'real': lambda a, *k: Fraction(a) if not isinstance(a, float) else a,
    'dble': lambda a: Fraction(a) if not isinstance(a, float) else a,
    'merge': lambda t, f, m: t if m else f,
}


def feval(expr, env, real_as='fraction'):
    """
    env: lower-case name -> value; for arrays name -> callable(*idx) or dict{tuple: value}
    """
    ev = lambda e: feval(e, env, real_as)  # noqa

    # raw python numbers (pymbolic allows them as children)
    if isinstance(expr, bool):
        return expr
    if isinstance(expr, int):
        return expr
    if isinstance(expr, Fraction):
        return expr
    if isinstance(expr, float):
        return Fraction(expr) if real_as == 'fraction' else expr
    try:
        import numpy as np
        if isinstance(expr, np.integer):
            return int(expr)
        if isinstance(expr, np.floating):
            return Fraction(float(expr)) if real_as == 'fraction' else float(expr)
    except ImportError:
        pass

    from loki.expression import symbols as sym
    from loki.expression import operations as ops

    if isinstance(expr, sym.IntLiteral):
        return int(expr.value)
    if isinstance(expr, sym.FloatLiteral):
        txt = str(expr.value).lower().replace('d', 'e')
        if '_' in txt:
            txt = txt.split('_')[0]
        v = Fraction(txt)
        return v if real_as == 'fraction' else float(v)
    if isinstance(expr, sym.LogicLiteral):
        return bool(expr.value)
    if isinstance(expr, pmbl.Sum):
        vals = [ev(c) for c in expr.children]
        r = vals[0]
        for v in vals[1:]:
            r = r + v
        if is_num(r) and abs(r) > LIMIT:
            raise TooBig()
        return r
    if isinstance(expr, pmbl.Product):
        vals = [ev(c) for c in expr.children]
        r = vals[0]
        for v in vals[1:]:
            r = r * v
        if is_num(r) and abs(r) > LIMIT:
            raise TooBig()
        return r
    if isinstance(expr, pmbl.Quotient):
        return fdiv(ev(expr.numerator), ev(expr.denominator))
    if isinstance(expr, pmbl.FloorDiv):
        a, b = ev(expr.numerator), ev(expr.denominator)
        if b == 0:
            raise DivByZero()
        return a // b
    if isinstance(expr, pmbl.Remainder):
        a, b = ev(expr.numerator), ev(expr.denominator)
        if b == 0:
            raise DivByZero()
        return a % b
    if isinstance(expr, pmbl.Power):
        return fpow(ev(expr.base), ev(expr.exponent))
    if isinstance(expr, pmbl.Comparison):
        op = _CMP.get(expr.operator)
        if op is None:
            raise Unevaluable(f'comparison operator {expr.operator}')
        return bool(op(ev(expr.left), ev(expr.right)))
    if isinstance(expr, pmbl.LogicalAnd):
        vals = [ev(c) for c in expr.children]
        if not all(isinstance(v, bool) for v in vals):
            raise Unevaluable('non-logical operand of .and.')
        return all(vals)
    if isinstance(expr, pmbl.LogicalOr):
        vals = [ev(c) for c in expr.children]
        if not all(isinstance(v, bool) for v in vals):
            raise Unevaluable('non-logical operand of .or.')
        return any(vals)
    if isinstance(expr, pmbl.LogicalNot):
        v = ev(expr.child)
        if not isinstance(v, bool):
            raise Unevaluable('non-logical operand of .not.')
        return not v
    if isinstance(expr, ops.Cast):
        v = ev(expr.parameters[0])
        name = str(expr.name).lower()
        if name == 'int':
            return INTRINSICS['int'](v)
        if name in ('real', 'dble'):
            return INTRINSICS['real'](v)
        raise Unevaluable(f'cast {name}')
    if isinstance(expr, sym.InlineCall):
        name = str(expr.function.name if hasattr(expr.function, 'name') else expr.function).lower()
        fn = INTRINSICS.get(name) or env.get(name)
        if fn is None or not callable(fn):
            raise Unevaluable(f'call to {name}')
        args = [ev(a) for a in expr.parameters]
        return fn(*args)
    if isinstance(expr, sym.Array) or (isinstance(expr, sym.MetaSymbol) and getattr(expr, 'dimensions', None)):
        name = expr.name.lower()
        dims = getattr(expr, 'dimensions', None) or ()
        tgt = env.get(name)
        if tgt is None:
            raise Unevaluable(f'unbound array {name}')
        if not dims:
            return tgt
        idx = tuple(ev(d) for d in dims)
        if callable(tgt):
            return tgt(*idx)
        return tgt[idx]
    if isinstance(expr, (sym.MetaSymbol, pmbl.Variable)):
        name = expr.name.lower()
        if name not in env:
            raise Unevaluable(f'unbound variable {name}')
        return env[name]
    if isinstance(expr, pmbl.Call):
        name = str(expr.function.name if hasattr(expr.function, 'name') else expr.function).lower()
        fn = INTRINSICS.get(name) or env.get(name)
        if fn is None or not callable(fn):
            raise Unevaluable(f'call to {name}')
        return fn(*[ev(a) for a in expr.parameters])
    raise Unevaluable(f'node class {type(expr).__name__}')


def safe_eval(expr, env, real_as='fraction'):
    """returns ('ok', value) | ('div0',) | ('big',) | ('uneval', msg)"""
    try:
        return ('ok', feval(expr, env, real_as))
    except DivByZero:
        return ('div0',)
    except TooBig:
        return ('big',)
    except Unevaluable as e:
        return ('uneval', str(e))
    except (OverflowError, ZeroDivisionError):
        return ('div0',)
