"""
Independent evaluators of expression *text*.

* :func:`parse_fortran` / :func:`compile_fortran`: a recursive-descent parser of
  Fortran expression text that follows the grammar gfortran implements
  (F2008 R702-R717 plus gfortran's default-mode extension "unary operator
  following arithmetic operator", i.e. ``a*-b``, ``a**-b``, ``a + -b``), giving
  our own tuple AST, compiled to a closure over :class:`feval.Sem`.
* :func:`parse_c` / :func:`compile_c`: a C-expression mini parser/evaluator for
  the subset cgen prints for scalar arithmetic/logical expressions.

Nothing here uses loki or pymbolic. The Fortran side is validated against
gfortran by ``gfortran_check`` (thorough tier of C06/C07).

AST (tuples):  ('int', v) ('real', Fraction) ('log', b) ('var', name)
               ('ref', name, [args])           call or array element
               ('neg', x) ('pos', x) ('not', x)
               ('bin', op, l, r)   op in + - * / ** cmp-ops .and. .or. .eqv. .neqv.
               ('paren', x)
"""
from fractions import Fraction
import os
import re
import subprocess

from .feval import Sem, DEFAULT_SEM, Unevaluable, TooBig, INTRINSICS, guarded, float_literal_value


class TextSyntaxError(Exception):
    pass


_DOTOPS = ('eq', 'ne', 'lt', 'le', 'gt', 'ge', 'and', 'or', 'not', 'eqv', 'neqv', 'true', 'false')
_DOTOP_RE = re.compile(r'\.(' + '|'.join(sorted(_DOTOPS, key=len, reverse=True)) + r')\.', re.I)
_NAME_RE = re.compile(r'[A-Za-z][A-Za-z0-9_]*')
_KIND_RE = re.compile(r'_([A-Za-z][A-Za-z0-9_]*|[0-9]+)')
_EXP_RE = re.compile(r'[eEdD][+-]?[0-9]+')
_DIGITS_RE = re.compile(r'[0-9]+')
_REL = {'.eq.': '==', '.ne.': '/=', '.lt.': '<', '.le.': '<=', '.gt.': '>', '.ge.': '>='}


def tokenize_fortran(text):
    toks = []
    i, n = 0, len(text)
    while i < n:
        c = text[i]
        if c in ' \t':
            i += 1
            continue
        if c == '&' or c == '\n':
            # continuation markers of a wrapped line: whitespace
            i += 1
            continue
        m = _DOTOP_RE.match(text, i)
        if m:
            word = m.group(1).lower()
            i = m.end()
            if word in ('true', 'false'):
                k = _KIND_RE.match(text, i)
                if k:
                    i = k.end()
                toks.append(('log', word == 'true'))
            else:
                toks.append(('op', _REL.get(f'.{word}.', f'.{word}.')))
            continue
        if c.isdigit() or (c == '.' and i + 1 < n and text[i + 1].isdigit()):
            j = i
            m = _DIGITS_RE.match(text, j)
            if m:
                j = m.end()
            is_real = False
            if j < n and text[j] == '.' and not _DOTOP_RE.match(text, j):
                is_real = True
                j += 1
                m = _DIGITS_RE.match(text, j)
                if m:
                    j = m.end()
            m = _EXP_RE.match(text, j)
            if m:
                is_real = True
                j = m.end()
            lit = text[i:j]
            k = _KIND_RE.match(text, j)
            if k:
                j = k.end()
            if j < n and (text[j].isalnum() or text[j] == '_'):
                raise TextSyntaxError(f'bad numeric literal at {text[i:j + 1]!r}')
            if is_real:
                toks.append(('real', float_literal_value(lit)))
            else:
                toks.append(('int', int(lit)))
            i = j
            continue
        m = _NAME_RE.match(text, i)
        if m:
            toks.append(('name', m.group(0).lower()))
            i = m.end()
            continue
        for op in ('**', '//', '==', '/=', '<=', '>=', '<', '>', '+', '-', '*', '/', '(', ')', ',', '%', '='):
            if text.startswith(op, i):
                toks.append(('op', op))
                i += len(op)
                break
        else:
            raise TextSyntaxError(f'unexpected character {c!r} in {text!r}')
    toks.append(('end', None))
    return toks


class _FParser:
    """grammar of gfortran's matchexp.c (level_1 .. level_5)"""

    def __init__(self, text):
        self.text = text
        self.toks = tokenize_fortran(text)
        self.pos = 0

    def peek(self):
        return self.toks[self.pos]

    def is_op(self, *ops):
        t = self.toks[self.pos]
        return t[0] == 'op' and t[1] in ops

    def take_op(self, *ops):
        t = self.toks[self.pos]
        if t[0] == 'op' and t[1] in ops:
            self.pos += 1
            return t[1]
        return None

    def expect(self, op):
        if not self.take_op(op):
            raise TextSyntaxError(f'expected {op!r} at token {self.pos} of {self.text!r}')

    def parse(self):
        e = self.level_5()
        if self.peek()[0] != 'end':
            raise TextSyntaxError(f'leftover input at token {self.pos} ({self.peek()!r}) of {self.text!r}')
        return e

    # level 5: .eqv. / .neqv.  >  .or.  >  .and.  >  .not.
    def level_5(self):
        e = self.equiv_operand()
        while True:
            op = self.take_op('.eqv.', '.neqv.')
            if not op:
                return e
            e = ('bin', op, e, self.equiv_operand())

    def equiv_operand(self):
        e = self.or_operand()
        while self.take_op('.or.'):
            e = ('bin', '.or.', e, self.or_operand())
        return e

    def or_operand(self):
        e = self.and_operand()
        while self.take_op('.and.'):
            e = ('bin', '.and.', e, self.and_operand())
        return e

    def and_operand(self):
        if self.take_op('.not.'):
            # and-operand is [.not.] level-4-expr: '.not. .not. p' is rejected (gfortran rejects it too)
            if self.is_op('.not.'):
                raise TextSyntaxError(f'.not. directly followed by .not. in {self.text!r}')
            return ('not', self.level_4())
        return self.level_4()

    def level_4(self):
        e = self.level_3()
        op = self.take_op('==', '/=', '<', '<=', '>', '>=')
        if op:
            r = self.level_3()
            if self.is_op('==', '/=', '<', '<=', '>', '>='):
                raise TextSyntaxError(f'chained relational operators in {self.text!r}')
            return ('bin', op, e, r)
        return e

    def level_3(self):
        e = self.level_2()
        if self.is_op('//'):
            raise TextSyntaxError('string concatenation is not supported')
        return e

    def level_2(self):
        sign = self.take_op('+', '-')
        if sign:
            e = self.ext_add_operand()
            e = ('neg', e) if sign == '-' else ('pos', e)
        else:
            e = self.add_operand()
        while True:
            op = self.take_op('+', '-')
            if not op:
                return e
            e = ('bin', op, e, self.ext_add_operand())

    def ext_add_operand(self):
        sign = self.take_op('+', '-')
        if not sign:
            return self.add_operand()
        e = self.ext_add_operand()
        return ('neg', e) if sign == '-' else ('pos', e)

    def add_operand(self):
        e = self.mult_operand()
        while True:
            op = self.take_op('*', '/')
            if not op:
                return e
            e = ('bin', op, e, self.ext_mult_operand())

    def ext_mult_operand(self):
        sign = self.take_op('+', '-')
        if not sign:
            return self.mult_operand()
        e = self.ext_mult_operand()
        return ('neg', e) if sign == '-' else ('pos', e)

    def mult_operand(self):
        e = self.level_1()
        if self.take_op('**'):
            return ('bin', '**', e, self.ext_mult_operand())
        return e

    def level_1(self):
        t = self.peek()
        if t[0] in ('int', 'real', 'log'):
            self.pos += 1
            return (t[0], t[1])
        if t[0] == 'name':
            return self.designator()
        if self.take_op('('):
            e = self.level_5()
            self.expect(')')
            return ('paren', e)
        raise TextSyntaxError(f'expected a primary at token {self.pos} ({t!r}) of {self.text!r}')

    def designator(self):
        name = self.peek()[1]
        self.pos += 1
        node = None
        while True:
            if self.take_op('('):
                args = []
                if not self.take_op(')'):
                    while True:
                        if self.peek()[0] == 'name' and self.toks[self.pos + 1] == ('op', '='):
                            kw = self.peek()[1]
                            self.pos += 2
                            val = self.level_5()
                            if kw != 'kind':
                                raise TextSyntaxError(f'keyword argument {kw}')
                            _ = val
                        else:
                            args.append(self.level_5())
                        if self.take_op(')'):
                            break
                        self.expect(',')
                if node is not None:
                    raise TextSyntaxError('subscript of a subscripted designator')
                node = ('ref', name, args)
                if self.is_op('%'):
                    raise TextSyntaxError('component of a subscripted designator')
                return node
            if self.take_op('%'):
                t = self.peek()
                if t[0] != 'name':
                    raise TextSyntaxError('expected a component name')
                self.pos += 1
                name = f'{name}%{t[1]}'
                continue
            return ('var', name)


def parse_fortran(text):
    return _FParser(text).parse()


def compile_ast(ast, sem=DEFAULT_SEM):
    """tuple AST -> closure f(env)"""
    rec = lambda a: compile_ast(a, sem)  # noqa
    kind = ast[0]
    if kind == 'log':
        v = ast[1]
        return lambda env: v
    if kind == 'int':
        return sem.lit(ast[1])
    if kind == 'real':
        return sem.lit(sem.real(ast[1]))
    if kind == 'var':
        name = ast[1]

        def f_var(env):
            if name not in env:
                raise Unevaluable(f'unbound variable {name}')
            return env[name]
        return f_var
    if kind == 'ref':
        name = ast[1]
        fs = [rec(a) for a in ast[2]]
        if name in INTRINSICS:
            return lambda env: sem.call(name, [f(env) for f in fs])

        def f_ref(env):
            tgt = env.get(name)
            if tgt is None:
                raise Unevaluable(f'unbound array/function {name}')
            return sem.index(tgt, name, tuple(f(env) for f in fs))
        return f_ref
    if kind == 'paren':
        return rec(ast[1])
    if kind == 'pos':
        fx = rec(ast[1])
        return lambda env: sem.num(fx(env), 'unary +')
    if kind == 'neg':
        fx = rec(ast[1])
        return lambda env: sem.neg(fx(env))
    if kind == 'not':
        fx = rec(ast[1])
        return lambda env: sem.not_(fx(env))
    if kind == 'bin':
        op = ast[1]
        fl, fr = rec(ast[2]), rec(ast[3])
        if op == '+':
            def f(env):
                a = fl(env)
                return sem.add(a, fr(env))
        elif op == '-':
            def f(env):
                a = fl(env)
                return sem.sub(a, fr(env))
        elif op == '*':
            def f(env):
                a = fl(env)
                return sem.mul(a, fr(env))
        elif op == '/':
            def f(env):
                a = fl(env)
                return sem.div(a, fr(env))
        elif op == '**':
            def f(env):
                a = fl(env)
                return sem.pow(a, fr(env))
        elif op in ('==', '/=', '<', '<=', '>', '>=', '!='):
            def f(env):
                a = fl(env)
                return sem.cmp(op, a, fr(env))
        elif op in ('.and.', '&&'):
            def f(env):
                a = fl(env)
                return sem.and_([a, fr(env)])
        elif op in ('.or.', '||'):
            def f(env):
                a = fl(env)
                return sem.or_([a, fr(env)])
        elif op == '.eqv.':
            def f(env):
                a = fl(env)
                return sem.eqv(a, fr(env))
        elif op == '.neqv.':
            def f(env):
                a = fl(env)
                return not sem.eqv(a, fr(env))
        else:
            raise Unevaluable(f'operator {op}')
        return f
    if kind == 'cast':
        name = ast[1]
        fx = rec(ast[2])
        return lambda env: sem.call(name, [fx(env)])
    if kind == 'ctruth':
        # C: integer-valued logical context (comparison results are ints in C)
        fx = rec(ast[1])
        return lambda env: _c_truth(fx(env))
    raise Unevaluable(f'ast node {kind}')


def compile_fortran(text, sem=DEFAULT_SEM):
    """closure env -> status tuple for Fortran expression text; raises TextSyntaxError"""
    fn = compile_ast(parse_fortran(text), sem)
    return lambda env: guarded(fn, env)


def eval_fortran(text, env, sem=DEFAULT_SEM):
    return compile_fortran(text, sem)(env)


# --------------------------------------------------------------------------
# C subset
# --------------------------------------------------------------------------
_C_TOK = re.compile(r'\s*(?:(?P<real>[0-9]+\.[0-9]*(?:[eE][+-]?[0-9]+)?|\.[0-9]+(?:[eE][+-]?[0-9]+)?|[0-9]+[eE][+-]?[0-9]+)'
                    r'|(?P<int>[0-9]+)|(?P<name>[A-Za-z_][A-Za-z0-9_]*)'
                    r'|(?P<op>\|\||&&|==|!=|<=|>=|[-+*/%<>!(),]))')
_C_TYPES = {'int': 'int', 'double': 'real', 'float': 'real', 'long': 'int'}


def _c_truth(v):
    if isinstance(v, bool):
        return v
    if isinstance(v, (int, Fraction, float)):
        return v != 0
    raise Unevaluable('non-scalar truth value')


def tokenize_c(text):
    toks, i = [], 0
    text = text.rstrip()
    while i < len(text):
        m = _C_TOK.match(text, i)
        if not m:
            raise TextSyntaxError(f'unexpected C input at {text[i:i + 10]!r} in {text!r}')
        i = m.end()
        if m.group('real'):
            toks.append(('real', Fraction(m.group('real'))))
        elif m.group('int'):
            toks.append(('int', int(m.group('int'))))
        elif m.group('name'):
            toks.append(('name', m.group('name')))
        else:
            toks.append(('op', m.group('op')))
    toks.append(('end', None))
    return toks


class _CParser:
    LEVELS = [('||',), ('&&',), ('==', '!='), ('<', '<=', '>', '>='), ('+', '-'), ('*', '/', '%')]

    def __init__(self, text):
        self.text = text
        self.toks = tokenize_c(text)
        self.pos = 0

    def peek(self):
        return self.toks[self.pos]

    def take_op(self, *ops):
        t = self.toks[self.pos]
        if t[0] == 'op' and t[1] in ops:
            self.pos += 1
            return t[1]
        return None

    def parse(self):
        e = self.binary(0)
        if self.peek()[0] != 'end':
            raise TextSyntaxError(f'leftover C input at token {self.pos} of {self.text!r}')
        return e

    def binary(self, lvl):
        if lvl == len(self.LEVELS):
            return self.unary()
        e = self.binary(lvl + 1)
        while True:
            op = self.take_op(*self.LEVELS[lvl])
            if not op:
                return e
            r = self.binary(lvl + 1)
            if op == '%':
                e = ('ref', 'mod', [e, r])
            elif op in ('||', '&&'):
                e = ('bin', op, ('ctruth', e), ('ctruth', r))
            else:
                e = ('bin', op, e, r)

    def unary(self):
        if self.take_op('-'):
            return ('neg', self.unary())
        if self.take_op('+'):
            return ('pos', self.unary())
        if self.take_op('!'):
            return ('not', ('ctruth', self.unary()))
        t = self.peek()
        if t == ('op', '('):
            nxt, nxt2 = self.toks[self.pos + 1], self.toks[self.pos + 2]
            if nxt[0] == 'name' and nxt[1] in _C_TYPES and nxt2 == ('op', ')'):
                self.pos += 3
                return ('cast', 'int' if _C_TYPES[nxt[1]] == 'int' else 'real', self.unary())
        return self.postfix()

    def postfix(self):
        t = self.peek()
        if t[0] in ('int', 'real'):
            self.pos += 1
            return (t[0], t[1])
        if t[0] == 'name':
            self.pos += 1
            if t[1] in ('true', 'false'):
                return ('log', t[1] == 'true')
            if self.take_op('('):
                args = []
                if not self.take_op(')'):
                    while True:
                        args.append(self.binary(0))
                        if self.take_op(')'):
                            break
                        if not self.take_op(','):
                            raise TextSyntaxError(f'expected , in call in {self.text!r}')
                raise TextSyntaxError(f'C call to {t[1]} is outside the evaluated subset')
            return ('var', t[1].lower())
        if self.take_op('('):
            e = self.binary(0)
            if not self.take_op(')'):
                raise TextSyntaxError(f'expected ) in {self.text!r}')
            return ('paren', e)
        raise TextSyntaxError(f'expected a C primary at token {self.pos} ({t!r}) of {self.text!r}')


def parse_c(text):
    return _CParser(text).parse()


def compile_c(text, sem=DEFAULT_SEM):
    fn = compile_ast(parse_c(text), sem)
    return lambda env: guarded(fn, env)


def same_value(a, b):
    """status tuples equal as values (C ints 0/1 vs logicals are compared by truth)"""
    if a[0] != 'ok' or b[0] != 'ok':
        return a[0] == b[0]
    va, vb = a[1], b[1]
    if isinstance(va, bool) != isinstance(vb, bool):
        if isinstance(va, (bool, int)) and isinstance(vb, (bool, int)):
            return bool(va) == bool(vb) and int(va) == int(vb)
        return False
    return va == vb


# --------------------------------------------------------------------------
# gfortran: evaluate batches of expressions natively (harness self-check of the
# Fortran text evaluator; thorough tier)
# --------------------------------------------------------------------------
ARRAY_BOUNDS = (-9, 9)


def int_array_value(k):
    """contents of the integer test array iv(k); same formula in fortran_program()"""
    return (k * k + 3 * k) % 7 - 3


def real_array_value(k):
    return Fraction((k * k + k) % 5 - 2, 2)


def array_env():
    lo, hi = ARRAY_BOUNDS

    def iv(k):
        if not lo <= k <= hi:
            raise TooBig('iv subscript out of bounds')
        return int_array_value(k)

    def xv(k):
        if not lo <= k <= hi:
            raise TooBig('xv subscript out of bounds')
        return real_array_value(k)
    return {'iv': iv, 'xv': xv}


def _flit(v):
    if isinstance(v, bool):
        return '.true.' if v else '.false.'
    if isinstance(v, int):
        return str(v)
    f = Fraction(v)
    return f'({f.numerator}.0_8/{f.denominator}.0_8)'


def fortran_program(items, int_names, real_names, log_names):
    """
    items: list of (text, env, kind) with kind in 'int'|'real'|'log'. One program
    assigning the valuation before each print. Values are printed one per line.
    """
    lo, hi = ARRAY_BOUNDS
    lines = ['program lokiverif_eval', '  implicit none',
             '  integer, parameter :: jprb = 8, jpim = 4',
             f'  integer :: iv({lo}:{hi})', f'  real(kind=8) :: xv({lo}:{hi})', '  integer :: kk_']
    if int_names:
        lines.append('  integer, volatile :: ' + ', '.join(int_names))
    if real_names:
        lines.append('  real(kind=8), volatile :: ' + ', '.join(real_names))
    if log_names:
        lines.append('  logical, volatile :: ' + ', '.join(log_names))
    lines.append(f'  do kk_ = {lo}, {hi}')
    lines.append('    iv(kk_) = modulo(kk_*kk_ + 3*kk_, 7) - 3')
    lines.append('    xv(kk_) = real(modulo(kk_*kk_ + kk_, 5) - 2, kind=8) / 2.0_8')
    lines.append('  end do')
    for text, env, kind in items:
        for n in int_names + real_names + log_names:
            if n in env:
                lines.append(f'  {n} = {_flit(env[n])}')
        if kind == 'real':
            lines.append(f"  write(*,'(ES30.20E3)') real({text}, kind=8)")
        elif kind == 'int':
            lines.append(f"  write(*,'(I0)') {text}")
        else:
            lines.append(f"  write(*,'(L1)') {text}")
    lines.append('end program lokiverif_eval')
    out = []
    for ln in lines:
        # free-form line length: wrap long statements with continuation
        while len(ln) > 120:
            out.append(ln[:120] + '&')
            ln = '&' + ln[120:]
        out.append(ln)
    return '\n'.join(out) + '\n'


def gfortran_run(src, workdir, tag='b'):
    """compile+run; returns ('ok', [lines]) | ('compile-error', stderr) | ('run-error', text)"""
    os.makedirs(workdir, exist_ok=True)
    f90 = os.path.join(workdir, f'{tag}.f90')
    exe = os.path.join(workdir, f'{tag}.x')
    with open(f90, 'w') as f:
        f.write(src)
    p = subprocess.run(['gfortran', '-O0', '-w', '-ffree-line-length-none', '-o', exe, f90],
                       capture_output=True, text=True, cwd=workdir)
    if p.returncode != 0:
        return ('compile-error', p.stderr[-3000:])
    r = subprocess.run([exe], capture_output=True, text=True, cwd=workdir, timeout=120)
    if r.returncode != 0:
        return ('run-error', (r.stdout[-500:] + r.stderr[-1500:]))
    return ('ok', r.stdout.split('\n')[:-1] if r.stdout.endswith('\n') else r.stdout.split('\n'))


def parse_gfortran_value(line, kind):
    s = line.strip()
    if kind == 'int':
        return int(s)
    if kind == 'log':
        return s.upper().startswith('T')
    return Fraction(s.replace('E', 'e'))


MACHINE_SEM = Sem(machine=True)


def values_close(expected, got):
    if isinstance(expected, bool) or isinstance(got, bool):
        return isinstance(expected, bool) and isinstance(got, bool) and expected == got
    if isinstance(expected, int) and isinstance(got, int):
        return expected == got
    e, g = Fraction(expected), Fraction(got)
    return abs(e - g) <= Fraction(1, 10 ** 11) * max(1, abs(e))


def gfortran_validate(items, workdir, tag='v', batch=200):
    """
    Harness self-check of the Fortran text evaluator. items: [(text, env)] with env
    over scalars named by the gen.py convention. For every item whose value is
    defined in machine mode (all intermediates exactly representable) the text
    is compiled with gfortran and the printed value compared.

    Returns dict(checked=n, skipped=n, rejected=[(text, stderr)], mismatches=[(text, env, ours, gfortran)])
    """
    from .gen import TYPE_OF_NAME  # naming convention only
    todo = []
    skipped = 0
    for text, env in items:
        try:
            fn = compile_fortran(text, MACHINE_SEM)
        except TextSyntaxError:
            skipped += 1
            continue
        full = dict(array_env())
        full.update(env)
        st = fn(full)
        if st[0] != 'ok':
            skipped += 1
            continue
        v = st[1]
        kind = 'log' if isinstance(v, bool) else ('int' if isinstance(v, int) else 'real')
        todo.append((text, {k: x for k, x in env.items() if not callable(x)}, kind, v))
    res = {'checked': 0, 'skipped': skipped, 'rejected': [], 'mismatches': []}

    def run(chunk, sub):
        names = sorted({n for _, env, _, _ in chunk for n in env})
        ints = [n for n in names if TYPE_OF_NAME[n] == 'int']
        reals = [n for n in names if TYPE_OF_NAME[n] == 'real']
        logs = [n for n in names if TYPE_OF_NAME[n] == 'log']
        src = fortran_program([(t, e, k) for t, e, k, _ in chunk], ints, reals, logs)
        out = gfortran_run(src, workdir, tag=f'{tag}{sub}')
        if out[0] != 'ok' or len(out[1]) != len(chunk):
            if len(chunk) == 1:
                res['rejected'].append((chunk[0][0], out[1] if out[0] != 'ok' else 'wrong number of output lines'))
                return
            mid = len(chunk) // 2
            run(chunk[:mid], sub + 'a')
            run(chunk[mid:], sub + 'b')
            return
        for (text, env, kind, v), line in zip(chunk, out[1]):
            res['checked'] += 1
            try:
                g = parse_gfortran_value(line, kind)
            except ValueError:
                res['mismatches'].append((text, env, v, line))
                continue
            if not values_close(v, g):
                res['mismatches'].append((text, env, v, g))

    for b in range(0, len(todo), batch):
        run(todo[b:b + batch], f'_{b}')
    return res
