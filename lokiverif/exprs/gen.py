"""
JSON-encoded expression trees ("J-trees"): Hypothesis strategies, decoder to
loki trees, encoder from loki trees, static typing, valuations.

J-tree forms (plain lists, so that cases are JSON data):

  ["Int", v] ["IntK", v, kind]     IntLiteral (v may be negative)
  ["Raw", v]                       plain python int child (loki encodes negation as Product((-1, x)))
  ["Real", "1.5"] ["Real", "1.5", kind]   FloatLiteral (value kept as text)
  ["Log", true]                    LogicLiteral
  ["Var", name]                    scalar; type from the name (see TYPE_OF_NAME), spelled case is kept
  ["Arr", name, [idx..]]           array element of iv / xv
  ["Sum", [c..]] ["Product", [c..]] ["Quotient", n, d] ["Power", b, e]
  ["PSum", [c..]] ["PProduct", [c..]] ["PQuotient", n, d] ["PPower", b, e]   Parenthesised* nodes
  ["RawSum", ..] ["RawProduct", ..] ["RawQuotient", ..] ["RawPower", ..]     bare pymbolic nodes
  ["Cmp", op, l, r]                op in == != < <= > >=
  ["And", [c..]] ["Or", [c..]] ["Not", c]
  ["Call", name, [args]]           InlineCall of an intrinsic
  ["Cast", "real"|"int", x]        Cast

Variable naming convention (lower-cased name decides the type):
  integers i j k n m l ; reals x y z u t ; logicals p q r ;
  arrays iv (integer) xv (real), bounds -9:9, fixed contents (ftext.int_array_value);
  derived-type components s%m (integer) s%r (real).
"""
from fractions import Fraction
import itertools

from hypothesis import strategies as st

from .ftext import array_env

INT_VARS = ('i', 'j', 'k', 'n', 'm', 'l')
REAL_VARS = ('x', 'y', 'z', 'u', 't')
LOG_VARS = ('p', 'q', 'r')
TYPE_OF_NAME = {}
TYPE_OF_NAME.update({n: 'int' for n in INT_VARS})
TYPE_OF_NAME.update({n: 'real' for n in REAL_VARS})
TYPE_OF_NAME.update({n: 'log' for n in LOG_VARS})
TYPE_OF_NAME.update({'iv': 'int', 'xv': 'real', 's%m': 'int', 's%r': 'real', 's%mv': 'int'})

INT_BOX = (-3, -2, -1, 0, 1, 2, 3)
REAL_BOX = (Fraction(-2), Fraction(-1, 2), Fraction(0), Fraction(3, 2), Fraction(3))
LOG_BOX = (False, True)
BOX = {'int': INT_BOX, 'real': REAL_BOX, 'log': LOG_BOX}

CMP_OPS = ('==', '!=', '<', '<=', '>', '>=')
MULTI = {'Sum', 'Product', 'PSum', 'PProduct', 'RawSum', 'RawProduct', 'And', 'Or'}
BINARY = {'Quotient': ('numerator', 'denominator'), 'PQuotient': ('numerator', 'denominator'),
          'RawQuotient': ('numerator', 'denominator'),
          'Power': ('base', 'exponent'), 'PPower': ('base', 'exponent'), 'RawPower': ('base', 'exponent')}
LEAVES = {'Int', 'IntK', 'Raw', 'Real', 'Log', 'Var'}
CLASS_NAME = {
    'Int': 'IntLiteral', 'IntK': 'IntLiteral', 'Raw': 'int', 'Real': 'FloatLiteral', 'Log': 'LogicLiteral',
    'Var': 'Scalar', 'Arr': 'Array', 'Sum': 'Sum', 'Product': 'Product', 'Quotient': 'Quotient', 'Power': 'Power',
    'PSum': 'ParenthesisedAdd', 'PProduct': 'ParenthesisedMul', 'PQuotient': 'ParenthesisedDiv',
    'PPower': 'ParenthesisedPow', 'RawSum': 'pymbolic.Sum', 'RawProduct': 'pymbolic.Product',
    'RawQuotient': 'pymbolic.Quotient', 'RawPower': 'pymbolic.Power', 'Cmp': 'Comparison',
    'And': 'LogicalAnd', 'Or': 'LogicalOr', 'Not': 'LogicalNot', 'Call': 'InlineCall', 'Cast': 'Cast',
}
PAREN_OF = {'Sum': 'PSum', 'Product': 'PProduct', 'Quotient': 'PQuotient', 'Power': 'PPower',
            'RawSum': 'PSum', 'RawProduct': 'PProduct', 'RawQuotient': 'PQuotient', 'RawPower': 'PPower'}


# --------------------------------------------------------------------------
# structure helpers
# --------------------------------------------------------------------------
def children(j):
    """[(slot, child)] ; slot names are stable and generated-value free"""
    tag = j[0]
    if tag in LEAVES:
        return []
    if tag in MULTI:
        return [('first' if k == 0 else 'rest', c) for k, c in enumerate(j[1])]
    if tag in BINARY:
        a, b = BINARY[tag]
        return [(a, j[1]), (b, j[2])]
    if tag == 'Cmp':
        return [('left', j[2]), ('right', j[3])]
    if tag == 'Not':
        return [('child', j[1])]
    if tag == 'Call':
        return [('arg', c) for c in j[2]]
    if tag == 'Arr':
        return [('index', c) for c in j[2]]
    if tag == 'Cast':
        return [('arg', j[2])]
    raise ValueError(f'unknown J-tree tag {tag!r}')


def with_children(j, new):
    """rebuild node j with the list of new children (same order as children(j))"""
    tag = j[0]
    if tag in LEAVES:
        return j
    if tag in MULTI:
        return [tag, list(new)]
    if tag in BINARY:
        return [tag, new[0], new[1]]
    if tag == 'Cmp':
        return ['Cmp', j[1], new[0], new[1]]
    if tag == 'Not':
        return ['Not', new[0]]
    if tag == 'Call':
        return ['Call', j[1], list(new)]
    if tag == 'Arr':
        return ['Arr', j[1], list(new)]
    if tag == 'Cast':
        return ['Cast', j[1], new[0]]
    raise ValueError(tag)


def walk(j):
    yield j
    for _, c in children(j):
        yield from walk(c)


def size(j):
    return sum(1 for _ in walk(j))


def depth(j):
    ch = children(j)
    return 1 + (max(depth(c) for _, c in ch) if ch else 0)


def is_minus_one(j):
    return j[0] in ('Raw', 'Int') and j[1] == -1


def is_neg_form(j):
    """Product((-1, ...)) : loki's encoding of a unary minus"""
    return j[0] in ('Product', 'RawProduct') and len(j[1]) >= 2 and is_minus_one(j[1][0])


def describe(j):
    """class description used in signatures (no generated names/values)"""
    tag = j[0]
    if tag in ('Int', 'IntK'):
        return 'IntLiteral<0' if j[1] < 0 else 'IntLiteral'
    if tag == 'Raw':
        return 'int<0' if j[1] < 0 else 'int'
    if tag == 'Real':
        return 'FloatLiteral<0' if str(j[1]).startswith('-') else 'FloatLiteral'
    if is_neg_form(j):
        return CLASS_NAME[tag] + ('(-1,x)' if len(j[1]) == 2 else '(-1,x,..)')
    return CLASS_NAME[tag]


def typeof(j):
    tag = j[0]
    if tag in ('Int', 'IntK', 'Raw'):
        return 'int'
    if tag == 'Real':
        return 'real'
    if tag in ('Log', 'Cmp', 'And', 'Or', 'Not'):
        return 'log'
    if tag in ('Var', 'Arr'):
        t = TYPE_OF_NAME.get(j[1].lower())
        if t is None:
            raise ValueError(f'variable {j[1]!r} has no type by the naming convention')
        return t
    if tag == 'Cast':
        return 'real' if j[1].lower() in ('real', 'dble') else 'int'
    if tag == 'Call':
        ts = [typeof(c) for c in j[2]]
        if j[1].lower() == 'merge':
            ts = ts[:2]
        return 'real' if 'real' in ts else 'int'
    if tag in BINARY and tag.endswith('Power'):
        return typeof(j[1]) if typeof(j[2]) != 'real' else 'real'
    ts = [typeof(c) for _, c in children(j)]
    if 'log' in ts:
        raise ValueError(f'logical operand of arithmetic node {tag}')
    return 'real' if 'real' in ts else 'int'


def var_names(j):
    """sorted lower-case scalar names used (valuation domain)"""
    return sorted({n[1].lower() for n in walk(j) if n[0] == 'Var'})


def uses_arrays(j):
    return any(n[0] == 'Arr' for n in walk(j))


# --------------------------------------------------------------------------
# valuations
# --------------------------------------------------------------------------
def valuations(names, cap=343, box=None):
    """deterministic list of environments over the box; all of them if <= cap,
    otherwise a stride sample of the full product (plus the all-extremes corners)"""
    box = box or BOX
    doms = [box[TYPE_OF_NAME[n]] for n in names]
    total = 1
    for d in doms:
        total *= len(d)
    arr = array_env()
    if total <= cap:
        combos = itertools.product(*doms)
    else:
        step = int(total * 0.6180339887) | 1
        while _gcd(step, total) != 1:
            step += 2
        idxs = sorted({(k * step) % total for k in range(cap)})

        def combo(ix):
            out = []
            for d in reversed(doms):
                ix, r = divmod(ix, len(d))
                out.append(d[r])
            return tuple(reversed(out))
        combos = (combo(ix) for ix in idxs)
    envs = []
    for c in combos:
        env = dict(zip(names, c))
        env.update(arr)
        envs.append(env)
    return envs


def _gcd(a, b):
    while b:
        a, b = b, a % b
    return a


def env_json(env):
    """valuation as readable JSON-able dict (scalars only)"""
    return {k: (str(v) if isinstance(v, Fraction) else v) for k, v in env.items() if not callable(v)}


# --------------------------------------------------------------------------
# decoder: J-tree -> loki tree
# --------------------------------------------------------------------------
class Decoder:
    """builds loki nodes; variables are typed and declared in one loki Scope"""

    def __init__(self, scope=None):
        from loki import Scope
        self.scope = scope if scope is not None else Scope()
        self._vars = {}

    def _type(self, t, shape=None):
        from loki.types import SymbolAttributes, BasicType
        dt = {'int': BasicType.INTEGER, 'real': BasicType.REAL, 'log': BasicType.LOGICAL}[t]
        if shape:
            return SymbolAttributes(dt, shape=shape)
        return SymbolAttributes(dt)

    def var(self, name, dims=None):
        from loki.expression import symbols as sym
        t = TYPE_OF_NAME.get(name.lower())
        if t is None:
            raise ValueError(f'variable {name!r} has no type by the naming convention')
        if dims is None:
            key = name
            if key not in self._vars:
                self._vars[key] = sym.Variable(name=name, scope=self.scope, type=self._type(t))
            return self._vars[key]
        shape = (sym.RangeIndex((sym.Product((-1, sym.IntLiteral(9))), sym.IntLiteral(9))),)
        return sym.Variable(name=name, scope=self.scope, type=self._type(t, shape=shape), dimensions=tuple(dims))

    def kind(self, k):
        from loki.expression import symbols as sym
        if k is None:
            return None
        if isinstance(k, int) or str(k).isdigit():
            return sym.IntLiteral(int(k))
        return sym.Variable(name=str(k), scope=self.scope)

    def dec(self, j):
        from loki.expression import symbols as sym, operations as ops
        import pymbolic.primitives as pmbl
        tag = j[0]
        d = self.dec
        if tag == 'Int':
            return sym.IntLiteral(j[1])
        if tag == 'IntK':
            return sym.IntLiteral(j[1], kind=self.kind(j[2]))
        if tag == 'Raw':
            return int(j[1])
        if tag == 'Real':
            return sym.FloatLiteral(j[1], kind=self.kind(j[2]) if len(j) > 2 else None)
        if tag == 'Log':
            return sym.LogicLiteral('true' if j[1] else 'false')
        if tag == 'Var':
            return self.var(j[1])
        if tag == 'Arr':
            return self.var(j[1], dims=[d(c) for c in j[2]])
        if tag in MULTI:
            cls = {'Sum': sym.Sum, 'Product': sym.Product, 'PSum': ops.ParenthesisedAdd,
                   'PProduct': ops.ParenthesisedMul, 'RawSum': pmbl.Sum, 'RawProduct': pmbl.Product,
                   'And': sym.LogicalAnd, 'Or': sym.LogicalOr}[tag]
            return cls(tuple(d(c) for c in j[1]))
        if tag in BINARY:
            cls = {'Quotient': sym.Quotient, 'PQuotient': ops.ParenthesisedDiv, 'RawQuotient': pmbl.Quotient,
                   'Power': sym.Power, 'PPower': ops.ParenthesisedPow, 'RawPower': pmbl.Power}[tag]
            return cls(d(j[1]), d(j[2]))
        if tag == 'Cmp':
            return sym.Comparison(d(j[2]), j[1], d(j[3]))
        if tag == 'Not':
            return sym.LogicalNot(d(j[1]))
        if tag == 'Call':
            return sym.InlineCall(sym.ProcedureSymbol(j[1], scope=self.scope), tuple(d(c) for c in j[2]))
        if tag == 'Cast':
            return sym.Cast(j[1], d(j[2]))
        raise ValueError(f'unknown J-tree tag {tag!r}')


def decode(j, scope=None):
    return Decoder(scope).dec(j)


class NotEncodable(Exception):
    pass


def encode(e):
    """loki tree -> J-tree by exact class dispatch"""
    from loki.expression import symbols as sym, operations as ops
    import pymbolic.primitives as pmbl
    t = type(e)
    if t is bool:
        raise NotEncodable('python bool child')
    if t is int:
        return ['Raw', e]
    if t is sym.IntLiteral:
        if e.kind is not None:
            return ['IntK', e.value, str(e.kind)]
        return ['Int', e.value]
    if t is sym.FloatLiteral:
        return ['Real', e.value] + ([str(e.kind)] if e.kind is not None else [])
    if t is sym.LogicLiteral:
        return ['Log', bool(e.value)]
    if t in (sym.Scalar, sym.DeferredTypeSymbol):
        if e.name.lower() not in TYPE_OF_NAME:
            raise NotEncodable(f'variable {e.name}')
        return ['Var', e.name]
    if t is sym.Array:
        if e.name.lower() not in TYPE_OF_NAME or not e.dimensions:
            raise NotEncodable(f'array {e.name}')
        return ['Arr', e.name, [encode(d) for d in e.dimensions]]
    multi = {sym.Sum: 'Sum', sym.Product: 'Product', ops.ParenthesisedAdd: 'PSum', ops.ParenthesisedMul: 'PProduct',
             pmbl.Sum: 'RawSum', pmbl.Product: 'RawProduct', sym.LogicalAnd: 'And', sym.LogicalOr: 'Or'}
    if t in multi:
        return [multi[t], [encode(c) for c in e.children]]
    quot = {sym.Quotient: 'Quotient', ops.ParenthesisedDiv: 'PQuotient', pmbl.Quotient: 'RawQuotient'}
    if t in quot:
        return [quot[t], encode(e.numerator), encode(e.denominator)]
    powr = {sym.Power: 'Power', ops.ParenthesisedPow: 'PPower', pmbl.Power: 'RawPower'}
    if t in powr:
        return [powr[t], encode(e.base), encode(e.exponent)]
    if t is sym.Comparison:
        return ['Cmp', e.operator, encode(e.left), encode(e.right)]
    if t is sym.LogicalNot:
        return ['Not', encode(e.child)]
    if t is sym.InlineCall:
        if e.kw_parameters:
            raise NotEncodable('keyword arguments')
        return ['Call', str(e.function.name), [encode(c) for c in e.parameters]]
    if t is ops.Cast:
        if e.kind is not None or len(e.parameters) != 1:
            raise NotEncodable('cast with kind')
        return ['Cast', str(e.name), encode(e.parameters[0])]
    raise NotEncodable(f'node class {t.__module__}.{t.__name__}')


# --------------------------------------------------------------------------
# strategies
#
# Trees are built by plain functions from a *choice sequence* (a list of small
# integers drawn by Hypothesis in one go): every decision consumes one number,
# 0 always selects the simplest alternative and an exhausted sequence yields
# only zeros. This keeps generation cheap (one draw per case instead of one per
# node) and still shrinks well: Hypothesis shortens the list / lowers its
# entries, which prunes subtrees into leaves.
# --------------------------------------------------------------------------
class Chooser:
    def __init__(self, data):
        self.data = data
        self.pos = 0

    def int(self, lo, hi):
        """integer in [lo, hi]; lo when the sequence is exhausted"""
        span = hi - lo + 1
        v = 0
        for _ in range(1 if span <= 256 else 2):
            v <<= 8
            if self.pos < len(self.data):
                v |= self.data[self.pos]
                self.pos += 1
        return lo + v % span

    def pick(self, seq):
        return seq[self.int(0, len(seq) - 1)]

    def chance(self, p):
        """True with probability ~p (never when exhausted)"""
        return self.int(0, 999) >= 1000 - int(p * 1000)

    def bool(self):
        return self.int(0, 1) == 1


def choices(max_size=160):
    # one bytes draw per case (a list of integers costs one draw per element, ~6 ms per case)
    return st.binary(min_size=max_size // 2, max_size=max_size)


class Cfg:
    """generator profile"""

    def __init__(self, **kw):
        self.paren = 0.15           # probability of a Parenthesised* node where one is possible
        self.neg_literals = True    # IntLiteral(-v), FloatLiteral('-v')
        self.int_quotients = True   # integer / integer
        self.powers = True
        self.calls = True
        self.casts = True
        self.arrays = True
        self.kinds = True
        self.mixed = True           # integer sub-expressions inside real ones
        self.case_names = False     # random letter case of variable names
        self.raw_nodes = False      # bare pymbolic Sum/Product/Quotient/Power nodes
        self.max_children = 3
        self.int_vars = 4
        self.__dict__.update(kw)


def _name(ch, pool, cfg):
    n = ch.pick(pool)
    if cfg.case_names and ch.bool():
        n = n.upper()
    return n


def build_leaf(ch, typ, cfg):
    if typ == 'int':
        k = ch.int(0, 9)
        if k <= 4:
            return ['Var', _name(ch, INT_VARS[:cfg.int_vars], cfg)]
        if k <= 7:
            return ['Int', ch.int(0, 5)]
        if k == 8 and cfg.neg_literals:
            return ['Int', -ch.int(1, 4)]
        if k == 9 and cfg.kinds:
            return ['IntK', ch.int(1, 4), 'jpim']
        return ['Int', ch.int(1, 3)]
    if typ == 'real':
        k = ch.int(0, 9)
        if k <= 5:
            return ['Var', _name(ch, REAL_VARS[:3], cfg)]
        lit = ch.pick(['0.5', '1.5', '2.0', '0.25', '3.0', '4.', '1.0'])
        if k == 8 and cfg.neg_literals:
            return ['Real', '-' + lit]
        if k == 9 and cfg.kinds:
            return ['Real', lit, 'jprb']
        return ['Real', lit]
    k = ch.int(0, 9)
    if k <= 7:
        return ['Var', _name(ch, LOG_VARS[:2], cfg)]
    return ['Log', ch.bool()]


def _maybe_paren(ch, j, cfg):
    if j[0] in ('Sum', 'Product', 'Quotient', 'Power'):
        if cfg.paren > 0 and ch.chance(cfg.paren):
            return ['P' + j[0]] + j[1:]
        if cfg.raw_nodes and ch.int(0, 9) == 9:
            return ['Raw' + j[0]] + j[1:]
    return j


def build_tree(ch, typ='int', depth=4, cfg=None):
    """J-tree of the given static type and at most the given depth"""
    cfg = cfg or Cfg()
    if depth <= 1 or ch.int(0, 9) == 0:
        return build_leaf(ch, typ, cfg)
    sub = lambda t, d=depth - 1: build_tree(ch, t, d, cfg)  # noqa

    def operand_type():
        if typ == 'real' and cfg.mixed and ch.int(0, 3) == 3:
            return 'int'
        return typ

    if typ in ('int', 'real'):
        kinds = ['Sum', 'Product', 'Neg', 'Sum', 'Product']
        if typ == 'real' or cfg.int_quotients:
            kinds += ['Quotient', 'Quotient']
        if cfg.powers:
            kinds += ['Power']
        if cfg.calls:
            kinds += ['Call']
        if cfg.casts:
            kinds += ['Cast']
        if cfg.arrays:
            kinds += ['Arr']
        kind = ch.pick(kinds)
        if kind in ('Sum', 'Product'):
            n = ch.int(2, cfg.max_children)
            kids = [sub(operand_type()) for _ in range(n)]
            if typ == 'real' and all(typeof(c) == 'int' for c in kids):
                kids[0] = sub('real')
            if kind == 'Product' and ch.int(0, 5) == 5:
                # multi-factor negation Product((-1, a, b))
                kids = [['Raw', -1]] + kids
            return _maybe_paren(ch, [kind, kids], cfg)
        if kind == 'Neg':
            minus = ['Raw', -1] if ch.int(0, 4) < 4 else ['Int', -1]
            return _maybe_paren(ch, ['Product', [minus, sub(typ)]], cfg)
        if kind == 'Quotient':
            a, b = sub(operand_type()), sub(operand_type())
            if typ == 'real' and typeof(a) == 'int' and typeof(b) == 'int':
                a = sub('real')
            if b[0] in ('Int', 'Raw') and b[1] == 0:
                b = ['Int', 2]
            return _maybe_paren(ch, ['Quotient', a, b], cfg)
        if kind == 'Power':
            base = sub(typ)
            k = ch.int(0, 9)
            if k <= 5:
                e = ['Int', ch.int(0, 3)]
            elif k == 6 and cfg.neg_literals:
                e = ['Int', -ch.int(1, 2)]
            elif k == 7:
                e = ['Product', [['Raw', -1], ['Int', ch.int(1, 2)]]]
            else:
                e = sub('int', min(depth - 1, 2))
            return _maybe_paren(ch, ['Power', base, e], cfg)
        if kind == 'Call':
            fn = ch.pick(['abs', 'min', 'max', 'mod', 'sign'])
            if fn == 'abs':
                return ['Call', 'abs', [sub(typ)]]
            return ['Call', fn, [sub(typ), sub(typ)]]
        if kind == 'Cast':
            return ['Cast', 'real', sub('int')] if typ == 'real' else ['Cast', 'int', sub('real')]
        if kind == 'Arr':
            return ['Arr', 'iv' if typ == 'int' else 'xv', [sub('int', min(depth - 1, 2))]]
    # logical
    kind = ch.pick(['Cmp', 'And', 'Or', 'Not', 'Cmp', 'Cmp'])
    if kind == 'Cmp':
        t = ch.pick(['int', 'real', 'int'])
        return ['Cmp', ch.pick(CMP_OPS), sub(t), sub(t)]
    if kind == 'Not':
        return ['Not', sub('log')]
    n = ch.int(2, cfg.max_children)
    return [kind, [sub('log') for _ in range(n)]]


def build_any(ch, depth=4, cfg=None, types=('int', 'real', 'log', 'int')):
    return build_tree(ch, ch.pick(types), depth, cfg)


def tree(typ='int', depth=4, cfg=None, max_size=160):
    return choices(max_size).map(lambda data: build_tree(Chooser(data), typ, depth, cfg))


def any_tree(depth=4, cfg=None, types=('int', 'real', 'log', 'int'), max_size=160):
    return choices(max_size).map(lambda data: build_any(Chooser(data), depth, cfg, types))


def from_choices(builder, max_size=200):
    """strategy: builder(Chooser) -> JSON case"""
    return choices(max_size).map(lambda data: builder(Chooser(data)))


def neg(j):
    return ['Product', [['Raw', -1], j]]


def case_twin(name, mask):
    """permute the letter case of a name by a bit mask (deterministic)"""
    out = []
    for k, c in enumerate(name):
        out.append(c.upper() if (mask >> (k % 16)) & 1 else c.lower())
    return ''.join(out)


# --------------------------------------------------------------------------
# display and shrinking of J-trees
# --------------------------------------------------------------------------
def show(j):
    """fully parenthesised, unambiguous rendering of a J-tree (for messages; independent of loki's printers)"""
    tag = j[0]
    if tag in ('Int', 'Raw'):
        return str(j[1]) if tag == 'Int' else f'{j[1]}'
    if tag == 'IntK':
        return f'{j[1]}_{j[2]}'
    if tag == 'Real':
        return j[1] + (f'_{j[2]}' if len(j) > 2 else '')
    if tag == 'Log':
        return '.true.' if j[1] else '.false.'
    if tag == 'Var':
        return j[1]
    if tag == 'Arr':
        return f'{j[1]}({", ".join(show(c) for c in j[2])})'
    if tag == 'Call':
        return f'{j[1]}({", ".join(show(c) for c in j[2])})'
    if tag == 'Cast':
        return f'{j[1]}({show(j[2])})'
    if tag == 'Not':
        return f'.not.({show(j[1])})'
    if tag == 'Cmp':
        return f'({show(j[2])} {j[1]} {show(j[3])})'
    mark = '[' if tag.startswith('P') and tag != 'Product' and tag != 'Power' else '('
    close = ']' if mark == '[' else ')'
    if tag in MULTI:
        op = {'Sum': ' + ', 'Product': '*', 'And': ' .and. ', 'Or': ' .or. '}[tag.replace('Raw', '').replace('PS', 'S').replace('PP', 'P')]
        return mark + op.join(show(c) for c in j[1]) + close
    op = ' / ' if 'Quotient' in tag else '**'
    return mark + show(j[1]) + op + show(j[2]) + close


def abstract(j):
    """structure with leaves reduced to their kind: i x p (variables) N R L (literals; '-' suffix if negative) -1"""
    tag = j[0]
    if tag == 'Var':
        return {'int': 'i', 'real': 'x', 'log': 'p'}[TYPE_OF_NAME[j[1].lower()]]
    if tag == 'Raw':
        return str(j[1]) if j[1] in (-1, 0, 1) else ('n-' if j[1] < 0 else 'n')
    if tag in ('Int', 'IntK'):
        return '0' if j[1] == 0 else ('N-' if j[1] < 0 else 'N')
    if tag == 'Real':
        return 'R-' if j[1].startswith('-') else 'R'
    if tag == 'Log':
        return 'L'
    name = CLASS_NAME[tag].replace('Parenthesised', 'P')
    if tag == 'Cmp':
        name = 'Cmp'
    extra = f'{j[1]}:' if tag in ('Call', 'Cast') else ''
    return f'{name}({extra}{",".join(abstract(c) for _, c in children(j))})'


def replace_at(j, path, new):
    if not path:
        return new
    ch = [c for _, c in children(j)]
    ch[path[0]] = replace_at(ch[path[0]], path[1:], new)
    return with_children(j, ch)


def paths(j, prefix=()):
    yield prefix, j
    for k, (_, c) in enumerate(children(j)):
        yield from paths(c, prefix + (k,))


CANON_LEAF = {'int': ['Var', 'i'], 'real': ['Var', 'x'], 'log': ['Var', 'p']}


def shrink(j, failing, budget=150):
    """greedy structural reduction of a J-tree keeping ``failing(tree)`` true and the static type of every
    replaced subtree: hoist a child, replace a subtree by a variable, drop operands of n-ary nodes, turn literals
    into small ones. Deterministic."""
    left = [budget]

    def ok(t):
        if left[0] <= 0:
            return False
        left[0] -= 1
        try:
            return bool(failing(t))
        except ValueError:
            return False

    changed = True
    while changed and left[0] > 0:
        changed = False
        for path, node in list(paths(j)):
            if node[0] in LEAVES:
                continue
            t = typeof(node)
            cands = []
            # hoist a child of the same type
            for _, c in children(node):
                try:
                    if typeof(c) == t:
                        cands.append(c)
                except ValueError:
                    pass
            # a plain variable instead of the subtree
            cands.append(CANON_LEAF[t])
            # fewer operands
            if node[0] in MULTI and len(node[1]) > 2:
                for k in range(len(node[1])):
                    if k == 0 and is_neg_form(node):
                        continue
                    cands.append([node[0], node[1][:k] + node[1][k + 1:]])
            # without the Parenthesised* / bare flavour
            if node[0] in PAREN_OF.values() or node[0].startswith('Raw'):
                plain = node[0][1:] if node[0][0] == 'P' and node[0] not in ('Product', 'Power') else node[0].replace('Raw', '')
                cands.append([plain] + node[1:])
            for cand in cands:
                if cand == node:
                    continue
                try:
                    new = replace_at(j, list(path), cand)
                    typeof(new)
                except ValueError:
                    continue
                if size(new) <= size(j) and new != j and ok(new):
                    j = new
                    changed = True
                    break
            if changed:
                break
        if changed:
            continue
        # leaves: variables of one name per type where possible, literals towards 1 / 2
        for path, node in list(paths(j)):
            cands = []
            if node[0] == 'Var':
                c = CANON_LEAF[TYPE_OF_NAME[node[1].lower()]]
                if c != node:
                    cands.append(c)
            elif node[0] in ('Int', 'IntK') and not (node[0] == 'Int' and node[1] in (0, 1, 2, -1)):
                cands += [CANON_LEAF['int'], ['Int', 2 if node[1] > 0 else -1]]
            elif node[0] == 'Int' and node[1] in (1, 2):
                cands.append(CANON_LEAF['int'])
            elif node[0] == 'Real':
                cands.append(CANON_LEAF['real'])
                if node[1] not in ('2.0', '-1.0') or len(node) > 2:
                    cands.append(['Real', '-1.0' if node[1].startswith('-') else '2.0'])
            for cand in cands:
                try:
                    new = replace_at(j, list(path), cand)
                    typeof(new)
                except ValueError:
                    continue
                if new != j and ok(new):
                    j = new
                    changed = True
                    break
            if changed:
                break
    return j
