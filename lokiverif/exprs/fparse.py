"""
Batch parsing of expression texts through loki's fparser frontend: every text
becomes the right-hand side of one assignment in a generated routine that
declares the variables of the gen.py naming convention.
"""
from .gen import INT_VARS, REAL_VARS, LOG_VARS

HEADER = f"""
subroutine lokiverif_exprs({', '.join(INT_VARS + REAL_VARS + LOG_VARS)}, iv, xv, s)
  use parkind1, only: jprb, jpim
  use lokiverif_types, only: styp
  implicit none
  integer, intent(in) :: {', '.join(INT_VARS)}
  real(kind=jprb), intent(in) :: {', '.join(REAL_VARS)}
  logical, intent(in) :: {', '.join(LOG_VARS)}
  integer, intent(in) :: iv(-9:9)
  real(kind=jprb), intent(in) :: xv(-9:9)
  type(styp), intent(in) :: s
  integer :: ri_
  real(kind=jprb) :: rx_
  logical :: rl_
"""
LHS = {'int': 'ri_', 'real': 'rx_', 'log': 'rl_'}


def routine_source(texts, types):
    body = '\n'.join(f'  {LHS[t]} = {text}' for text, t in zip(texts, types))
    return HEADER + body + '\nend subroutine lokiverif_exprs\n'


def declaring_routine():
    """a parsed routine without statements: the scope handed to parse_expr"""
    from loki import Subroutine
    from loki.frontend import FP
    return Subroutine.from_source(routine_source([], []), frontend=FP)


def frontend_parse(texts, types):
    """-> (routine, list of rhs expression trees or Exception instances)"""
    from loki import Subroutine
    from loki.frontend import FP
    from loki.ir import FindNodes, Assignment
    try:
        routine = Subroutine.from_source(routine_source(texts, types), frontend=FP)
        asg = FindNodes(Assignment).visit(routine.body)
        if len(asg) == len(texts):
            return routine, [a.rhs for a in asg]
    except Exception:  # noqa: fall back to one routine per text to find the offender(s)
        pass
    out = []
    routine = None
    for text, t in zip(texts, types):
        try:
            r = Subroutine.from_source(routine_source([text], [t]), frontend=FP)
            asg = FindNodes(Assignment).visit(r.body)
            if len(asg) != 1:
                raise ValueError(f'{len(asg)} assignments parsed from one statement')
            out.append(asg[0].rhs)
            routine = routine or r
        except Exception as e:  # noqa
            out.append(e)
    return routine or declaring_routine(), out
