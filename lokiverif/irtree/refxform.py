"""
Reference tree rebuild on plain-data mirrors (see ``walk.mirror``), written from the
*documented* behaviour of loki's transformers (class/handler docstrings and the repo's
transformer tests), not from their control flow:

Transformer        "a node n is replaced with M(n) ... The mapping is applied before
                   visiting any children of a node" (so: a replaced node's subtree is not
                   looked at, the replacement is taken as is); M(n) None -> n dropped;
                   M(n) iterable -> its nodes are inserted into the tuple containing n;
                   a tuple that contains n itself keeps n (n is then rebuilt like any
                   unmapped node); tuple-of-nodes keys replace that run of siblings.
                   Keys are matched by node equality.
NestedTransformer  "applies replacements in a depth-first fashion": children first, then
                   the node is rebuilt from its handle with the rebuilt children (claimed
                   only for handles that differ from the key in non-traversable fields).
MaskedTransformer  nodes are included while "switched on"; start nodes switch on and are
                   included, stop nodes switch off and are excluded; an internal node is
                   included only if the transformer was on before visiting it, otherwise
                   only its included body nodes are retained (spliced).
NestedMasked..     an InternalNode is included as long as any of its body is included;
                   LeafNodes are included iff active; Conditional without body -> its
                   else_body; MultiConditional drops empty branches, none left -> else_body.

A mirror node is ``{'k': cls, 'f': {field: value}, ...bookkeeping}``.  Reference results
carry '_o' (pre-order index of the surviving original node) or '_h' (came from a handle).
"""
import copy

from .gen import SLOTS
from .walk import canon, is_mnode, flat_nodes

LEAF_WITH_BODIES = ('MaskedStatement',)     # LeafNode subclasses that nevertheless hold statements


def slots_of(m):
    return SLOTS.get(m['k'], ())


def normalise(m):
    """flatten nested lists in node slots (in-place updates do not run the tuple sanitisers)"""
    if isinstance(m, list):
        return [normalise(x) for x in flat_nodes(m)] if any(is_mnode(x) or isinstance(x, list) for x in m) else m
    if not is_mnode(m):
        return m
    out = dict(m)
    out['f'] = dict(m['f'])
    for sl, kind in slots_of(m):
        v = m['f'].get(sl)
        if v is None:
            v = []
        if kind == 'F':
            out['f'][sl] = [normalise(x) for x in flat_nodes(v)]
        else:
            out['f'][sl] = [[normalise(x) for x in flat_nodes(b)] for b in v]
    return out


def annotate(m, start=0):
    """number the node mirrors of an original tree in pre-order ('_o'); returns next index"""
    m['_o'] = start
    nxt = start + 1
    for sl, kind in slots_of(m):
        v = m['f'].get(sl) or []
        groups = [v] if kind == 'F' else v
        for g in groups:
            for c in g:
                nxt = annotate(c, nxt)
    return nxt


def _shallow(m):
    out = {k: v for k, v in m.items() if k != 'f'}
    out['f'] = dict(m['f'])
    return out


def _handle(m):
    h = copy.deepcopy(m)

    def unmark(x):
        if is_mnode(x):
            x.pop('_o', None)
            for v in x['f'].values():
                unmark(v)
        elif isinstance(x, list):
            for y in x:
                unmark(y)
    unmark(h)
    h['_h'] = True
    return h


class Mapping:
    """
    singles : {canon(key): None | ('node', mirror) | ('tuple', ['self' | mirror, ...]) | ('attrs', mirror)}
    windows : [([canon, ...], [mirror, ...])]
    """

    def __init__(self):
        self.singles = {}
        self.windows = []

    def add_single(self, key_m, handle):
        self.singles[canon(key_m)] = handle

    def add_window(self, key_ms, handle_ms):
        self.windows.append(([canon(k) for k in key_ms], list(handle_ms)))


# --------------------------------------------------------------------------
# Transformer
# --------------------------------------------------------------------------

class RefTransformer:
    def __init__(self, mapping):
        self.map = mapping

    def root(self, m):
        """visit of a single root node -> mirror or None"""
        c = canon(m)
        if c in self.map.singles:
            h = self.map.singles[c]
            if h is None:
                return None
            if h[0] in ('node', 'attrs'):
                return _handle(h[1])
            raise ValueError('tuple handle for a node that is not inside a tuple is outside the documented domain')
        return self.rebuild(m)

    def rebuild(self, m):
        out = _shallow(m)
        for sl, kind in slots_of(m):
            v = m['f'].get(sl) or []
            out['f'][sl] = self.seq(v) if kind == 'F' else [self.seq(b) for b in v]
        return out

    def _windows(self, items):
        for wkeys, whandle in self.map.windows:
            n = len(wkeys)
            res, i = [], 0
            while i < len(items):
                if i + n <= len(items) and all(not it.get('_h') and canon(it) == k for it, k in zip(items[i:i + n], wkeys)):
                    res.extend(_handle(h) for h in whandle)
                    i += n
                else:
                    res.append(items[i])
                    i += 1
            items = res
        return items

    def seq(self, items):
        out = []
        for it in self._windows(list(items)):
            if it.get('_h'):
                out.append(it)
                continue
            c = canon(it)
            if c not in self.map.singles:
                out.append(self.rebuild(it))
                continue
            h = self.map.singles[c]
            if h is None:
                continue
            if h[0] in ('node', 'attrs'):
                out.append(_handle(h[1]))
            else:
                for x in h[1]:
                    out.append(self.rebuild(it) if x == 'self' else _handle(x))
        return out


# --------------------------------------------------------------------------
# NestedTransformer (claimed domain only)
# --------------------------------------------------------------------------

class RefNested(RefTransformer):
    def root(self, m):
        r = self.node(m)
        return r

    def node(self, m):
        c = canon(m)
        h = self.map.singles.get(c, 'unmapped')
        if h is None:
            return None
        src = m
        if h != 'unmapped':
            # handle differs from the key only in non-traversable fields: take its fields,
            # keep the key's (rebuilt) children
            src = _handle(h[1])
        out = _shallow(src)
        if h == 'unmapped':
            out['_o'] = m.get('_o')
        for sl, kind in slots_of(m):
            v = m['f'].get(sl) or []
            out['f'][sl] = self.seq(v) if kind == 'F' else [self.seq(b) for b in v]
        return out

    def seq(self, items):
        out = [self.node(it) for it in items]
        out = [x for x in out if x is not None]
        return self._windows(out)


# --------------------------------------------------------------------------
# MaskedTransformer / NestedMaskedTransformer
# --------------------------------------------------------------------------

class RefMasked:
    def __init__(self, start, stop, active=False, require_all_start=False, greedy_stop=False, mapping=None, nested=False):
        self.start = set(start)          # canon strings
        self.stop = set(stop)
        self.active = active
        self.require_all = require_all_start
        self.greedy = greedy_stop
        self.map = mapping or Mapping()
        self.nested = nested
        self.inactive_keys = 0           # mapped nodes met while switched off (outside the claimed domain)
        self.inactive_scoped = 0         # scoped nodes entered while switched off
        self.scoped_seen = 0             # scoped internal nodes visited at all
        self.invalid_elseif = 0          # has_elseif conditionals whose else-if branch did not survive
        self.emptied_bodies = 0          # active select/where construct with a branch body that became empty

    def _update(self, c):
        if self.require_all:
            if c in self.start:
                self.start.discard(c)
                if not self.start:
                    self.active = True
            elif c in self.stop:
                self.active = False
        else:
            if c in self.start:
                self.active = True
            elif c in self.stop:
                self.active = False
        if self.greedy and c in self.stop:
            self.start = set()
            self.active = False

    def run(self, m):
        """returns the list of result mirrors for visiting ``m`` (node mirror or list of them)"""
        if isinstance(m, list):
            return self.seq(m)
        return self.visit(m)

    def seq(self, items):
        out = []
        for it in items:
            out.extend(self.visit(it))
        return out

    def _mapped(self, m, c):
        h = self.map.singles[c]
        if not self.active:
            self.inactive_keys += 1
        if h is None:
            return []
        return [_handle(h[1])]

    def visit(self, m):
        c = canon(m)
        self._update(c)
        if c in self.map.singles:
            return self._mapped(m, c)
        return self.visit_nested(m) if self.nested else self.visit_plain(m)

    def _children(self, m, out):
        flat = []
        for sl, kind in slots_of(m):
            v = m['f'].get(sl) or []
            if kind == 'F':
                r = self.seq(v)
                out['f'][sl] = r
                flat.extend(r)
            else:
                rs = [self.seq(b) for b in v]
                out['f'][sl] = rs
                for r in rs:
                    flat.extend(r)
        return flat

    def visit_plain(self, m):
        if not slots_of(m):
            return [_shallow(m)] if self.active else []
        was = self.active
        if not was and m['k'] in ('Associate', 'TypeDef'):
            self.inactive_scoped += 1
        out = _shallow(m)
        flat = self._children(m, out)
        if was:
            self._check(out)
            return [out]
        return flat

    def _check(self, out):
        if out['k'] == 'Conditional' and out['f'].get('has_elseif'):
            eb = out['f'].get('else_body') or []
            if not (len(eb) == 1 and eb[0]['k'] == 'Conditional'):
                self.invalid_elseif += 1
        if out['k'] in ('MultiConditional', 'MaskedStatement'):
            if any(not b for b in out['f'].get('bodies') or []):
                self.emptied_bodies += 1

    def visit_nested(self, m):
        k = m['k']
        if not slots_of(m):
            return [_shallow(m)] if self.active else []
        if k in LEAF_WITH_BODIES:
            # a LeafNode: included iff active, dropped as a whole otherwise
            if not self.active:
                return []
            out = _shallow(m)
            self._children(m, out)
            self._check(out)
            return [out]
        out = _shallow(m)
        if k == 'Conditional':
            body = self.seq(m['f'].get('body') or [])
            else_body = self.seq(m['f'].get('else_body') or [])
            if not body:
                return else_body
            out['f']['body'] = body
            out['f']['else_body'] = else_body
            out['f']['has_elseif'] = bool(m['f'].get('has_elseif')) and bool(else_body) and else_body[0]['k'] == 'Conditional'
            return [out]
        if k == 'MultiConditional':
            vals = m['f'].get('values') or []
            bodies = [self.seq(b) for b in m['f'].get('bodies') or []]
            else_body = self.seq(m['f'].get('else_body') or [])
            keep = [(v, b) for v, b in zip(vals, bodies) if b]
            if not keep:
                return else_body
            out['f']['values'] = [v for v, _ in keep]
            out['f']['bodies'] = [b for _, b in keep]
            out['f']['else_body'] = else_body
            return [out]
        # generic InternalNode: kept as long as its body is not empty
        if k in ('Associate', 'TypeDef'):
            self.scoped_seen += 1
            if not self.active:
                self.inactive_scoped += 1
        self._children(m, out)
        if not out['f'].get('body'):
            return []
        return [out]


# --------------------------------------------------------------------------
# comparison helpers
# --------------------------------------------------------------------------

def first_difference(exp, act, path='root'):
    """
    locate the first structural difference between two (lists of) mirrors;
    returns (where, nature, detail) or None.  ``where`` names class.slot, never values.
    """
    if isinstance(exp, list) and isinstance(act, list):
        for i, (e, a) in enumerate(zip(exp, act)):
            d = first_difference(e, a, path)
            if d:
                return d
        if len(exp) != len(act):
            nature = 'missing' if len(act) < len(exp) else 'extra'
            return (path, nature, f'expected {len(exp)} entries, got {len(act)}')
        return None
    if is_mnode(exp) and is_mnode(act):
        if exp['k'] != act['k']:
            return (path, 'different-node', f'expected {exp["k"]}, got {act["k"]}')
        for fname in exp['f']:
            e, a = exp['f'][fname], act['f'].get(fname)
            d = first_difference(e, a, f'{exp["k"]}.{fname}')
            if d:
                return d
        return None
    if is_mnode(exp) != is_mnode(act) or isinstance(exp, list) != isinstance(act, list):
        return (path, 'shape', f'expected {type(exp).__name__}, got {type(act).__name__}: {str(act)[:80]}')
    if exp != act:
        return (path, 'value', f'expected {str(exp)[:80]!r}, got {str(act)[:80]!r}')
    return None
