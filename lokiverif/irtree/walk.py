"""
Independent walks over loki IR trees and expression trees (reference side of C14/C15).

Nothing here calls loki's Visitor / Transformer / LokiWalkMapper machinery or reads
``Node.children`` / ``Node._traversable``.  IR nodes are walked through their
*dataclass fields*; expression trees are walked with a per-class table of the data
attributes that hold sub-expressions.

Calibration (DESIGN C15 "soundness"): fields that hold nodes/expressions but are
excluded from traversal *by documented design* are listed explicitly in
``NODE_FIELD_EXCLUDED`` / ``EXPR_FIELD_EXCLUDED`` with the reason.  Every other
node- or expression-valued dataclass field is part of the reference.
"""
import dataclasses
import json

# --------------------------------------------------------------------------
# calibration tables
# --------------------------------------------------------------------------

# node-valued fields that are *attachments*, not children (class docstrings:
# "Only a bespoke context created by pragmas_attached attaches them for convenience",
# "Inline comment that appears in-line after ...", CommentBlock is a LeafNode).
NODE_FIELD_EXCLUDED = {
    'pragma': 'pragma attachments are not children (pragmas_attached docstring)',
    'pragma_post': 'pragma attachments are not children (pragmas_attached docstring)',
    'comment': 'inline comment attachment of a leaf statement',
    'comments': 'CommentBlock is a LeafNode; its comments are not children',
}

# expression-valued fields the finders skip by design (documented as text / declared
# names / backend-only metadata).  (class name or base class name, field)
EXPR_FIELD_EXCLUDED = {
    ('GenericStmt', 'text'): 'GenericStmt.text is documented as the statement text (specifier lists, stop codes)',
    ('CallStatement', 'chevron'): 'CUDA launch configuration, backend-only metadata set by transformations',
    ('Enumeration', 'symbols'): 'declared enumerator names (values live in the symbol type)',
    ('Interface', 'spec'): 'declared generic name',
}

# expression-valued fields which are NOT excluded although loki does not traverse
# them on the pinned tree -> reported as findings (see known_findings.d/C15.txt)
EXPR_FIELD_FINDING = {('PrintStmt', 'values'), ('FormatStmt', 'values')}


def _classes():
    from loki.ir import nodes as ir
    from pymbolic.primitives import Expression
    return ir, Expression


def is_node(x):
    ir, _ = _classes()
    return isinstance(x, ir.Node)


def is_expr(x):
    _, Expression = _classes()
    return isinstance(x, Expression)


def node_fields(node):
    """(name, value) for every dataclass field of an IR node (no Visitor, no ``children``)"""
    for f in dataclasses.fields(node):
        if f.name in ('source', 'symbol_attrs'):
            continue
        yield f.name, getattr(node, f.name)


def _expr_field_excluded(node, fname):
    for cls in type(node).__mro__:
        if (cls.__name__, fname) in EXPR_FIELD_EXCLUDED:
            return True
    return False


def _split_value(v, nodes, exprs):
    """sort a field value into child nodes and expression roots (document order)"""
    if v is None or isinstance(v, (str, bytes, bool, int, float)):
        return
    if is_node(v):
        nodes.append(v)
        return
    if is_expr(v):
        exprs.append(v)
        return
    if isinstance(v, (tuple, list)):
        for x in v:
            _split_value(x, nodes, exprs)
        return
    if isinstance(v, dict):
        for x in v.values():
            _split_value(x, nodes, exprs)
        return
    # ProgramUnit objects, SymbolAttributes, DataType, Source ...: neither node nor expression


# field order = document order.  The dataclass field order of loki nodes is the
# declaration order of the _XBase classes, which is not always the textual order of
# the construct (e.g. Associate declares ``associations`` after ``body`` of Section).
# Pre-order of *nodes* only depends on the relative order of node-bearing fields.
_NODE_FIELD_ORDER = {
    'Conditional': ['body', 'else_body'],
    'MultiConditional': ['bodies', 'else_body'],
    'TypeConditional': ['bodies', 'else_body'],
    'MaskedStatement': ['bodies', 'default'],
}


def child_nodes(node, with_typedef_body=False):
    """direct child nodes of ``node`` in document order, via dataclass fields"""
    ir, _ = _classes()
    if isinstance(node, ir.TypeDef) and not with_typedef_body:
        return []
    vals = dict(node_fields(node))
    order = _NODE_FIELD_ORDER.get(type(node).__name__)
    names = list(order) + [n for n in vals if n not in order] if order else list(vals)
    out = []
    for name in names:
        if name in NODE_FIELD_EXCLUDED or name not in vals:
            continue
        _split_value(vals[name], out, [])
    return out


def own_expression_fields(node):
    """[(field name, expression root)] held directly by ``node`` (not those of child nodes)"""
    ir, _ = _classes()
    if isinstance(node, ir.TypeDef):
        return []
    out = []
    for name, v in node_fields(node):
        if name in NODE_FIELD_EXCLUDED:
            continue
        if _expr_field_excluded(node, name):
            continue
        roots = []
        _split_value(v, [], roots)
        out.extend((name, r) for r in roots)
    if isinstance(node, ir.VariableDeclaration):
        # declaration initialisers live in the symbol's type
        for s in node.symbols:
            t = getattr(s, 'type', None)
            init = getattr(t, 'initial', None) if t is not None else None
            if init is not None and is_expr(init):
                out.append(('symbols.type.initial', init))
    return out


def own_expressions(node):
    return [r for _, r in own_expression_fields(node)]


def preorder(root, with_typedef_body=False):
    """pre-order list of IR nodes below ``root`` (a node or a (nested) tuple of nodes)"""
    out = []

    def rec(x):
        if is_node(x):
            out.append(x)
            for c in child_nodes(x, with_typedef_body):
                rec(c)
        elif isinstance(x, (tuple, list)):
            for y in x:
                rec(y)
    rec(root)
    return out


def preorder_paths(root):
    """pre-order list of (node, ancestors-including-node) not entering TypeDef bodies"""
    out = []

    def rec(x, anc):
        if is_node(x):
            path = anc + [x]
            out.append((x, path))
            for c in child_nodes(x):
                rec(c, path)
        elif isinstance(x, (tuple, list)):
            for y in x:
                rec(y, anc)
    rec(root, [])
    return out


# --------------------------------------------------------------------------
# expression walk
# --------------------------------------------------------------------------

def expr_children(e):
    """direct sub-expressions of one expression node as (role, child) pairs"""
    from loki.expression import symbols as sym
    from loki.expression import operations as op
    from loki.expression import literals as lit
    import pymbolic.primitives as p

    def seq(role, v):
        if v is None:
            return []
        if isinstance(v, (tuple, list)):
            r = []
            for x in v:
                r.extend(seq(role, x))
            return r
        return [(role, v)]

    if isinstance(e, sym.MetaSymbol):            # Scalar, Array: wrapper around symbol / subscript
        return [('symbol', e._symbol)]
    if isinstance(e, (sym.ArraySubscript, sym.StringSubscript)):
        return [('aggregate', e.aggregate)] + seq('index', e.index)
    if isinstance(e, sym.TypedSymbol):           # VariableSymbol, DeferredTypeSymbol, ProcedureSymbol, DerivedTypeSymbol
        return [('parent', e.parent)] if e.parent is not None else []
    if isinstance(e, (lit.IntLiteral, lit.FloatLiteral)):
        return [('kind', e.kind)] if e.kind is not None and is_expr(e.kind) else []
    if isinstance(e, (lit.LogicLiteral, lit.StringLiteral, lit.IntrinsicLiteral)):
        return []
    if isinstance(e, lit.LiteralList):
        return [('elements', x) for x in e.elements if not isinstance(x, str)]
    if isinstance(e, sym.InlineDo):
        return seq('values', e.values) + [('variable', e.variable), ('bounds', e.bounds)]
    if isinstance(e, op.Cast):
        return [('function', e.function)] + seq('parameters', e.parameters) + ([('kind', e.kind)] if e.kind is not None else [])
    if isinstance(e, sym.InlineCall):
        return [('function', e.function)] + seq('parameters', e.parameters) + [('kw_parameters', v) for v in e.kw_parameters.values()]
    if isinstance(e, sym.Range):
        return [('children', c) for c in e.children if c is not None]
    if isinstance(e, (op.Reference, op.Dereference)):
        return [('expression', e.expression)]
    if isinstance(e, (p.Sum, p.Product, p.LogicalAnd, p.LogicalOr, op.StringConcat, p.Min, p.Max)):
        return [('children', c) for c in e.children]
    if isinstance(e, (p.Quotient, p.FloorDiv, p.Remainder)):
        return [('numerator', e.numerator), ('denominator', e.denominator)]
    if isinstance(e, p.Power):
        return [('base', e.base), ('exponent', e.exponent)]
    if isinstance(e, p.Comparison):
        return [('left', e.left), ('right', e.right)]
    if isinstance(e, p.LogicalNot):
        return [('child', e.child)]
    if isinstance(e, p.If):
        return [('condition', e.condition), ('then', e.then), ('else_', e.else_)]
    if isinstance(e, p.Call):
        return [('function', e.function)] + seq('parameters', e.parameters)
    if isinstance(e, p.Variable):
        return []
    raise NotImplementedError(f'lokiverif.irtree.walk: no child table for expression class {type(e).__name__}')


def expr_walk(e, out=None, via=None, info=None):
    """
    all expression-node occurrences (objects) in the tree rooted at ``e``.
    ``info`` (dict id -> 'ParentClass.role') records how each occurrence is reached.
    """
    if out is None:
        out = []
    if not is_expr(e):
        return out
    out.append(e)
    if info is not None and via is not None:
        info.setdefault(id(e), via)
    for role, c in expr_children(e):
        expr_walk(c, out, f'{type(e).__name__}.{role}', info)
    return out


def occurrences(root, pred, info=None, skip_fields=()):
    """
    reference for the expression finders: [(ir node, [matching expression objects])]
    for every node (pre-order, not entering TypeDef) that holds matching occurrences.
    ``info``: dict id(expr) -> ('NodeClass.field', 'ParentExprClass.role' | 'NodeClass.field')
    """
    res = []
    for n in preorder(root):
        found = []
        for fname, r in own_expression_fields(n):
            via = f'{type(n).__name__}.{fname}'
            if via in skip_fields:
                continue
            if info is not None:
                sub = {}
                occ = expr_walk(r, None, via, sub)
                for x in occ:
                    info.setdefault(id(x), (via, sub.get(id(x), via)))
            else:
                occ = expr_walk(r)
            found.extend(x for x in occ if pred(x))
        if found:
            res.append((n, found))
    return res


# --------------------------------------------------------------------------
# plain-data mirror of an IR tree (C14)
# --------------------------------------------------------------------------

def _mval(v, objs):
    if v is None or isinstance(v, (bool, int, str)):
        return v
    if is_node(v):
        return mirror(v, objs)
    if is_expr(v):
        return 'E:' + str(v).lower().replace(' ', '')
    if isinstance(v, (tuple, list)):
        return [_mval(x, objs) for x in v]
    return 'O:' + type(v).__name__


def mirror(node, objs=None):
    """
    ``{'k': class name, 'f': {field: value}}`` with nodes mirrored recursively, tuples
    as lists, expressions as canonical strings.  ``source`` is reported separately under
    '_src' ('none' | status name) and the live object is registered in ``objs``
    (list) under '_id' so that callers can walk result objects and mirrors in lockstep.
    """
    m = {'k': type(node).__name__, 'f': {}}
    for name, v in node_fields(node):
        m['f'][name] = _mval(v, objs)
    src = getattr(node, 'source', None)
    if src is None:
        m['_src'] = 'none'
    else:
        st = getattr(src, 'status', None)
        m['_src'] = getattr(st, 'name', str(st))
    if objs is not None:
        m['_id'] = len(objs)
        objs.append(node)
    return m


def mirror_any(x, objs=None):
    """mirror of a node, None, or an arbitrarily nested tuple of nodes (flattened list)"""
    if x is None:
        return []
    if is_node(x):
        return [mirror(x, objs)]
    if isinstance(x, (tuple, list)):
        out = []
        for y in x:
            out.extend(mirror_any(y, objs))
        return out
    return ['X:' + type(x).__name__]     # foreign object leaked into a node position


HIDDEN = ('_src', '_id', '_o', '_h')


def strip(m):
    """mirror without bookkeeping keys (recursively)"""
    if isinstance(m, dict):
        return {k: strip(v) for k, v in m.items() if k not in HIDDEN}
    if isinstance(m, list):
        return [strip(x) for x in m]
    return m


def canon(m):
    return json.dumps(strip(m), sort_keys=True, separators=(',', ':'))


def is_mnode(x):
    return isinstance(x, dict) and 'k' in x and 'f' in x


def flat_nodes(v):
    """flatten a (possibly nested) list into the node mirrors it contains, keeping order"""
    out = []
    if is_mnode(v):
        out.append(v)
    elif isinstance(v, list):
        for x in v:
            out.extend(flat_nodes(x))
    return out
