"""
Synthetic IR trees for C14 / C15.

A tree is described by plain JSON (``desc``); ``build`` turns a description into real
loki IR nodes.  Every node carries a marker ``m`` that makes it unique (through its
expressions / text / label); two descriptions with the same kind and marker build
*equal* nodes (deliberate duplicates).

Node description::

    {"k": kind, "m": int, <slots>, <optional expression overrides>}

kinds and slots (lists of node descriptions, ``bodies`` = list of lists):
    Section(body) Loop(body) WhileLoop(body) Conditional(body, else_body, elif)
    MultiConditional(bodies, else_body) MaskedStatement(bodies, default)
    Associate(body) PragmaRegion(body) TypeDef(body)
    Assignment CallStatement Comment Pragma VariableDeclaration Allocation PrintStmt

Expression description (nested lists, see ``build_expr``)::

    ["v", name] ["a", name, [dims]] ["mem", parent, name, [dims]|null] ["i", 3, kind|null]
    ["f", "1.5", kind|null] ["l", true] ["s", "txt"] ["+", e, ...] ["*", e, ...] ["neg", e]
    ["/", a, b] ["**", a, b] ["cmp", ">", a, b] ["and", e, ...] ["or", e, ...] ["not", e]
    ["call", name, [args], [[kw, e], ...]] ["cast", "real", e, kind|null]
    ["r", lo|null, hi|null, step|null] ["cat", e, ...] ["list", [e, ...]] ["p+", e, ...]
"""
import copy

from hypothesis import strategies as st

INTERNAL = ('Section', 'Loop', 'WhileLoop', 'Conditional', 'MultiConditional', 'MaskedStatement',
            'Associate', 'PragmaRegion')
LEAVES = ('Assignment', 'CallStatement', 'Comment', 'Pragma')

# node-bearing slots in document order; 'N' = list of lists
SLOTS = {
    'Section': [('body', 'F')], 'Loop': [('body', 'F')], 'WhileLoop': [('body', 'F')],
    'Conditional': [('body', 'F'), ('else_body', 'F')],
    'MultiConditional': [('bodies', 'N'), ('else_body', 'F')],
    'MaskedStatement': [('bodies', 'N'), ('default', 'F')],
    'Associate': [('body', 'F')], 'PragmaRegion': [('body', 'F')], 'TypeDef': [('body', 'F')],
}


# --------------------------------------------------------------------------
# pure functions on descriptions
# --------------------------------------------------------------------------

def desc_children(d):
    """child descriptions in document order"""
    out = []
    for slot, kind in SLOTS.get(d['k'], ()):
        v = d.get(slot) or []
        if kind == 'F':
            out.extend(v)
        else:
            for b in v:
                out.extend(b)
    return out


def index_desc(root):
    """
    pre-order index of a description: list of dicts
    {i, d, parent, slot, sub, pos, depth, elif_child, in_where, size}
    """
    out = []

    def rec(d, parent, slot, sub, pos, depth, in_where, elif_child):
        i = len(out)
        ent = {'i': i, 'd': d, 'parent': parent, 'slot': slot, 'sub': sub, 'pos': pos, 'depth': depth,
               'in_where': in_where, 'elif_child': elif_child, 'kind': d['k']}
        out.append(ent)
        for sl, kind in SLOTS.get(d['k'], ()):
            v = d.get(sl) or []
            groups = [v] if kind == 'F' else v
            for gi, grp in enumerate(groups):
                for p, c in enumerate(grp):
                    rec(c, i, sl, gi if kind == 'N' else None, p, depth + 1,
                        in_where or d['k'] == 'MaskedStatement',
                        d['k'] == 'Conditional' and bool(d.get('elif')) and sl == 'else_body')
        ent['size'] = len(out) - i
        return i
    rec(root, None, None, None, 0, 0, False, False)
    return out


def siblings_after(idx, i):
    """indices of the following siblings of node i (same tuple)"""
    e = idx[i]
    return [x['i'] for x in idx if x['parent'] == e['parent'] and x['slot'] == e['slot']
            and x['sub'] == e['sub'] and x['pos'] > e['pos'] and e['parent'] is not None]


def is_ancestor(idx, a, b):
    """a is a strict ancestor of b"""
    p = idx[b]['parent']
    while p is not None:
        if p == a:
            return True
        p = idx[p]['parent']
    return False


def max_marker(d):
    m = d.get('m', 0)
    for c in desc_children(d):
        m = max(m, max_marker(c))
    return m


# --------------------------------------------------------------------------
# strategies
# --------------------------------------------------------------------------

def _leaf(kinds=LEAVES):
    return st.one_of(
        st.sampled_from(kinds).map(lambda k: {'k': k}),
        st.sampled_from(kinds).map(lambda k: {'k': k}),
        st.sampled_from(kinds).map(lambda k: {'k': k}),
        st.integers(0, 30).map(lambda n: {'dup': n}),
    )


def _where_leaf():
    return st.sampled_from(['Assignment', 'Assignment', 'Comment']).map(lambda k: {'k': k})


def shape_strategy(max_leaves=14, with_typedef=False, kinds=INTERNAL, elif_ok=True):
    """un-numbered tree shapes"""
    def extend(children):
        body = st.lists(children, min_size=0, max_size=4)
        body1 = st.lists(children, min_size=1, max_size=4)
        opts = []
        if 'Section' in kinds:
            opts.append(body.map(lambda b: {'k': 'Section', 'body': b}))
        if 'Loop' in kinds:
            opts.append(st.tuples(body, st.booleans()).map(lambda t: {'k': 'Loop', 'body': t[0], 'pragma': t[1]}))
        if 'WhileLoop' in kinds:
            opts.append(body.map(lambda b: {'k': 'WhileLoop', 'body': b}))
        if 'Conditional' in kinds:
            opts.append(st.tuples(body, body).map(lambda t: {'k': 'Conditional', 'body': t[0], 'else_body': t[1]}))
            if elif_ok:
                opts.append(st.tuples(body1, body, body).map(
                    lambda t: {'k': 'Conditional', 'body': t[0], 'elif': True,
                               'else_body': [{'k': 'Conditional', 'body': t[1], 'else_body': t[2]}]}))
        if 'MultiConditional' in kinds:
            opts.append(st.tuples(st.lists(body, min_size=1, max_size=3), body).map(
                lambda t: {'k': 'MultiConditional', 'bodies': t[0], 'else_body': t[1]}))
        if 'MaskedStatement' in kinds:
            wb = st.lists(_where_leaf(), min_size=1, max_size=3)
            opts.append(st.tuples(st.lists(wb, min_size=1, max_size=2), st.lists(_where_leaf(), max_size=2)).map(
                lambda t: {'k': 'MaskedStatement', 'bodies': t[0], 'default': t[1]}))
        if 'Associate' in kinds:
            opts.append(body.map(lambda b: {'k': 'Associate', 'body': b}))
        if 'PragmaRegion' in kinds:
            opts.append(body.map(lambda b: {'k': 'PragmaRegion', 'body': b}))
        if with_typedef:
            decl = st.sampled_from(['VariableDeclaration', 'VariableDeclaration', 'Comment']).map(lambda k: {'k': k})
            opts.append(st.lists(decl, min_size=1, max_size=3).map(lambda b: {'k': 'TypeDef', 'body': b}))
        return st.one_of(opts)
    leaf_kinds = LEAVES + (('VariableDeclaration',) if with_typedef else ())
    inner = st.recursive(_leaf(leaf_kinds), extend, max_leaves=max_leaves)
    return st.lists(inner, min_size=1, max_size=5).map(lambda b: {'k': 'Section', 'body': b})


def number(shape, subtree_dups=True):
    """assign markers in pre-order, resolve {'dup': n} to a copy of an earlier node"""
    shape = copy.deepcopy(shape)
    counter = [0]
    seen = []      # earlier numbered descriptions

    def rec(d):
        if 'dup' in d:
            pool = [s for s in seen if s['k'] in LEAVES or (subtree_dups and s['k'] in ('Loop', 'Conditional') and 'elif' not in s)]
            if pool:
                return copy.deepcopy(pool[d['dup'] % len(pool)])
            d = {'k': 'Assignment'}
        counter[0] += 1
        d['m'] = counter[0]
        for sl, kind in SLOTS.get(d['k'], ()):
            v = d.get(sl) or []
            if kind == 'F':
                d[sl] = [rec(c) for c in v]
            else:
                d[sl] = [[rec(c) for c in b] for b in v]
        seen.append(d)       # only completed subtrees can be copied
        return d
    return rec(shape)


def restrict_where(d, inside=False):
    """WHERE bodies hold only leaf assignments/comments (copies of subtrees are cut down)"""
    if inside and d['k'] not in ('Assignment', 'Comment'):
        return {'k': 'Assignment', 'm': d['m']}
    for sl, kind in SLOTS.get(d['k'], ()):
        v = d.get(sl) or []
        ins = inside or d['k'] == 'MaskedStatement'
        if kind == 'F':
            d[sl] = [restrict_where(c, ins) for c in v]
        else:
            d[sl] = [[restrict_where(c, ins) for c in b] for b in v]
    return d


def tree_strategy(max_leaves=14, with_typedef=False, kinds=INTERNAL, elif_ok=True, subtree_dups=True):
    return shape_strategy(max_leaves, with_typedef, kinds, elif_ok).map(
        lambda s: restrict_where(number(s, subtree_dups)))


# ---- expression descriptions (C15 synthetic trees) -------------------------

_NAMES = ['a', 'b', 'c', 'x', 'y', 'n', 'K', 'X']


def expr_strategy(max_leaves=6):
    name = st.sampled_from(_NAMES)
    kind = st.one_of(st.none(), st.none(), st.just(['v', 'jprb']), st.just(['i', 8, None]))
    leaf = st.one_of(
        name.map(lambda n: ['v', n]),
        name.map(lambda n: ['v', n]),
        st.tuples(st.integers(0, 9), kind).map(lambda t: ['i', t[0], t[1]]),
        st.tuples(st.sampled_from(['1.0', '0.5', '2.e0']), kind).map(lambda t: ['f', t[0], t[1]]),
        st.booleans().map(lambda b: ['l', b]),
        st.sampled_from(['s1', 'txt']).map(lambda s: ['s', s]),
    )

    def extend(ch):
        lst = st.lists(ch, min_size=1, max_size=3)
        lst2 = st.lists(ch, min_size=2, max_size=3)
        return st.one_of(
            lst2.map(lambda l: ['+'] + l), lst2.map(lambda l: ['*'] + l), lst2.map(lambda l: ['p+'] + l),
            ch.map(lambda e: ['neg', e]),
            st.tuples(ch, ch).map(lambda t: ['/', t[0], t[1]]),
            st.tuples(ch, ch).map(lambda t: ['**', t[0], t[1]]),
            st.tuples(st.sampled_from(['>', '==', '<=']), ch, ch).map(lambda t: ['cmp', t[0], t[1], t[2]]),
            lst2.map(lambda l: ['and'] + l), ch.map(lambda e: ['not', e]),
            st.tuples(st.sampled_from(['arr', 'b', 'a']), lst).map(lambda t: ['a', t[0], t[1]]),
            st.tuples(st.sampled_from(['arr', 'b']), st.tuples(st.one_of(st.none(), ch), st.one_of(st.none(), ch),
                                                               st.one_of(st.none(), st.none(), ch))).map(
                lambda t: ['a', t[0], [['r', t[1][0], t[1][1], t[1][2]]]]),
            st.tuples(st.sampled_from([['v', 'd'], ['mem', ['v', 'd'], 'b', None], ['a', 'darr', [['v', 'n']]]]),
                      st.sampled_from(['c', 'x', 'k']), st.one_of(st.none(), lst)).map(
                lambda t: ['mem', t[0], t[1], t[2]]),
            st.tuples(st.sampled_from(['f', 'max', 'g']), st.lists(ch, max_size=2),
                      st.lists(st.tuples(st.sampled_from(['k', 'kw', 'opt']), ch), max_size=2, unique_by=lambda p: p[0])).map(
                lambda t: ['call', t[0], t[1], [list(p) for p in t[2]]]),
            st.tuples(st.sampled_from(['real', 'int']), ch, st.one_of(st.none(), name.map(lambda n: ['v', n]))).map(
                lambda t: ['cast', t[0], t[1], t[2]]),
            lst2.map(lambda l: ['list', l]),
        )
    return st.recursive(leaf, extend, max_leaves=max_leaves)


def decorate_with_exprs(tree_st, expr_st):
    """attach generated expressions to the expression-bearing fields of a numbered tree"""
    @st.composite
    def deco(draw):
        tree = draw(tree_st)

        def rec(d):
            k = d['k']
            e = lambda: draw(expr_st)   # noqa
            if k == 'Assignment':
                d['rhs'] = e()
                if draw(st.booleans()):
                    d['lhs'] = draw(st.sampled_from([['a', 'arr', [['v', 'n']]], ['mem', ['v', 'd'], 'c', [['v', 'K']]], ['v', 'x']]))
            elif k == 'CallStatement':
                d['args'] = draw(st.lists(expr_st, max_size=2))
                d['kwargs'] = [['kw%d' % i, x] for i, x in enumerate(draw(st.lists(expr_st, max_size=2)))]
            elif k in ('Conditional', 'WhileLoop'):
                d['cond'] = e()
            elif k == 'Loop':
                d['bounds'] = [e(), e(), draw(st.one_of(st.none(), expr_st))]
            elif k == 'MultiConditional':
                d['expr'] = e()
            elif k == 'MaskedStatement':
                d['conds'] = [e() for _ in d['bodies']]
            elif k == 'Associate':
                d['assoc'] = [[e(), 'as%d_%d' % (d['m'], i)] for i in range(draw(st.integers(1, 2)))]
            elif k == 'VariableDeclaration':
                d['init'] = draw(st.one_of(st.none(), expr_st))
                d['dims'] = draw(st.one_of(st.none(), st.lists(expr_st, min_size=1, max_size=2)))
            for c in desc_children(d):
                rec(c)
        rec(tree)
        return tree
    return deco()


# --------------------------------------------------------------------------
# builder
# --------------------------------------------------------------------------

class Builder:
    """description -> loki IR nodes.  ``nodes[i]`` = node built for pre-order index i of the last ``build`` call"""

    def __init__(self, with_source=False, shared_dups=False):
        from loki import Scope
        self.scope = Scope()
        self.with_source = with_source
        self.shared_dups = shared_dups
        self.nodes = []
        self._shared = {}
        self._pending = [[]]     # stack of lists: nearest nested scoped nodes awaiting their parent

    # ---- expressions ------------------------------------------------------
    def var(self, name, dims=None, parent=None):
        from loki.expression import symbols as sym
        from loki.types import BasicType, SymbolAttributes
        kw = {}
        if parent is not None:
            kw['parent'] = parent
            name = f'{parent.name}%{name}'
        if dims:
            return sym.Variable(name=name, type=SymbolAttributes(BasicType.REAL, shape=tuple(sym.RangeIndex((None, None)) for _ in dims)),
                                dimensions=tuple(dims), **kw)
        return sym.Variable(name=name, type=SymbolAttributes(BasicType.INTEGER), **kw)

    def expr(self, e):
        from loki.expression import symbols as sym
        from loki.expression import operations as op
        from loki.types import BasicType, SymbolAttributes, ProcedureType
        if e is None:
            return None
        t = e[0]
        X = self.expr
        if t == 'v':
            return self.var(e[1])
        if t == 'a':
            return self.var(e[1], dims=[X(d) for d in e[2]])
        if t == 'mem':
            return self.var(e[2], dims=[X(d) for d in e[3]] if e[3] else None, parent=X(e[1]))
        if t == 'i':
            return sym.IntLiteral(e[1], kind=X(e[2])) if e[2] is not None else sym.IntLiteral(e[1])
        if t == 'f':
            return sym.FloatLiteral(e[1], kind=X(e[2])) if e[2] is not None else sym.FloatLiteral(e[1])
        if t == 'l':
            return sym.LogicLiteral(bool(e[1]))
        if t == 's':
            return sym.StringLiteral(e[1])
        if t == '+':
            return sym.Sum(tuple(X(c) for c in e[1:]))
        if t == 'p+':
            return op.ParenthesisedAdd(tuple(X(c) for c in e[1:]))
        if t == '*':
            return sym.Product(tuple(X(c) for c in e[1:]))
        if t == 'neg':
            return sym.Product((-1, X(e[1])))
        if t == '/':
            return sym.Quotient(X(e[1]), X(e[2]))
        if t == '**':
            return sym.Power(X(e[1]), X(e[2]))
        if t == 'cmp':
            return sym.Comparison(X(e[2]), e[1], X(e[3]))
        if t == 'and':
            return sym.LogicalAnd(tuple(X(c) for c in e[1:]))
        if t == 'or':
            return sym.LogicalOr(tuple(X(c) for c in e[1:]))
        if t == 'not':
            return sym.LogicalNot(X(e[1]))
        if t == 'call':
            fn = sym.ProcedureSymbol(e[1], type=SymbolAttributes(ProcedureType(name=e[1], is_function=True, return_type=SymbolAttributes(BasicType.REAL))))
            return sym.InlineCall(fn, parameters=tuple(X(c) for c in e[2]),
                                  kw_parameters={k: X(v) for k, v in e[3]})
        if t == 'cast':
            return sym.Cast(e[1], X(e[2]), kind=X(e[3]))
        if t == 'r':
            return sym.RangeIndex((X(e[1]), X(e[2]), X(e[3])))
        if t == 'lr':
            return sym.LoopRange((X(e[1]), X(e[2]), X(e[3])))
        if t == 'cat':
            return sym.StringConcat(tuple(X(c) for c in e[1:]))
        if t == 'list':
            return sym.LiteralList(tuple(X(c) for c in e[1]))
        raise ValueError(f'unknown expression description {e!r}')

    # ---- nodes --------------------------------------------------------------
    def _src(self, m):
        if not self.with_source:
            return None
        from loki.frontend.source import Source
        return Source(lines=(m, m), string=f'! source of node {m}')

    def build(self, d, register=True):
        """
        build the tree for description ``d``; fills ``self.nodes`` in pre-order when ``register``.
        Nodes built with ``register=False`` (replacement handles) never carry a source object.
        """
        if register:
            self.nodes = []
        saved = self.with_source
        if not register:
            self.with_source = False
        try:
            return self._node(d, register)
        finally:
            self.with_source = saved

    def _seq(self, descs, register):
        return tuple(self._node(c, register) for c in descs)

    def _node(self, d, register):
        from loki.ir import nodes as ir
        from loki.expression import symbols as sym
        from loki.types import BasicType, SymbolAttributes
        k, m = d['k'], d['m']
        slot = len(self.nodes)
        if register:
            self.nodes.append(None)
        X = self.expr
        src = self._src(m)
        if k == 'Assignment':
            n = ir.Assignment(lhs=X(d['lhs']) if d.get('lhs') else self.var(f'v{m}'),
                              rhs=X(d['rhs']) if d.get('rhs') else sym.IntLiteral(m), source=src, label=d.get('label'))
        elif k == 'CallStatement':
            from loki.types import ProcedureType
            name = sym.ProcedureSymbol(f'p{m}', type=SymbolAttributes(ProcedureType(name=f'p{m}', is_function=False)))
            args = tuple(X(a) for a in d['args']) if 'args' in d else (self.var(f'v{m}'),)
            kwargs = tuple((kw, X(v)) for kw, v in d['kwargs']) if 'kwargs' in d else (('k', sym.IntLiteral(m)),)
            n = ir.CallStatement(name=name, arguments=args, kwarguments=kwargs, source=src, label=d.get('label'))
        elif k == 'Comment':
            n = ir.Comment(text=d.get('text', f'! c{m}'), source=src, label=d.get('label'))
        elif k == 'Pragma':
            n = ir.Pragma(keyword='loki', content=d.get('text', f'm{m}'), source=src, label=d.get('label'))
        elif k == 'VariableDeclaration':
            init = X(d.get('init'))
            dims = tuple(X(x) for x in d['dims']) if d.get('dims') else None
            v = sym.Variable(name=f'd{m}', type=SymbolAttributes(BasicType.INTEGER, initial=init))
            n = ir.VariableDeclaration(symbols=(v,), dimensions=dims, source=src)
        elif k == 'Allocation':
            n = ir.Allocation(variables=tuple(X(x) for x in d['vars']), data_source=X(d.get('data_source')), source=src)
        elif k == 'PrintStmt':
            n = ir.PrintStmt(values=('*',) + tuple(X(x) for x in d['values']), source=src)
        elif k == 'Section':
            n = ir.Section(body=self._seq(d.get('body', []), register), source=src, label=d.get('label', f'S{m}'))
        elif k == 'Loop':
            b = d.get('bounds')
            bounds = sym.LoopRange((X(b[0]), X(b[1]), X(b[2]))) if b else sym.LoopRange((sym.IntLiteral(1), self.var(f'n{m}')))
            pragma = (ir.Pragma(keyword='loki', content=f'm{d.get("pragma_m", m)}'),) if d.get('pragma') else None
            n = ir.Loop(variable=self.var(f'i{m}'), bounds=bounds, body=self._seq(d.get('body', []), register),
                        pragma=pragma, source=src, label=d.get('label'), name=d.get('name'))
        elif k == 'WhileLoop':
            cond = X(d['cond']) if d.get('cond') else sym.Comparison(self.var(f'w{m}'), '>', sym.IntLiteral(0))
            n = ir.WhileLoop(condition=cond, body=self._seq(d.get('body', []), register), source=src, label=d.get('label'),
                             name=d.get('name'))
        elif k == 'Conditional':
            cond = X(d['cond']) if d.get('cond') else sym.Comparison(self.var(f'c{m}'), '>', sym.IntLiteral(0))
            body = self._seq(d.get('body', []), register)
            else_body = self._seq(d.get('else_body', []), register)
            n = ir.Conditional(condition=cond, body=body, else_body=else_body, has_elseif=bool(d.get('elif')),
                               source=src, label=d.get('label'), name=d.get('name'))
        elif k == 'MultiConditional':
            bodies = tuple(self._seq(b, register) for b in d.get('bodies', []))
            values = tuple((sym.IntLiteral(10 * j + 1), sym.IntLiteral(10 * j + 2)) if j % 2 else (sym.IntLiteral(10 * j + 1),)
                           for j in range(len(bodies)))
            n = ir.MultiConditional(expr=X(d['expr']) if d.get('expr') else self.var(f's{m}'), values=values, bodies=bodies,
                                    else_body=self._seq(d.get('else_body', []), register), source=src, label=d.get('label'),
                                    name=d.get('name'))
        elif k == 'MaskedStatement':
            bodies = tuple(self._seq(b, register) for b in d.get('bodies', []))
            conds = tuple(X(c) for c in d['conds']) if d.get('conds') else tuple(
                sym.Comparison(self.var(f'q{m}_{j}'), '>', sym.IntLiteral(0)) for j in range(len(bodies)))
            n = ir.MaskedStatement(conditions=conds, bodies=bodies, default=self._seq(d.get('default', []), register),
                                   source=src, label=d.get('label'))
        elif k == 'Associate':
            if d.get('assoc'):
                assoc = tuple((X(e), self.var(nm)) for e, nm in d['assoc'])
            else:
                assoc = ((self.var(f'x{m}'), self.var(f'y{m}')),)
            self._pending.append([])
            body = self._seq(d.get('body', []), register)
            nested = self._pending.pop()
            n = ir.Associate(associations=assoc, body=body, parent=self.scope, source=src, label=d.get('label'))
            for c in nested:
                c._reset_parent(n)
            self._pending[-1].append(n)
        elif k == 'PragmaRegion':
            n = ir.PragmaRegion(body=self._seq(d.get('body', []), register),
                                pragma=ir.Pragma(keyword='loki', content=f'm{d.get("pragma_m", m)}'),
                                pragma_post=ir.Pragma(keyword='loki', content=f'end m{m}'), source=src, label=d.get('label'))
        elif k == 'TypeDef':
            n = ir.TypeDef(name=f't{m}', body=self._seq(d.get('body', []), register), parent=self.scope, source=src)
        else:
            raise ValueError(f'unknown node kind {k}')
        if self.shared_dups and k in LEAVES:
            import json as _json
            key = _json.dumps(d, sort_keys=True)
            n = self._shared.setdefault(key, n)
        if register:
            self.nodes[slot] = n
        return n
