"""
Small local generator of Fortran module/routine *text* for C15 (finders on parsed IR).

The generated module has two derived types (with bodies, initialisers, nested members) and
one subroutine whose executable statements are drawn from: assignments (array subscripts,
sections, derived-type member chains ``d%b%c(i)``, literals with kinds, intrinsic and
user function calls with keyword arguments, casts, nested parenthesised expressions),
counted loops / do while, if / else if / else, one-line if, select case, where (construct and
statement), call with keyword arguments, associate, allocate / deallocate, print, comments,
pragmas.  Every statement uses one dedicated *witness* variable (declared REAL) that occurs
nowhere else in the executable part, which gives a generator-side ground truth:
``FindVariables`` on the routine body must report every witness.

The case is JSON: {"src": text, "witness": [[statement kind, name], ...]}.
"""
from hypothesis import strategies as st

INT_VARS = ['n', 'm', 'i', 'j', 'k', 'cnt']
REAL_SCALARS = ['x', 'y', 'd%x', 'eps']


@st.composite
def int_expr(draw, depth=0):
    t = draw(st.integers(0, 9 if depth < 2 else 4))
    if t <= 2:
        return draw(st.sampled_from(INT_VARS))
    if t <= 4:
        return draw(st.sampled_from(['1', '2', '3_jpim', '10', 'd%b%k', 'size(a)', 'd%arr(j)%k']))
    a, b = draw(int_expr(depth + 1)), draw(int_expr(depth + 1))
    op = draw(st.sampled_from(['+', '-', '*']))
    if t == 9:
        return f'max({a}, {b})'
    if t == 8:
        return f'({a} {op} {b})'
    return f'{a} {op} {b}'


@st.composite
def idx(draw):
    return draw(st.sampled_from(['i', 'j', 'i + 1', 'n', '1', 'k', 'min(i, n)', 'int(x)']))


@st.composite
def real_expr(draw, depth=0, names=None):
    t = draw(st.integers(0, 15 if depth < 3 else 6))
    if t <= 1:
        return draw(st.sampled_from(REAL_SCALARS))
    if t == 2:
        return draw(st.sampled_from(['1.0', '0.5_jprb', '2.e0', '1.0E-3_JPRB', '3._jprb', '42']))
    if t == 3:
        return f'a({draw(idx())})'
    if t == 4:
        return f'b2({draw(idx())}, {draw(idx())})'
    if t == 5:
        return draw(st.sampled_from(['d%b%c(i)', 'd%arr(j)%c(i + 1)', 'd%b%c(k)', 'D%B%C(I)', 'tmp(i)', 'd%arr(min(j, 5))%c(1)']))
    if t == 6:
        return f'real({draw(int_expr(depth + 1))}, kind=jprb)'
    a = draw(real_expr(depth + 1))
    if t == 7:
        return f'(-{a})'
    if t == 8:
        return f'abs({a})'
    if t == 9:
        return f'sqrt(abs({a}) + 1.0_jprb)'
    b = draw(real_expr(depth + 1))
    if t == 10:
        return f'max({a}, {b}, 0._jprb)'
    if t == 11:
        return f'fext({a}, k={draw(int_expr(depth + 1))}, scale={b})'
    if t == 12:
        return f'({a} + {b}) * {draw(real_expr(depth + 1))}'
    if t == 13:
        return f'{a} / (abs({b}) + 1.)'
    if t == 14:
        return f'{a} ** 2 - {b}'
    return f'{a} {draw(st.sampled_from(["+", "-", "*"]))} {b}'


@st.composite
def logical_expr(draw, depth=0):
    t = draw(st.integers(0, 7 if depth < 2 else 3))
    if t == 0:
        return 'flag'
    if t <= 2:
        op = draw(st.sampled_from(['>', '<', '>=', '.lt.', '==', '/=']))
        return f'{draw(real_expr(2))} {op} {draw(real_expr(2))}'
    if t == 3:
        return f'{draw(int_expr(1))} {draw(st.sampled_from(["==", "<=", ".ge."]))} {draw(int_expr(1))}'
    a, b = draw(logical_expr(depth + 1)), draw(logical_expr(depth + 1))
    if t == 4:
        return f'.not. ({a})'
    if t == 5:
        return f'({a}) .and. ({b})'
    if t == 6:
        return f'({a}) .or. {b}'
    return f'present_opt({draw(st.sampled_from(REAL_SCALARS))}) .and. {a}'


class _Gen:
    def __init__(self, draw):
        self.draw = draw
        self.nw = 0
        self.witness = []

    def w(self, kind):
        self.nw += 1
        name = f'wit{self.nw}'
        self.witness.append([kind, name])
        return name

    def lhs(self):
        return self.draw(st.sampled_from(['x', 'y', 'a(i)', 'a(i + 1)', 'b2(i, j)', 'd%x', 'd%b%c(i)', 'd%arr(j)%c(i)', 'tmp(k)', 'a(:)', 'b2(:, j)', 'a(1:n:2)']))

    def stmts(self, ind, depth, n=None):
        d = self.draw
        n = d(st.integers(1, 4 if depth < 2 else 2)) if n is None else n
        out = []
        for _ in range(n):
            out.extend(self.stmt(ind, depth))
        return out

    def stmt(self, ind, depth):
        d = self.draw
        p = ' ' * ind
        kinds = ['assign', 'assign', 'assign', 'call', 'print', 'comment', 'pragma', 'ifline', 'wherestmt', 'alloc', 'intassign']
        if depth < 3:
            kinds += ['loop', 'loop', 'if', 'if', 'select', 'where', 'associate', 'while']
        k = d(st.sampled_from(kinds))
        if k == 'assign':
            w = self.w('Assignment')
            e = d(real_expr())
            form = d(st.integers(0, 2))
            if form == 0:
                return [f'{p}{self.lhs()} = {e} + {w}']
            if form == 1:
                return [f'{p}{w} = {e}']
            return [f'{p}a(int({w})) = {e}']
        if k == 'intassign':
            w = self.w('Assignment')
            return [f'{p}cnt = {d(int_expr())} + int({w}, kind=jpim)']
        if k == 'call':
            w = self.w('CallStatement')
            args = [d(real_expr(2)) for _ in range(d(st.integers(0, 2)))]
            form = d(st.integers(0, 2))
            kw = [f'opt1={d(real_expr(2))}'] if d(st.booleans()) else []
            if form == 0:
                args.append(w)
            elif form == 1:
                kw.append(f'kwarg={w}')
            else:
                args.append(f'a(int({w}):n)')
            return [f'{p}call ext_sub({", ".join(args + kw)})']
        if k == 'print':
            w = self.w('PrintStmt')
            return [f"{p}print *, 'value', {w}, {d(real_expr(2))}"]
        if k == 'comment':
            return [f'{p}! a comment mentioning x and a(i)']
        if k == 'pragma':
            return [f'{p}!$loki some-pragma vars(x, y)']
        if k == 'ifline':
            w = self.w('Conditional')
            return [f'{p}if ({w} > {d(real_expr(2))}) {self.lhs()} = {d(real_expr(2))}']
        if k == 'wherestmt':
            w = self.w('MaskedStatement')
            return [f'{p}where (a > {w}) a = {d(real_expr(2))}']
        if k == 'alloc':
            w = self.w('Allocation')
            return [f'{p}allocate(work(int({w}) + {d(int_expr(1))}))', f'{p}deallocate(work)']
        if k == 'loop':
            w = self.w('Loop')
            var = d(st.sampled_from(['i', 'j', 'k']))
            step = d(st.sampled_from(['', '', ', 2', ', m']))
            lo = d(st.sampled_from(['1', '2', 'm']))
            return [f'{p}do {var} = {lo}, n + int({w}){step}'] + self.stmts(ind + 2, depth + 1) + [f'{p}end do']
        if k == 'while':
            w = self.w('WhileLoop')
            return [f'{p}do while ({w} > {d(real_expr(2))})'] + self.stmts(ind + 2, depth + 1, 1) + [f'{p}end do']
        if k == 'if':
            w = self.w('Conditional')
            out = [f'{p}if ({d(logical_expr())} .or. {w} > 0.) then'] + self.stmts(ind + 2, depth + 1)
            for _ in range(d(st.integers(0, 2))):
                w2 = self.w('Conditional')
                out += [f'{p}else if ({w2} < {d(real_expr(2))}) then'] + self.stmts(ind + 2, depth + 1, d(st.integers(1, 2)))
            if d(st.booleans()):
                out += [f'{p}else'] + self.stmts(ind + 2, depth + 1, d(st.integers(1, 2)))
            return out + [f'{p}end if']
        if k == 'select':
            w = self.w('MultiConditional')
            out = [f'{p}select case ({d(int_expr(1))} + int({w}))']
            for c in range(d(st.integers(1, 3))):
                sel = d(st.sampled_from([f'{c * 10 + 1}', f'{c * 10 + 1}, {c * 10 + 2}', f'{c * 10 + 1}:{c * 10 + 5}']))
                out += [f'{p}case ({sel})'] + self.stmts(ind + 2, depth + 1, d(st.integers(1, 2)))
            if d(st.booleans()):
                out += [f'{p}case default'] + self.stmts(ind + 2, depth + 1, 1)
            return out + [f'{p}end select']
        if k == 'where':
            w = self.w('MaskedStatement')
            out = [f'{p}where (a > {w} .and. tmp < {d(real_expr(2))})', f'{p}  a = {d(real_expr(2))}']
            if d(st.booleans()):
                w2 = self.w('MaskedStatement')
                out += [f'{p}elsewhere (a < {w2})', f'{p}  a = tmp + {d(real_expr(2))}']
            if d(st.booleans()):
                out += [f'{p}elsewhere', f'{p}  a = 0._jprb']
            return out + [f'{p}end where']
        if k == 'associate':
            w = self.w('Associate')
            tgt = d(st.sampled_from(['d%b', 'd%arr(j)', 'd%b%c', 'a(i)', 'x']))
            use = {'d%b': 'zz%c(i)', 'd%arr(j)': 'zz%c(1)', 'd%b%c': 'zz(i)', 'a(i)': 'zz', 'x': 'zz'}[tgt]
            w3 = self.w('Assignment')
            # (loki's Associate shape derivation only supports sums/products of plain variables as selectors)
            sel = d(st.sampled_from([w, f'{w} + x', f'{w} * y + x']))
            return ([f'{p}associate (zz => {tgt}, zw => {sel})', f'{p}  {use} = zw + {w3}']
                    + self.stmts(ind + 2, depth + 1, 1) + [f'{p}end associate'])
        raise AssertionError(k)


@st.composite
def module_source(draw):
    g = _Gen(draw)
    body = g.stmts(4, 0, draw(st.integers(2, 6)))
    wnames = [n for _, n in g.witness]
    decl_init = draw(st.sampled_from(['k = 2', 'k = 2 + 3', 'k']))
    src = [
        'module c15_mod',
        '  implicit none',
        '  integer, parameter :: jprb = selected_real_kind(13, 300)',
        '  integer, parameter :: jpim = 4',
        '  type t_in',
        '    real(kind=jprb) :: c(10)',
        '    integer :: k = 3',
        '    real(kind=jprb), pointer :: p(:) => null()',
        '  end type t_in',
        '  type t_out',
        '    type(t_in) :: b',
        '    type(t_in) :: arr(5)',
        '    ! a comment inside a type definition',
        '    real(kind=jprb) :: x = 1.0_jprb',
        '  end type t_out',
        'contains',
        '  subroutine c15_routine(n, m, a, b2, x, d, flag' + ''.join(', ' + w for w in wnames) + ')',
        '    integer, intent(in) :: n, m',
        '    real(kind=jprb), intent(inout) :: a(n), b2(n, m)',
        '    real(kind=jprb), intent(inout) :: x',
        '    type(t_out), intent(inout) :: d',
        '    logical, intent(in) :: flag',
        f'    integer :: i, j, {decl_init}',
        '    integer(kind=jpim) :: cnt',
        '    real(kind=jprb), parameter :: eps = 1.0e-3_jprb * 2._jprb',
        '    real(kind=jprb) :: tmp(n), y',
        '    real(kind=jprb), allocatable :: work(:)',
        '    real(kind=jprb), external :: fext',
        '    logical, external :: present_opt',
    ]
    for i in range(0, len(wnames), 6):
        src.append('    real(kind=jprb), intent(inout) :: ' + ', '.join(wnames[i:i + 6]))
    src += ['    cnt = 0', '    y = 0._jprb', '    tmp(:) = 0._jprb']
    src += body
    src += ['  end subroutine c15_routine', 'end module c15_mod', '']
    return {'src': '\n'.join(src), 'witness': g.witness}
