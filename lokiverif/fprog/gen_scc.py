"""
Generator of IFS-style driver/kernel call trees for the single-column (SCC) pipelines (C37) and for temporary hoisting /
stack / pool allocation (C38).

A *model* is plain JSON (``model(profile)`` is the Hypothesis strategy):

    {'ns':      names of the dimension variables (start,end,nlon,nz,jl,jk,nb,b and the kernel-side aliases knlon,knz),
     'kernels': [{'name','module','args':[{'name','shape','type','intent'}],'temps':[{'name','shape','type'}],
                  'rscal':[..],'body':[block,..]}, ..]         # kernels[i] only calls kernels[j], j > i
     'driver':  {'fields':[{'name','shape','type'}], 'bounds_in_loop':bool, 'soff','eoff', 'loops':[[block,..],..]},
     'inputs':  [{'nlon','nz','nb','kflag','seed':[a,b,c]}, ..],
     'feat':    sorted list of feature names that occur (class histogram / non-triviality)}

    block := ['assign', lhs, rhs] | ['do', var, lo, hi, step|None, [block..]] | ['if', cond, [block..], [block..]]
           | ['call', name, [actual..]] | ['comment', text]

Leaves are Fortran text written with the names of 'ns'. ``render(model)`` gives the source files
(parkind1.F90, kmod.F90 [, kmod2.F90], dmod.F90) and ``main_program(model)`` the PROGRAM that fills the fields, calls the
driver once per input vector and prints every field (it never passes through loki).

Layout (the input contract of the SCC transformations, loki/transformations/single_column/tests and temporaries/tests):
  driver(nlon, nz, nb, kflag, fields(nlon[,nz],nb)):   block loop ``do b=1,nb`` around kernel calls with ``f(:,b)`` / ``f(:,:,b)``
      actuals; horizontal bounds ``start``/``end`` are driver locals assigned before or inside the block loop; optional
      driver-level horizontal/vertical loops inside the block loop.
  kernel(start, end, nlon, nz, kl, kflag, arrays):  explicit-shape array dummies (nlon) / (nlon,nz); horizontal loops
      ``do jl=start,end`` (or ``a(start:end)`` array notation), vertical loops ``do jk=..`` in both nestings incl. recurrences
      jk-1 / jk+1 and downward loops, uniform scalars, per-column private scalars (assigned before use in the same
      iteration), IF on uniform flags and on column values, nested kernel calls (top level, under IF, inside a vertical
      loop with the level passed as ``kl``), local temporaries of shapes
          r1 (nlon)  r2 (nlon,nz)  r2z (nlon,0:nz)  r2p (nlon,nz+1)  r2c (nlon,3)  r3 (nlon,nz,2)  v1 (nz)
      and types real(jprb) / real(jprm) / integer(jpim) / logical.

Preconditions of the SCC transformations honoured BY CONSTRUCTION (they are what "single column" means):
  * every statement is column independent: arrays with a horizontal dimension are subscripted with exactly ``jl``
    in that dimension; scalars written inside a horizontal loop are written before they are read in the same iteration and are
    never read after the loop; scalars written outside horizontal loops get uniform values (constants / scalar arguments).
  * no undefined reads: every temporary / INTENT(OUT) dummy is completely defined (all levels, columns start:end) by an
    *init block* before any other use; reads of columns outside start:end never happen.
  * no argument aliasing: the actuals of one call are distinct arrays.
"""
from hypothesis import strategies as st

NAMESETS = [
    dict(start='start', end='end', nlon='nlon', nz='nz', jl='jl', jk='jk', nb='nb', b='b', knlon='klon', knz='klev'),
    dict(start='kidia', end='kfdia', nlon='klon', nz='klev', jl='jl', jk='jk', nb='ngpblks', b='ibl', knlon='nproma', knz='nflevg'),
    dict(start='jstart', end='jend', nlon='nlon', nz='nlev', jl='jrof', jk='jlev', nb='nblks', b='jblk', knlon='kproma', knz='klev'),
]

SHAPES = {'r1': '({nlon})', 'r2': '({nlon}, {nz})', 'r2z': '({nlon}, 0:{nz})', 'r2p': '({nlon}, {nz}+1)',
          'r2c': '({nlon}, 3)', 'r3': '({nlon}, {nz}, 2)', 'v1': '({nz})'}
FTYPE = {'real': 'real(kind=jprb)', 'real4': 'real(kind=jprm)', 'int': 'integer(kind=jpim)', 'log': 'logical'}
LITS = ['0.5', '0.25', '2.0', '1.5', '1.0', '0.125', '3.0', '0.75']


def profile(**kw):
    p = dict(max_kernels=3, max_temps=3, temp_shapes=['r1', 'r1', 'r2', 'r2', 'r2c', 'r2z'], temp_types=['real', 'real', 'real', 'int', 'log'],
             max_blocks=5, vecnotation=True, fullrange=False, carry=True, downward=True, second_module=True, alias=True,
             driver_loops=True, out_args=True, n_inputs=2, call_in_vloop=True, two_block_loops=True, int_fields=True,
             edge_uniform='mixed', driver_bounds_in_section=True, uniform_reassign=True)
    p.update(kw)
    return p


class G:
    """
    draws around hypothesis. With a ``salt`` every integer draw is rotated by a value taken from random.Random(salt): the
    distribution becomes uniform and even Hypothesis' all-minimal first example is a different, feature-rich program for every
    (seed, shard) - on a loaded machine a shard may only get to evaluate a handful of examples. Deterministic in (salt, draws).
    """

    def __init__(self, draw, salt=None):
        import random
        self.draw = draw
        self.rng = random.Random(salt) if salt is not None else None

    def i(self, lo, hi):
        if self.rng is None:
            return self.draw(st.integers(lo, hi))
        n = hi - lo + 1
        return lo + (self.draw(st.integers(0, n - 1)) + self.rng.randrange(n)) % n

    def pick(self, seq):
        seq = list(seq)
        return seq[self.i(0, len(seq) - 1)] if len(seq) > 1 else seq[0]

    def chance(self, pct):
        """True with roughly pct %. Drawn as 'switched off' so that Hypothesis' minimal draws switch features ON."""
        return self.i(0, 99) < pct


def lit(g, typ='real'):
    if typ == 'real4':
        return f'{g.pick(LITS)}_jprm'
    return f'{g.pick(LITS)}_jprb'


# ------------------------------------------------------------------ kernel bodies
class KGen:
    """builds one kernel"""

    def __init__(self, g, prof, ns, idx, callees, feat):
        self.g, self.p, self.ns, self.idx, self.callees, self.feat = g, prof, ns, idx, callees, feat
        self.nlon, self.nz = ns['k_nlon'], ns['k_nz']
        self.jl, self.jk = ns['jl'], ns['jk']
        self.args, self.temps = [], []
        self.vars = {}            # array name -> dict(shape, type, writable)
        self.defd = []            # completely defined arrays (ordered)
        self.rscal = []           # private real scalars
        self.nscal = 0
        self.body = []
        self.calls = []
        self.edge_ok = ns.get('edge_uniform', True)

    # ---- subscripts
    def levels(self, shape, jkctx, write=False):
        """valid second subscripts of an array of this shape in the given vertical context"""
        nz = self.nz
        if shape == 'r2c':
            return ['1', '2', '3']
        out = []
        if jkctx:
            lo, hi = jkctx          # lo in {0,1,2}, hi in {'nz', 'nz-1', 'nz+1'} as offsets: value range [lo, nz+hi]
            jk = self.jk
            minv, maxoff = {'r2': (1, 0), 'r3': (1, 0), 'r2z': (0, 0), 'r2p': (1, 1), 'v1': (1, 0)}[shape]
            if lo >= minv and hi <= maxoff:
                out += [jk, jk, jk]
            if lo - 1 >= minv and hi - 1 <= maxoff:
                out.append(f'{jk} - 1')
            if lo + 1 >= minv and hi + 1 <= maxoff:
                out.append(f'{jk} + 1')
        if not write or not out:
            out += {'r2': ['1', nz, 'kl'], 'r3': ['1', nz], 'r2z': ['0', nz], 'r2p': ['1', f'{nz} + 1'], 'v1': ['1', nz]}[shape]
        return out

    def ref(self, name, jkctx, write=False):
        v = self.vars[name]
        sh = v['shape']
        if sh == 'r1':
            return f'{name}({self.jl})'
        if sh == 'v1':
            return f'{name}({self.g.pick(self.levels(sh, jkctx, write))})'
        lev = self.g.pick(self.levels(sh, jkctx, write))
        if sh == 'r3':
            return f'{name}({self.jl}, {lev}, {self.g.pick(["1", "2"])})'
        return f'{name}({self.jl}, {lev})'

    # ---- expressions
    def readable(self, types):
        return [n for n in self.defd if self.vars[n]['type'] in types]

    def rleaf(self, jkctx, priv):
        g = self.g
        k = g.i(0, 9)
        arrs = self.readable(('real', 'real4'))
        if k <= 5 and arrs:
            return self.ref(g.pick(arrs), jkctx)
        if k == 6 and priv:
            return g.pick(priv)
        if k == 7:
            return 'zc'
        if k == 8 and jkctx:
            return f'real({self.jk}, jprb)'
        if k == 8:
            iarrs = self.readable(('int',))
            if iarrs:
                return f'real({self.ref(g.pick(iarrs), jkctx)}, jprb)'
        return lit(g)

    def rexpr(self, jkctx, priv, depth=2):
        g = self.g
        if depth == 0 or g.i(0, 3) == 0:
            return self.rleaf(jkctx, priv)
        k = g.i(0, 7)
        a = self.rexpr(jkctx, priv, depth - 1)
        if k <= 2:
            return f'{a} + {self.rexpr(jkctx, priv, depth - 1)}'
        if k == 3:
            return f'{a} - ({self.rexpr(jkctx, priv, depth - 1)})'
        if k == 4:
            return f'({a})*{lit(g)}'
        if k == 5:
            return f'max({a}, {self.rleaf(jkctx, priv)})'
        if k == 6:
            return f'min({a}, {lit(g)})'
        return f'abs({a})'

    def iexpr(self, jkctx):
        g = self.g
        terms = [str(g.i(1, 5)), self.jl]
        if jkctx:
            terms.append(self.jk)
        terms += [self.ref(n, jkctx) for n in self.readable(('int',))]
        terms.append('kflag')
        a, b = g.pick(terms), g.pick(terms)
        return f'mod({a} + {b} + 7, {g.i(3, 6)})'

    def lexpr(self, jkctx, priv):
        g = self.g
        k = g.i(0, 4)
        larrs = self.readable(('log',))
        iarrs = self.readable(('int',))
        if k == 0 and larrs:
            return self.ref(g.pick(larrs), jkctx)
        if k == 1 and iarrs:
            return f'{self.ref(g.pick(iarrs), jkctx)} {g.pick(["==", ">", "<="])} {g.i(0, 3)}'
        if k == 2 and jkctx:
            return f'{self.jk} {g.pick([">", "<", "=="])} {g.pick(["1", "2", self.nz])}'
        return f'{self.rleaf(jkctx, priv)} {g.pick([">", "<", ">="])} {g.pick(["0.0", "0.25", "-0.5"])}_jprb'

    def value_for(self, typ, jkctx, priv):
        if typ == 'int':
            return self.iexpr(jkctx)
        if typ == 'log':
            return self.lexpr(jkctx, priv)
        return self.rexpr(jkctx, priv)

    # ---- statements of a horizontal loop body
    def writable(self):
        return [n for n in self.defd if self.vars[n]['writable'] and self.vars[n]['shape'] != 'v1']

    def hstmts(self, jkctx, n, must_write=None):
        """column statements (inside a jl loop)"""
        g = self.g
        out, priv = [], []
        for _ in range(n):
            k = g.i(0, 9)
            ws = self.writable()
            if k <= 1 and len(priv) < 2:
                self.nscal = max(self.nscal, len(priv) + 1)
                nm = f'zs{len(priv) + 1}'
                out.append(['assign', nm, self.rexpr(jkctx, priv)])
                priv.append(nm)
                self.feat.add('private-scalar')
            elif k == 2 and ws:
                tgt = g.pick(ws)
                typ = self.vars[tgt]['type']
                cond = self.lexpr(jkctx, priv)
                th = [['assign', self.ref(tgt, jkctx, True), self.value_for(typ, jkctx, priv)]]
                el = [['assign', self.ref(tgt, jkctx, True), self.value_for(typ, jkctx, priv)]] if g.chance(40) else []
                out.append(['if', cond, th, el])
                self.feat.add('column-if')
            elif ws:
                tgt = g.pick(ws)
                out.append(['assign', self.ref(tgt, jkctx, True), self.value_for(self.vars[tgt]['type'], jkctx, priv)])
        if must_write:
            typ = self.vars[must_write]['type']
            out.append(['assign', self.ref(must_write, jkctx, True), self.value_for(typ, jkctx, priv)])
        return out

    def jkrange(self):
        """(lo text, hi text, step, ctx)"""
        g, nz = self.g, self.nz
        k = g.i(0, 5)
        if k <= 1:
            return '1', nz, None, (1, 0)
        if k == 2:
            self.feat.add('vloop-from-2')
            return '2', nz, None, (2, 0)
        if k == 3:
            self.feat.add('vloop-to-nz-1')
            return '1', f'{nz} - 1', None, (1, -1)
        if k == 4 and self.p['downward']:
            self.feat.add('vloop-downward')
            return f'{nz} - 1', '1', '-1', (1, -1)
        return '1', nz, None, (1, 0)

    def hloop(self, body):
        if not self.edge_ok:
            # first / last statement of a horizontal loop body must reference the horizontal index (see edge_uniform_stmt)
            for pos in (0, -1):
                if body and not _mentions(body[pos], self.jl):
                    s = body[pos]
                    assert s[0] == 'assign' and '(' not in s[1], s
                    body[pos] = ['assign', s[1], f'{s[2]} + pa({self.jl})']
        return ['do', self.jl, self.ns['start'], self.ns['end'], None, body]

    def compute_block(self, must_write=None):
        g = self.g
        k = g.i(0, 5)
        if k <= 1:
            self.feat.add('hloop')
            return [self.hloop(self.hstmts(None, g.i(1, 3), must_write))]
        if k <= 3:
            lo, hi, step, ctx = self.jkrange()
            self.feat.add('vloop(jk-outer)')
            pre = []
            if g.chance(25):
                # uniform statement between the loop headers
                if self.p['uniform_reassign']:
                    pre = [['assign', 'zc', lit(g)]]
                    self.feat.add('uniform-stmt-in-vloop')
                else:
                    self.feat.add('avoided:uniform_scalar_reassigned')
            inner = self.hstmts(ctx, g.i(1, 3), must_write)
            if any('- 1' in str(s) or '+ 1' in str(s) for s in inner):
                self.feat.add('vertical-recurrence')
            return [['do', self.jk, lo, hi, step, pre + [self.hloop(inner)]]]
        if k == 4:
            # horizontal outermost, vertical inside, private accumulator
            lo, hi, step, ctx = self.jkrange()
            self.feat.add('vloop(jl-outer)')
            self.nscal = max(self.nscal, 3)
            inner = [['assign', 'zs3', f'zs3 + {self.rleaf(ctx, [])}']] + self.hstmts(ctx, g.i(0, 2))
            ws = [n for n in self.writable() if self.vars[n]['type'] == 'real']
            tail = []
            tgt = must_write if must_write and self.vars[must_write]['type'] == 'real' else (g.pick(ws) if ws else None)
            if tgt:
                tail = [['assign', self.ref(tgt, None, True), f'zs3*{lit(g)}']]
            blk = [self.hloop([['assign', 'zs3', lit(g)], ['do', self.jk, lo, hi, step, inner]] + tail)]
            if must_write and not (tgt == must_write):
                blk.append(self.hloop(self.hstmts(None, 0, must_write)))
            return blk
        # array notation over the horizontal
        if self.p['vecnotation']:
            ws = [n for n in self.writable() if self.vars[n]['shape'] in ('r1', 'r2') and self.vars[n]['type'] == 'real']
            if must_write and must_write in ws:
                ws = [must_write]
            rs = [n for n in self.readable(('real',)) if self.vars[n]['shape'] == 'r1']
            if ws and not (must_write and must_write not in ws):
                tgt = g.pick(ws)
                self.feat.add('horizontal-array-notation')
                rng = f'{self.ns["start"]}:{self.ns["end"]}'
                src = f'{g.pick(rs)}({rng})*{lit(g)}' if rs else lit(g)
                if self.vars[tgt]['shape'] == 'r1':
                    return [['assign', f'{tgt}({rng})', f'{tgt}({rng}) + {src}']]
                lo, hi, step, ctx = '1', self.nz, None, (1, 0)
                return [['do', self.jk, lo, hi, step, [['assign', f'{tgt}({rng}, {self.jk})', f'{tgt}({rng}, {self.jk})*{lit(g)} + {src}']]]]
        self.feat.add('hloop')
        return [self.hloop(self.hstmts(None, g.i(1, 2), must_write))]

    def init_block(self, name):
        """completely define array ``name`` (all levels, columns start:end)"""
        g = self.g
        v = self.vars[name]
        sh, typ = v['shape'], v['type']
        nz, jl, jk = self.nz, self.jl, self.jk
        rng = f'{self.ns["start"]}:{self.ns["end"]}'
        val = lambda ctx: self.value_for(typ, ctx, [])   # noqa: E731
        const = {'real': lit(g), 'real4': lit(g, 'real4'), 'int': str(g.i(0, 4)), 'log': g.pick(['.true.', '.false.'])}[typ]
        style = g.i(0, 5)
        if self.p['fullrange'] and style == 0:
            self.feat.add('full-range-init')
            blk = [['assign', name if g.chance(50) else f'{name}({", ".join(":" * (1 if sh in ("r1", "v1") else 3 if sh == "r3" else 2))})', const]]
        elif self.p['vecnotation'] and style == 1 and sh in ('r1', 'r2', 'r2z', 'r2p', 'r2c'):
            self.feat.add('horizontal-array-notation')
            if sh == 'r1':
                blk = [['assign', f'{name}({rng})', const]]
            elif g.chance(50):
                blk = [['assign', f'{name}({rng}, :)', const]]
                self.feat.add('array-notation-vertical-colon')
            else:
                lo, hi = {'r2': ('1', nz), 'r2z': ('0', nz), 'r2p': ('1', f'{nz} + 1'), 'r2c': ('1', '3')}[sh]
                lv = jk if sh != 'r2c' else 'jm'
                blk = [['do', lv, lo, hi, None, [['assign', f'{name}({rng}, {lv})', const]]]]
        elif sh == 'r1':
            blk = [self.hloop([['assign', f'{name}({jl})', val(None)]])]
        elif sh == 'v1':
            blk = [['do', jk, '1', nz, None, [['assign', f'{name}({jk})', {'real': f'real({jk}, jprb)*{lit(g)}', 'real4': f'real({jk}, jprm)',
                                                                           'int': f'mod({jk} + kflag, 5)', 'log': f'{jk} > 1'}[typ]]]]]
            self.feat.add('vertical-only-temp')
        elif sh == 'r2c':
            if g.chance(50):
                blk = [['do', 'jm', '1', '3', None, [self.hloop([['assign', f'{name}({jl}, jm)', val(None)]])]]]
            else:
                blk = [self.hloop([['assign', f'{name}({jl}, {m})', val(None)] for m in '123'])]
        else:
            lo, hi, ctx = {'r2': ('1', nz, (1, 0)), 'r3': ('1', nz, (1, 0)), 'r2z': ('0', nz, (0, 0)), 'r2p': ('1', f'{nz} + 1', (1, 1))}[sh]
            if sh == 'r3':
                st_ = [['assign', f'{name}({jl}, {jk}, {m})', val(ctx)] for m in '12']
            else:
                st_ = [['assign', f'{name}({jl}, {jk})', val(ctx)]]
            if g.chance(70):
                blk = [['do', jk, lo, hi, None, [self.hloop(st_)]]]
            else:
                blk = [self.hloop([['do', jk, lo, hi, None, st_]])]
        self.feat.add('init:' + sh)
        return blk

    def define(self, name):
        if name not in self.defd:
            self.defd.append(name)

    # ---- calls
    def call_block(self, callee, level_ctx=None):
        """CALL of a later kernel with distinct actuals; returns (pre-blocks, call) or None"""
        g = self.g
        pre, actuals, used = [], [], set()
        for a in callee['args']:
            cands = [n for n, v in self.vars.items() if v['shape'] == a['shape'] and v['type'] == a['type'] and n not in used]
            if a['intent'] != 'in':
                cands = [n for n in cands if self.vars[n]['writable']]
            if not cands:
                return None
            # prefer local temporaries (keeps them out of demotion, forces hoisting through two levels)
            temps = [n for n in cands if self.vars[n].get('temp')]
            nm = g.pick(temps) if temps and g.chance(60) else g.pick(cands)
            used.add(nm)
            actuals.append((nm, a['intent']))
        for nm, intent in actuals:
            # the callee may read it: must be defined (define a temporary first if necessary)
            if intent != 'out' and nm not in self.defd:
                pre += self.init_block(nm)
                self.define(nm)
            if self.vars[nm].get('temp'):
                self.feat.add('temporary-passed-to-nested-kernel')
        ns = self.ns
        level = level_ctx or g.pick(['1', self.nz, 'kl'])
        args = [ns['start'], ns['end'], self.nlon, self.nz, level, 'kflag'] + [n for n, _ in actuals]
        call = ['call', callee['name'], args]
        return pre, call, actuals

    def add_call(self):
        g = self.g
        callee = g.pick(self.callees)
        style = g.i(0, 3)
        if style == 0 and self.p['call_in_vloop']:
            res = self.call_block(callee, level_ctx=self.jk)
            if res is None:
                return False
            pre, call, actuals = res
            self.body += pre
            # everything passed as OUT must be defined before the loop as well (the callee defines it, but the loop body reads it first)
            for n, intent in actuals:
                if n not in self.defd:
                    self.body += self.init_block(n)
                    self.define(n)
            inner = [self.hloop(self.hstmts((1, 0), g.i(1, 2)))]
            carry = [n for n in self.vars if self.vars[n].get('temp') and self.vars[n]['shape'] == 'r1' and self.vars[n]['type'] == 'real'
                     and n not in [a for a, _ in actuals]]
            if self.p['carry'] and carry and g.chance(50):
                # a level-to-level carry in a rank-1 temporary inside the loop that contains the call
                t = g.pick(carry)
                ws = [n for n in self.writable() if self.vars[n]['shape'] == 'r2' and self.vars[n]['type'] == 'real']
                if ws:
                    if t not in self.defd:
                        self.body += self.init_block(t)
                        self.define(t)
                    w = g.pick(ws)
                    jl, jk = self.jl, self.jk
                    inner = [self.hloop([['assign', f'{w}({jl}, {jk})', f'{w}({jl}, {jk}) + {t}({jl})*{lit(g)}'],
                                         ['assign', f'{t}({jl})', f'{w}({jl}, {jk})*{lit(g)}']])]
                    self.feat.add('carry-over-levels-in-loop-with-call')
            tail = [self.hloop(self.hstmts((1, 0), 1))] if g.chance(40) else []
            self.body.append(['do', self.jk, '1', self.nz, None, inner + [call] + tail])
            self.feat.add('call-inside-vertical-loop')
        else:
            res = self.call_block(callee)
            if res is None:
                return False
            pre, call, actuals = res
            self.body += pre
            if style == 1:
                # under a uniform condition: OUT actuals are not defined afterwards unless they were before
                for n, intent in actuals:
                    if n not in self.defd:
                        self.body += self.init_block(n)
                        self.define(n)
                self.body.append(['if', f'kflag {g.pick([">", "<", "=="])} {g.i(0, 2)}', [call], []])
                self.feat.add('call-under-if')
            else:
                self.body.append(call)
                self.feat.add('call-top-level')
        for n, intent in actuals:
            self.define(n)
        self.calls.append(callee['name'])
        return True

    # ---- whole kernel
    def build(self, name, module):
        g, p = self.g, self.p
        # dummies
        nargs = g.i(2, 4)
        kinds = ['r1', 'r2'] + [g.pick(['r1', 'r2', 'r2']) for _ in range(nargs - 2)]
        for j, sh in enumerate(kinds):
            typ = 'int' if (p['int_fields'] and sh == 'r1' and j >= 2 and g.chance(30)) else 'real'
            intent = 'inout' if j < 2 else g.pick(['in', 'inout'] + (['out'] if p['out_args'] else []))
            nm = f'p{"i" if typ == "int" else ""}{chr(97 + j)}'
            self.args.append(dict(name=nm, shape=sh, type=typ, intent=intent))
            self.vars[nm] = dict(shape=sh, type=typ, writable=intent != 'in')
            if intent != 'out':
                self.define(nm)
            else:
                self.feat.add('intent-out-dummy')
        ntemps = g.i(1, p['max_temps'])
        for j in range(ntemps):
            sh = g.pick(p['temp_shapes'])
            typ = g.pick(p['temp_types'])
            if sh in ('v1', 'r3') and typ == 'log':
                typ = 'real'
            nm = f'z{"i" if typ == "int" else "l" if typ == "log" else ""}t{j + 1}'
            self.temps.append(dict(name=nm, shape=sh, type=typ))
            self.vars[nm] = dict(shape=sh, type=typ, writable=True, temp=True)
            self.feat.add(f'temp:{sh}')
            self.feat.add(f'temp-type:{typ}')
        self.body.append(['assign', 'zc', lit(g)])
        nblocks = g.i(2, p['max_blocks'])
        calls_wanted = 1 if self.callees else 0
        for b in range(nblocks):
            undefined = [n for n in self.vars if n not in self.defd]
            k = g.i(0, 9)
            if undefined and k <= 4:
                nm = g.pick(undefined)
                self.body += self.init_block(nm)
                self.define(nm)
            elif self.callees and (k == 5 or (calls_wanted and b == nblocks - 1)):
                if self.add_call():
                    calls_wanted = 0
            elif k == 6 and not p['uniform_reassign']:
                self.feat.add('avoided:uniform_scalar_reassigned')
            elif k == 6:
                self.body.append(['assign', 'zc', lit(g)])
                self.feat.add('uniform-scalar-reassigned')
            elif k == 7:
                blk = self.compute_block()
                els = self.compute_block() if g.chance(40) else []
                self.body.append(['if', f'kflag {g.pick([">", "<", "=="])} {g.i(0, 2)}', blk, els])
                self.feat.add('uniform-if-around-loops')
            else:
                self.body += self.compute_block()
        if calls_wanted:
            self.add_call()
        # all INTENT(OUT) dummies must be defined on return
        for a in self.args:
            if a['name'] not in self.defd:
                self.body += self.init_block(a['name'])
                self.define(a['name'])
        # the temporaries must reach the output: final block writes the first dummies from everything defined
        outs = [a['name'] for a in self.args if a['intent'] != 'in' and a['type'] == 'real'][:2]
        for o in outs:
            self.body += self.compute_block(must_write=o) if g.chance(50) else [self.hloop(self.hstmts(None, 0, o))]
        return dict(name=name, module=module, args=self.args, temps=self.temps, nscal=max(self.nscal, 3), body=self.body,
                    calls=self.calls)


# ------------------------------------------------------------------ driver
def gen_driver(g, prof, ns, kernels, feat):
    """fields and block loops"""
    nlon, nz, b = ns['nlon'], ns['nz'], ns['b']
    # number of fields per (shape, type): enough for the widest call, plus one
    need = {}
    for k in kernels:
        cnt = {}
        for a in k['args']:
            cnt[(a['shape'], a['type'])] = cnt.get((a['shape'], a['type']), 0) + 1
        for key, c in cnt.items():
            need[key] = max(need.get(key, 0), c)
    fields = []
    for (sh, typ), c in sorted(need.items()):
        for j in range(c + (1 if (sh, typ) in (('r1', 'real'), ('r2', 'real')) else 0)):
            fields.append(dict(name=f'f{"i" if typ == "int" else ""}{"a" if sh == "r1" else "q"}{j + 1}', shape=sh, type=typ))

    def actual(f):
        return f'{f["name"]}(:, {b})' if f['shape'] == 'r1' else f'{f["name"]}(:, :, {b})'

    def call_of(k):
        used, acts = set(), []
        for a in k['args']:
            cands = [f for f in fields if f['shape'] == a['shape'] and f['type'] == a['type'] and f['name'] not in used]
            f = g.pick(cands)
            used.add(f['name'])
            acts.append(actual(f))
        level = g.pick(['1', nz])
        return ['call', k['name'], [ns['start'], ns['end'], nlon, nz, level, 'kflag'] + acts]

    called_by_kernel = {c for k in kernels for c in k['calls']}
    roots = [k for k in kernels if k['name'] not in called_by_kernel]
    nloops = 2 if (prof['two_block_loops'] and g.chance(25)) else 1
    loops = [[] for _ in range(nloops)]
    todo = list(roots)
    extra = [k for k in kernels if k not in roots and g.chance(25)]
    jl, jk = ns['jl'], ns['jk']
    rq = [f for f in fields if f['shape'] == 'r2' and f['type'] == 'real']
    ra = [f for f in fields if f['shape'] == 'r1' and f['type'] == 'real']

    def driver_vector_block():
        q, a = g.pick(rq), g.pick(ra)
        feat.add('driver-level-vector-loops')
        k = g.i(0, 2)
        if k == 0:
            return ['do', jl, ns['start'], ns['end'], None,
                    [['assign', f'{a["name"]}({jl}, {b})', f'{a["name"]}({jl}, {b})*{lit(g)} + {q["name"]}({jl}, {g.pick(["1", nz])}, {b})']]]
        if k == 1:
            return ['do', jk, '2', nz, None, [['do', jl, ns['start'], ns['end'], None,
                    [['assign', f'{q["name"]}({jl}, {jk}, {b})', f'{q["name"]}({jl}, {jk} - 1, {b})*{lit(g)} + {a["name"]}({jl}, {b})']]]]]
        return ['do', jk, '1', nz, None, [['do', jl, ns['start'], ns['end'], None,
                [['assign', f'{q["name"]}({jl}, {jk}, {b})', f'max({q["name"]}({jl}, {jk}, {b}), {lit(g)})']]]]]

    for k in todo + extra:
        lp = loops[g.i(0, nloops - 1)] if nloops > 1 else loops[0]
        if prof['driver_loops'] and g.chance(20):
            lp.append(driver_vector_block())
        c = call_of(k)
        if g.chance(15):
            lp.append(['if', f'kflag {g.pick([">", "<"])} {g.i(0, 2)}', [c], []])
            feat.add('driver-call-under-if')
        else:
            lp.append(c)
        if g.chance(15):
            lp.append(call_of(k))
            feat.add('kernel-called-twice-from-driver')
    for lp in loops:
        if not any(s[0] in ('call', 'if') for s in lp):
            lp.append(call_of(g.pick(roots)))
    if prof['driver_loops'] and g.chance(15):
        loops[-1].append(driver_vector_block())
    if nloops > 1:
        feat.add('two-block-loops')
    bounds_in_loop = g.chance(40)
    if bounds_in_loop and not prof['driver_bounds_in_section'] and any(_vector_block_before_call(lp, jl) for lp in loops):
        bounds_in_loop = False
        feat.add('avoided:driver_bounds_in_section')
    if bounds_in_loop:
        feat.add('bounds-assigned-inside-block-loop')
    return dict(fields=fields, loops=loops, bounds_in_loop=bounds_in_loop, soff=g.i(0, 1), eoff=g.i(0, 1))


@st.composite
def model(draw, prof=None, salt=None):
    prof = prof or profile()
    g = G(draw, salt)
    feat = set()
    ns = dict(NAMESETS[g.i(0, len(NAMESETS) - 1)])
    alias = prof['alias'] and g.chance(35)
    ns['k_nlon'] = ns['knlon'] if alias else ns['nlon']
    ns['k_nz'] = ns['knz'] if alias else ns['nz']
    ns['alias'] = alias
    if alias:
        feat.add('kernel-size-aliases')
    ns['edge_uniform'] = g.chance(50) if prof['edge_uniform'] == 'mixed' else bool(prof['edge_uniform'])
    nk = min(prof['max_kernels'], g.pick([1, 2, 2, 3, 3, 4]))
    two_mod = prof['second_module'] and nk > 1 and g.chance(30)
    kernels = []
    for idx in range(nk, 0, -1):
        callees = [k for k in kernels] if kernels and (idx == 1 or g.chance(70)) else []
        module = 'kmod2' if (two_mod and idx == nk) else 'kmod'
        kernels.insert(0, KGen(g, prof, ns, idx, callees, feat).build(f'kern{idx}', module))
    if two_mod:
        feat.add('callee-in-second-module')
    driver = gen_driver(g, prof, ns, kernels, feat)
    inputs = []
    for _ in range(prof['n_inputs']):
        inputs.append(dict(nlon=g.i(3, 6), nz=g.i(2, 5), nb=g.i(1, 3), kflag=g.i(0, 2), seed=[g.i(1, 9), g.i(1, 9), g.i(0, 9)]))
    feat.add(f'kernels={nk}')
    return dict(ns=ns, kernels=kernels, driver=driver, inputs=inputs, feat=sorted(feat))


def _vector_block_before_call(lp, jl):
    for s in lp:
        if s[0] == 'call' or (s[0] == 'if' and 'call' in str(s)):
            return False
        if s[0] == 'do' and _mentions(s, jl):
            return True
    return False


def driver_bounds_in_section(m):
    """True if the horizontal bounds are assigned inside a block loop and a driver-level horizontal loop follows before the first call"""
    d = m['driver']
    return bool(d['bounds_in_loop']) and any(_vector_block_before_call(lp, m['ns']['jl']) for lp in d['loops'])


def uniform_scalar_reassigned(m):
    """True if some kernel assigns its uniform scalar zc more than once"""
    def count(blocks):
        n = 0
        for s in blocks:
            if s[0] == 'assign' and s[1] == 'zc':
                n += 1
            elif s[0] == 'do':
                n += count(s[5])
            elif s[0] == 'if':
                n += count(s[2]) + count(s[3])
        return n
    return any(count(k['body']) > 1 for k in m['kernels'])


def rawstack_kind_only_in_callee(m):
    """
    True if some kernel may call (directly) a kernel whose call tree has a horizontal temporary of a type/kind for which the caller
    is not guaranteed to have a stack temporary of its own (conservative: a caller temporary only counts when it is used and
    cannot be demoted or removed by a preceding SCC stage, i.e. has a non-constant second dimension)
    """
    ks = {k['name']: k for k in m['kernels']}

    def possible(k, seen=()):
        out = {t['type'] for t in k['temps'] if t['shape'] != 'v1'}
        for c in k['calls']:
            if c not in seen:
                out |= possible(ks[c], seen + (k['name'],))
        return out

    for k in m['kernels']:
        body = str(k['body'])
        own = {t['type'] for t in k['temps'] if t['shape'] in ('r2', 'r2z', 'r2p', 'r3') and _mentions(body, t['name'])}
        for c in k['calls']:
            if not possible(ks[c]) <= own:
                return True
    return False


def temp_section_over_levels(m):
    """
    True if some kernel assigns a temporary as ``t(start:end, :)`` (init block in array notation with a colon in the second
    dimension): a section that is not contiguous in memory unless start:end is the whole first dimension
    """
    import re
    rng = re.escape(f'{m["ns"]["start"]}:{m["ns"]["end"]}, :')
    return any(re.search(rf'\b{re.escape(t["name"])}\({rng}', str(k['body'])) for k in m['kernels'] for t in k['temps'])


def _mentions(stmt, name):
    import re
    return re.search(rf'\b{name}\b', str(stmt)) is not None


def edge_uniform_stmt(m):
    """True if some horizontal loop body starts or ends with a statement that does not reference the horizontal index"""
    jl = m['ns']['jl']

    def walk(blocks):
        for s in blocks:
            if s[0] == 'do':
                if s[1] == jl and s[5] and not (_mentions(s[5][0], jl) and _mentions(s[5][-1], jl)):
                    return True
                if walk(s[5]):
                    return True
            elif s[0] == 'if' and (walk(s[2]) or walk(s[3])):
                return True
        return False
    return any(walk(k['body']) for k in m['kernels']) or any(walk(lp) for lp in m['driver']['loops'])


# ------------------------------------------------------------------ rendering
def _blocks(blocks, ind, out):
    pad = ' ' * ind
    for s in blocks:
        k = s[0]
        if k == 'assign':
            out.append(f'{pad}{s[1]} = {s[2]}')
        elif k == 'do':
            step = f', {s[4]}' if s[4] else ''
            out.append(f'{pad}do {s[1]} = {s[2]}, {s[3]}{step}')
            _blocks(s[5], ind + 2, out)
            out.append(f'{pad}end do')
        elif k == 'if':
            out.append(f'{pad}if ({s[1]}) then')
            _blocks(s[2], ind + 2, out)
            if s[3]:
                out.append(f'{pad}else')
                _blocks(s[3], ind + 2, out)
            out.append(f'{pad}end if')
        elif k == 'call':
            out.append(f'{pad}call {s[1]}({", ".join(s[2])})')
        elif k == 'comment':
            out.append(f'{pad}! {s[1]}')
        elif k == 'raw':
            out.append(f'{pad}{s[1]}')
        else:
            raise ValueError(f'unknown block {k}')


PARKIND = """module parkind1
  implicit none
  integer, parameter :: jprb = selected_real_kind(13, 300)
  integer, parameter :: jprm = selected_real_kind(6, 37)
  integer, parameter :: jpim = selected_int_kind(9)
end module parkind1
"""


POISON = [{'real': '1.0e30_jprb', 'real4': '1.0e30_jprm', 'int': '99999', 'log': '.true.'},
          {'real': '-3.0e20_jprb', 'real4': '-3.0e20_jprm', 'int': '-77777', 'log': '.false.'}]


def render_kernel(k, ns, all_kernels, poison=None):
    nlon, nz = ns['k_nlon'], ns['k_nz']
    fmt = dict(nlon=nlon, nz=nz)
    argn = [ns['start'], ns['end'], nlon, nz, 'kl', 'kflag'] + [a['name'] for a in k['args']]
    out = [f'  subroutine {k["name"]}({", ".join(argn)})']
    ext = sorted({c for c in k['calls'] if next(x for x in all_kernels if x['name'] == c)['module'] != k['module']})
    for c in ext:
        mod = next(x for x in all_kernels if x['name'] == c)['module']
        out.append(f'    use {mod}, only: {c}')
    out.append(f'    integer(kind=jpim), intent(in) :: {ns["start"]}, {ns["end"]}, {nlon}, {nz}, kl, kflag')
    for a in k['args']:
        out.append(f'    {FTYPE[a["type"]]}, intent({a["intent"]}) :: {a["name"]}{SHAPES[a["shape"]].format(**fmt)}')
    for t in k['temps']:
        out.append(f'    {FTYPE[t["type"]]} :: {t["name"]}{SHAPES[t["shape"]].format(**fmt)}')
    out.append(f'    real(kind=jprb) :: zc, {", ".join(f"zs{i + 1}" for i in range(k["nscal"]))}')
    out.append(f'    integer(kind=jpim) :: {ns["jl"]}, {ns["jk"]}, jm')
    if poison is not None:
        # self-check of the generator only: every temporary / INTENT(OUT) dummy starts with a poison value
        for t in k['temps']:
            out.append(f'    {t["name"]} = {POISON[poison][t["type"]]}')
        for a in k['args']:
            if a['intent'] == 'out':
                rng = f'{ns["start"]}:{ns["end"]}'
                out.append(f'    {a["name"]}({rng}{"" if a["shape"] == "r1" else ", :"}) = {POISON[poison][a["type"]]}')
        out.append(f'    zs1 = {POISON[poison]["real"]}; zs2 = zs1; zs3 = zs1')
    _blocks(k['body'], 4, out)
    out.append(f'  end subroutine {k["name"]}')
    return out


def render(m, poison=None):
    """[(filename, text)] in dependency order (all of them go through loki except parkind1)"""
    ns = m['ns']
    files = [('parkind1.F90', PARKIND)]
    mods = ['kmod2', 'kmod'] if any(k['module'] == 'kmod2' for k in m['kernels']) else ['kmod']
    for mod in mods:
        out = [f'module {mod}', '  use parkind1, only: jprb, jprm, jpim', '  implicit none', 'contains']
        for k in m['kernels']:
            if k['module'] == mod:
                out += render_kernel(k, ns, m['kernels'], poison)
        out.append(f'end module {mod}')
        files.append((f'{mod}.F90', '\n'.join(out) + '\n'))
    d = m['driver']
    nlon, nz, nb, b = ns['nlon'], ns['nz'], ns['nb'], ns['b']
    out = ['module dmod', '  use parkind1, only: jprb, jprm, jpim', '  implicit none', 'contains',
           f'  subroutine driver({nlon}, {nz}, {nb}, kflag, {", ".join(f["name"] for f in d["fields"])})']
    called = []
    for lp in d['loops']:
        for s in lp:
            for c in ([s] if s[0] == 'call' else s[2] if s[0] == 'if' else []):
                if c[0] == 'call' and c[1] not in called:
                    called.append(c[1])
    for mod in mods:
        names = [c for c in called if next(k for k in m['kernels'] if k['name'] == c)['module'] == mod]
        if names:
            out.append(f'    use {mod}, only: {", ".join(names)}')
    out.append(f'    integer(kind=jpim), intent(in) :: {nlon}, {nz}, {nb}, kflag')
    for f in d['fields']:
        shp = f'({nlon}, {nb})' if f['shape'] == 'r1' else f'({nlon}, {nz}, {nb})'
        out.append(f'    {FTYPE[f["type"]]}, intent(inout) :: {f["name"]}{shp}')
    out.append(f'    integer(kind=jpim) :: {b}, {ns["start"]}, {ns["end"]}, {ns["jl"]}, {ns["jk"]}')
    bounds = [f'{ns["start"]} = {1 + d["soff"]}', f'{ns["end"]} = {nlon} - {d["eoff"]}' if d['eoff'] else f'{ns["end"]} = {nlon}']
    if not d['bounds_in_loop']:
        out += ['    ' + x for x in bounds]
    for lp in d['loops']:
        out.append(f'    do {b} = 1, {nb}')
        if d['bounds_in_loop']:
            out += ['      ' + x for x in bounds]
        _blocks(lp, 6, out)
        out.append('    end do')
    out += ['  end subroutine driver', 'end module dmod']
    files.append(('dmod.F90', '\n'.join(out) + '\n'))
    return files


def main_program(m, stack_probe=False):
    d = m['driver']
    out = ['program main', '  use parkind1, only: jprb, jprm, jpim', '  use dmod, only: driver', '  implicit none',
           '  integer(kind=jpim) :: n1, n2, n3, kflag, i1, i2, i3']
    for f in d['fields']:
        out.append(f'  {FTYPE[f["type"]]}, allocatable :: {f["name"]}({":,:" if f["shape"] == "r1" else ":,:,:"})')
    for iv, inp in enumerate(m['inputs']):
        a, b, c = inp['seed']
        out.append(f"  print '(A,I0)', 'vector ', {iv}")
        out.append(f'  n1 = {inp["nlon"]}; n2 = {inp["nz"]}; n3 = {inp["nb"]}; kflag = {inp["kflag"]}')
        for j, f in enumerate(d['fields']):
            nm = f['name']
            if f['shape'] == 'r1':
                out.append(f'  allocate({nm}(n1, n3))')
                idx, loops = '(i1, i3)', ['do i3 = 1, n3', 'do i1 = 1, n1']
                e = f'i1*{a} + i3*{b} + {c + j}'
            else:
                out.append(f'  allocate({nm}(n1, n2, n3))')
                idx, loops = '(i1, i2, i3)', ['do i3 = 1, n3', 'do i2 = 1, n2', 'do i1 = 1, n1']
                e = f'i1*{a} + i2*{b + 2} + i3*{c + 1} + {j}'
            val = f'mod({e}, 5)' if f['type'] == 'int' else f'real(mod({e}, 17) - 8, jprb)/8.0_jprb'
            out.append('  ' + '; '.join(loops) + f'; {nm}{idx} = {val}' + '; end do' * len(loops))
        out.append(f'  call driver(n1, n2, n3, kflag, {", ".join(f["name"] for f in d["fields"])})')
        for f in d['fields']:
            fm = "'(A,*(1X,I0))'" if f['type'] == 'int' else "'(A,*(1X,ES24.16E3))'"
            out.append(f"  print {fm}, '{f['name']}', {f['name']}")
        for f in d['fields']:
            out.append(f'  deallocate({f["name"]})')
    out.append('end program main')
    return '\n'.join(out) + '\n'


def n_temps(m):
    return sum(len(k['temps']) for k in m['kernels'])
