"""
Profile generator for C31 (loop transformations): kernels whose body contains *regions* marked for one
loki loop transformation, with legality known BY CONSTRUCTION.

case = base case keys (files, entry, inputs, layout) + 'xf':
    {'kind': 'unroll'|'fusion'|'fission'|'interchange'|'split'|'block',
     'opts': {...},                       options of the entry point
     'regions': [{'at': [i0, i1], 'tags': [...], 'live': bool, ...}]}   kernel body slice body[i0:i1] of each region

Fixed kernel variable schema (every routine has the same names; what differs are bounds, intents, bodies):
    n, xi0, xr0 (in);  yi0, yr0 (inout);  zi0(n) int in;  zi1(n) int inout|out;  zr2(n) real inout;
    zi3(lb:lb+5) int inout;  zi4(3,n) int inout;  zr5(4,4) real inout
    locals li0 li1 lr0, la0(n), la1(6); region loop variables lj0..lj3; filler loop variables lk0..lk2;
    region-private temporaries ft0 ft1 fr0 fw0(3); statements *between* fused loops write only sm0 sm1.

Legality rules implemented (see DESIGN C31):
  unroll       any body without EXIT/CYCLE bound to the unrolled loop (those are a separate, tagged class)
  fusion       arrays written by any loop of the group are accessed in the group only at exactly the fusion index;
               everything else read in the group is not written in the group; temporaries are written before read in
               every body; an accumulator scalar is owned by one body; unit steps; statements between the loops write
               only reserved scalars and read only what the moved loops do not write (depends on the insert position)
  fission      same per-iteration independence; scalars/small arrays crossing a fission point are private temporaries
               (promoted by loki: automatically or through promote(..)); loop runs 1|2..hi with hi == the declared extent
  interchange  perfect nest, each iteration writes only "its" element, integer accumulators only
  split/block  any loop without EXIT (split); do i=1,hi over dummy arrays subscripted by exactly i (block)
"""
from hypothesis import strategies as st

from .model import var, elem, lit, decl, routine, module
from . import gen as B

LOOPVARS = ['lj0', 'lj1', 'lj2', 'lj3']
FILLVARS = ['lk0', 'lk1', 'lk2']
KINDS = ['unroll', 'fusion', 'fission', 'interchange', 'split', 'block']

FILL_PROFILE = B.profile(calls=False, functions=False, internal=False, print=False, comments=False, labelled=False,
                         named=False, real_class='dyadic', max_depth=2, max_stmts=3, expr_depth=2, layout='light',
                         n_helpers=0, params=False)
FILL_PROFILE['while'] = False


# ------------------------------------------------------------------ variable table
def make_table(g):
    lb3 = g.pick([1, 1, 0, 2, -1])
    zi1_intent = g.pick(['inout', 'inout', 'out'])
    T = {
        'n': dict(type='int', dims=None, ro=True, arg='in'),
        'xi0': dict(type='int', dims=None, ro=True, arg='in'),
        'xr0': dict(type='real', dims=None, ro=True, arg='in'),
        'yi0': dict(type='int', dims=None, arg='inout'),
        'yr0': dict(type='real', dims=None, arg='inout'),
        'zi0': dict(type='int', dims=[[1, 'n']], ro=True, arg='in'),
        'zi1': dict(type='int', dims=[[1, 'n']], arg=zi1_intent),
        'zr2': dict(type='real', dims=[[1, 'n']], arg='inout'),
        'zi3': dict(type='int', dims=[[lb3, lb3 + 5]], arg='inout'),
        'zi4': dict(type='int', dims=[[1, 3], [1, 'n']], arg='inout'),
        'zr5': dict(type='real', dims=[[1, 4], [1, 4]], arg='inout'),
        'li0': dict(type='int', dims=None),
        'li1': dict(type='int', dims=None),
        'lr0': dict(type='real', dims=None),
        'la0': dict(type='int', dims=[[1, 'n']]),
        'la1': dict(type='int', dims=[[1, 6]]),
    }
    return T


ARGORDER = ['n', 'xi0', 'xr0', 'yi0', 'yr0', 'zi0', 'zi1', 'zr2', 'zi3', 'zi4', 'zr5']
TEMPS = {'ft0': ('int', None), 'ft1': ('int', None), 'fr0': ('real', None), 'fw0': ('int', [[1, 3]]),
         'sm0': ('int', None), 'sm1': ('real', None)}


def env_of(T, names=None, ro_names=(), loopvars=LOOPVARS):
    env = B.Env()
    for nme, v in T.items():
        if names is not None and nme not in names:
            continue
        env.vars[nme] = {'type': v['type'], 'dims': [list(d) for d in v['dims']] if v['dims'] else None,
                         'ro': bool(v.get('ro')) or nme in ro_names}
    env.loopvars = list(loopvars)
    return env


def strip_exits(body):
    """replace EXIT/CYCLE produced by the base generator (they would bind to a loop that an unroll removes)"""
    out = []
    for s in body:
        k = s[0]
        if k in ('exit', 'cycle'):
            out.append(['comment', ' no exit'])
        elif k == 'if1':
            out.append(['if1', s[1], ['assign', var('li0'), var('li0')] if s[2][0] in ('exit', 'cycle') else s[2]])
        elif k == 'do':
            out.append(s[:5] + [strip_exits(s[5]), s[6]])
        elif k == 'while':
            out.append([k, s[1], strip_exits(s[2])])
        elif k == 'if':
            out.append([k, [[c, strip_exits(b)] for c, b in s[1]], strip_exits(s[2]) if s[2] is not None else None])
        elif k == 'select':
            out.append([k, s[1], [[it, strip_exits(b)] for it, b in s[2]], strip_exits(s[3]) if s[3] is not None else None])
        else:
            out.append(s)
    return out


def filler(g, T, nmax=2):
    gf = B.G(g.draw, FILL_PROFILE)
    env = env_of(T, loopvars=FILLVARS)
    return B.gen_body(gf, env, 0, nmax)


# ------------------------------------------------------------------ unroll
def lit_range(g, allow_empty=True, maxtrip=4):
    """literal (lo, hi, step) and the list of values"""
    step = g.pick([1, 1, 1, 2, 3, -1, -1, -2, -3])
    trip = g.i(0, maxtrip) if (allow_empty and g.chance(18)) else g.i(1, maxtrip)
    lo = g.i(-2, 6)
    if trip == 0:
        hi = lo - (1 if step > 0 else -1) * g.i(1, 3)
        vals = []
    else:
        hi = lo + (trip - 1) * step
        if abs(step) > 1:           # stop value off the stride grid
            hi += (1 if step > 0 else -1) * g.i(0, abs(step) - 1)
        vals = list(range(lo, hi + (1 if step > 0 else -1), step))
    return lo, hi, step, vals


def gen_unroll_region(g, T, flags):
    gb = B.G(g.draw, dict(FILL_PROFILE, max_depth=3, max_stmts=2))
    env = env_of(T, loopvars=LOOPVARS + FILLVARS)
    tags = set()
    depth = g.pick([1, 1, 2, 2, 2, 3])
    tags.add(f'nest{depth}')
    live = [True]

    def nest(level, outer):
        lv = B.free_loopvar(env)
        stepe = None
        if level > 0 and outer is not None and g.chance(25):
            olv, (omin, omax) = outer
            lo_e, hi_e = lit(1), var(olv)
            rng = (1, max(1, omax))
            tags.add('counter-in-bounds')
            if omax < 1:
                live[0] = False
        elif level == 0 and g.chance(8):
            lo_e, hi_e = lit(1), var('n')
            rng = (1, 'n')
            tags.add('nonliteral-bound')
        else:
            lo, hi, step, vals = lit_range(g, maxtrip=4 if depth == 1 else 3)
            lo_e, hi_e = lit(lo), lit(hi)
            stepe = lit(step) if (step != 1 or g.chance(15)) else None
            if step < 0:
                tags.add('negstep')
            if abs(step) > 1:
                tags.add('stride')
            if not vals:
                tags.add('empty')
                live[0] = False
            rng = (min(vals), max(vals)) if vals else (lo, lo)
        env.active_loops[lv] = rng
        body = strip_exits(B.gen_body(gb, env, 2 if depth == 1 else 3, 2))
        if level + 1 < depth:
            ninner = 2 if g.chance(25) else 1
            if ninner == 2:
                tags.add('neighbours')
            for _ in range(ninner):
                inner = nest(level + 1, (lv, rng) if rng[1] != 'n' else None)
                if g.chance(30):
                    tags.add('inner-pragma')
                    body.append(['pragma', 'loki loop-unroll'])
                body.append(inner)
                if g.chance(40):
                    body += strip_exits(B.gen_body(gb, env, 3, 1))
        if level == 0 and trigger(g, flags, 'unroll-exit', 8):
            kw = g.pick(['exit', 'cycle'])
            tags.add('exit-or-cycle')
            body.insert(g.i(0, len(body)), ['if1', B.log_expr(gb, env, 1), [kw]])
        del env.active_loops[lv]
        form = 'plain'
        if g.chance(8):
            form = 'named'
        elif trigger(g, flags, 'unroll-label', 6):
            form = 'label'
        if form != 'plain':
            tags.add('do-' + form)
        return ['do', lv, lo_e, hi_e, stepe, body, form]

    loop = nest(0, None)
    opt = ''
    if g.chance(45):
        d = g.i(1, 3)
        opt = f' depth({d})'
        tags.add('depth-option')
    stmts = [['pragma', 'loki loop-unroll' + opt], loop]
    return stmts, {'tags': sorted(tags), 'live': live[0]}


# ------------------------------------------------------------------ independent bodies (fusion / fission / interchange)
class Space:
    """an iteration space: index variables + which arrays can be subscripted by exactly these indices"""

    def __init__(self, T, which, g, multisub=True):
        self.which = which
        self.multisub = multisub
        lb3 = T['zi3']['dims'][0][0]
        if which == 'n':
            # 1-D over 1..n : arrays (name, subscript builder)
            self.rank = 1
            self.arrays = {'zi1': 1, 'zr2': 1, 'la0': 1, 'zi4': 2}
            self.ro_arrays = {'zi0': 1}
            self.los, self.his = [1, 2], ['n', 'n', 'n-1', 3]
            self.dimhi = 'n'
        elif which == 'K':
            self.rank = 1
            self.arrays = {'zi3': 1, 'la1': 1}
            self.ro_arrays = {}
            lo = max(lb3, 1)
            hi = min(lb3 + 5, 6)
            self.los, self.his = [lo, lo + 1], [hi, hi - 1, hi]
            self.dimhi = 6 if lb3 == 1 else None
        else:  # '2d' over zr5(4,4) and zi4(3,n) restricted to (1..3, 1..3)
            self.rank = 2
            self.arrays = {'zr5': 2, 'zi4': 2}
            self.ro_arrays = {}
            self.los, self.his = [1, 2], [3, 3, 2]
            self.dimhi = None

    def hi_expr(self, h):
        if h == 'n':
            return var('n')
        if h == 'n-1':
            return ['b', '-', var('n'), ['i', 1]]
        return lit(h)

    def hi_text(self, h):
        return h if isinstance(h, str) else str(h)

    def hi_min(self, h):
        return {'n': 3, 'n-1': 2}.get(h, h)

    def element(self, g, name, idx):
        """designator of ``name`` at exactly the iteration index (idx = list of loop variable names, innermost first)"""
        r = (self.arrays.get(name) or self.ro_arrays.get(name))
        if self.rank == 1:
            if r == 1:
                return elem(name, var(idx[0]))
            return elem(name, lit(g.i(1, 3) if self.multisub else 1), var(idx[0]))      # zi4(c, i)
        return elem(name, var(idx[0]), var(idx[1]))


def indep_stmts(g, T, sp, idx, env_ro, warrs, temps, acc, nst, garrs_all, idx_value=False):
    """
    statements of one loop body / fission segment: write arrays in ``warrs`` at exactly the iteration index,
    read group arrays (``garrs_all``) only at exactly that index, everything else through env_ro.
    temps: list of (name, type) private temporaries: written before read. acc: owned accumulator scalar or None.
    """
    gb = B.G(g.draw, dict(FILL_PROFILE, expr_depth=2, intrinsics=True, reductions=False))
    out = []
    defined_t = []

    def rhs(typ):
        e = B.expr_of(gb, env_ro, typ, 2)
        # mix in group-array reads at exactly the index and temporaries
        cands = [a for a in garrs_all if T[a]['type'] == typ]
        if cands and g.chance(60):
            e = ['b', g.pick(['+', '-']), e, sp.element(g, g.pick(cands), idx)]
        tc = [t for t, tt in defined_t if tt == typ]
        if tc and g.chance(60):
            e = ['b', '+', e, var(g.pick(tc))]
        if idx_value and g.chance(50):
            e = ['b', '+', e, var(idx[0])] if typ == 'int' else ['b', '+', e, ['f', 'real', [var(idx[0]), ['i', 8]], {}]]
        if typ == 'real':
            return e
        return ['f', 'modulo', [e, ['i', 97]], {}]     # keep integers bounded

    for _ in range(nst):
        opts = ['w', 'w', 'w']
        if temps:
            opts += ['t', 't']
        if acc:
            opts.append('a')
        if len(out) < nst - 1:
            opts.append('if')
        c = g.pick(opts)
        if c == 'w' or c == 'if':
            a = g.pick(warrs)
            st_ = ['assign', sp.element(g, a, idx), rhs(T[a]['type'])]
            if c == 'if':
                cond = ['b', g.pick(['<', '>', '/=']), rhs('int'), B.int_leaf(gb, env_ro)]
                st_ = ['if', [[cond, [st_]]], None] if g.chance(60) else ['if1', cond, st_]
            out.append(st_)
        elif c == 't':
            t, tt = g.pick(temps)
            out.append(['assign', var(t), rhs(tt)])
            if (t, tt) not in defined_t:
                defined_t.append((t, tt))
        else:
            out.append(['assign', var(acc), ['b', '+', var(acc), rhs(T[acc]['type'])]])
    return out


def ro_env(T, written, idxranges, extra_excl=()):
    names = [k for k in T if k not in written and k not in extra_excl]
    env = env_of(T, names, ro_names=names, loopvars=[])
    for lv, r in idxranges.items():
        env.active_loops[lv] = r
    return env


# ------------------------------------------------------------------ fusion
def gen_fusion_region(g, T, gid, flags):
    tags = set()
    collapse = 2 if g.chance(22) else 1
    sp = Space(T, '2d' if collapse == 2 else g.pick(['n', 'n', 'K']), g)
    nl = g.i(2, 3)
    garrs = sorted(sp.arrays)
    k = g.i(1, len(garrs))
    garrs = [garrs[(g.i(0, len(garrs) - 1) + j) % len(garrs)] for j in range(k)]
    garrs = sorted(set(garrs))
    # accumulators / scalars
    accs = ['yi0', 'li1'] if g.chance(50) else []
    written = set(garrs) | set(accs)
    mode = g.pick(['same', 'same', 'sub', 'sub+range', 'same+range'])
    if collapse == 2 and mode == 'sub+range':
        mode = 'sub'
    tags.add('ranges-' + mode)
    if collapse == 2:
        tags.add('collapse')
    # ranges per loop (per level)
    levels = collapse
    his_pool = list(sp.his)
    if 'range' in mode and sp.which == 'n':
        his_pool = ['n', 'n-1']
    base = [(g.pick(sp.los), g.pick(his_pool)) for _ in range(levels)]
    ranges = []
    for _ in range(nl):
        if mode.startswith('same'):
            ranges.append(list(base))
        else:
            ranges.append([(g.pick(sp.los), g.pick(his_pool)) for _ in range(levels)])
    # loop variables
    diffvar = g.chance(35)
    if diffvar:
        tags.add('diffvar')
        flags['_diffvar'] = True
    # explicit range annotation = union
    def union(level):
        lo = min(r[level][0] for r in ranges)
        hs = [r[level][1] for r in ranges]
        if 'n' in hs:
            hi = 'n'
        elif 'n-1' in hs:
            hi = 'n-1'
        else:
            hi = max(hs)
        return lo, hi
    rng_text = ','.join(f'{union(l)[0]}:{sp.hi_text(union(l)[1])}' for l in range(levels))
    anchor = 0
    if g.chance(20) and nl > 1:
        anchor = g.i(1, nl - 1)
        tags.add('insert-loc')
    writes_of = []
    stmts = []
    temps = [('ft0', 'int'), ('fr0', 'real')] if g.chance(60) else []
    grp = f'g{gid}'
    loops_meta = []
    for li in range(nl):
        # outermost first: idx names innermost first
        if diffvar and li > 0:
            lvs = LOOPVARS[2:2 + levels]
            if levels == 2:
                # later nests may also use a permutation or a shift of the first nest's variables
                # (renaming them to the first nest's names must then be simultaneous)
                how = g.pick(['disjoint', 'swapped', 'shifted', 'shifted2'])
                if how == 'swapped':
                    lvs = [LOOPVARS[1], LOOPVARS[0]]
                elif how == 'shifted':
                    lvs = [LOOPVARS[2], LOOPVARS[0]]
                elif how == 'shifted2':
                    lvs = [LOOPVARS[1], LOOPVARS[2]]
                if how != 'disjoint':
                    tags.add('diffvar-permuted')
        else:
            lvs = LOOPVARS[0:levels]
        # lvs[0] = outer loop variable ... ; element() wants innermost first for rank 2: zr5(inner, outer)
        idx = list(reversed(lvs))
        idxr = {}
        for l in range(levels):
            lo, hi = ranges[li][l]
            idxr[lvs[l]] = (lo, 'n') if isinstance(hi, str) else (lo, hi)     # 'n-1' <= n
        env = ro_env(T, written, idxr)
        w = [a for a in garrs if g.chance(70)] or [g.pick(garrs)]
        acc = None
        if accs and g.chance(50):
            acc = accs.pop()
        writes_of.append(set(w) | ({acc} if acc else set()))
        body = indep_stmts(g, T, sp, idx, env, w, temps, acc, g.i(1, 3), garrs)
        loop = body
        for l in reversed(range(levels)):
            lo, hi = ranges[li][l]
            loop = [['do', lvs[l], lit(lo), sp.hi_expr(hi), None, loop, 'plain']]
        prag = f'loki loop-fusion group({grp})'
        if collapse == 2:
            prag += ' collapse(2)'
        if 'range' in mode and (li == nl - 1 or g.chance(50)):
            prag += f' range({rng_text})'
        if anchor and li == anchor:
            prag += ' insert-loc'
        loops_meta.append((prag, loop[0]))
    # statements between the loops
    for li, (prag, loop) in enumerate(loops_meta):
        stmts.append(['pragma', prag])
        stmts.append(loop)
        if li < nl - 1 and g.chance(60):
            tags.add('between-stmt')
            stmts.append(['__mid__', li])     # resolved below, when all write sets are known
    # resolve placeholders now that all write sets are known
    final = []
    for s in stmts:
        if s[0] != '__mid__':
            final.append(s)
            continue
        gap = s[1]
        if gap < anchor:
            bad = set().union(*writes_of[:gap + 1])
        else:
            bad = set().union(*writes_of[gap + 1:])
        bad |= set(accs)
        env = ro_env(T, bad, {})
        gb = B.G(g.draw, dict(FILL_PROFILE, expr_depth=2))
        if g.chance(50):
            final.append(['assign', var('sm0'), ['f', 'modulo', [B.int_expr(gb, env, 2), ['i', 97]], {}]])
        else:
            final.append(['assign', var('sm1'), B.real_expr(gb, env, 2)])
    post = [['assign', var('li0'), ['f', 'modulo', [['b', '+', var('li0'), var('sm0')], ['i', 97]], {}]],
            ['assign', var('lr0'), var('sm1')]]
    live = all(sp.hi_min(h) >= lo for r in ranges for lo, h in r)
    return final + post, {'tags': sorted(tags), 'live': live}


# ------------------------------------------------------------------ fission
def gen_fission_region(g, T, flags):
    tags = set()
    collapse = 2 if g.chance(15) else 1
    if collapse == 2:
        sp = Space(T, '2d', g)
        tags.add('collapse')
    else:
        sp = Space(T, g.pick(['n', 'n', 'K']), g)
    levels = collapse
    if collapse == 2:
        ranges = [(g.pick([1, 2]), 4), (g.pick([1, 2]), 4)]      # zr5(4,4): hi == extent
        garrs = ['zr5']
    else:
        if sp.dimhi is None:
            sp = Space(T, 'n', g)
        ranges = [(g.pick(sp.los), sp.dimhi)]
        garrs = [a for a in sorted(sp.arrays) if a != 'zi4' or True]
        garrs = [a for a in garrs if g.chance(70)] or [sorted(sp.arrays)[0]]
    lvs = LOOPVARS[0:levels]
    idx = list(reversed(lvs))
    idxr = {}
    for l in range(levels):
        lo, hi = ranges[l]
        idxr[lvs[l]] = (lo, 'n') if hi == 'n' else (lo, hi)
    accs = ['yi0'] if g.chance(40) else []
    written = set(garrs) | set(accs)
    env = ro_env(T, written, idxr)
    nseg = g.i(2, 3)
    if nseg == 3:
        tags.add('two-pragmas')
    explicit = g.chance(50)
    auto = True if not explicit else g.chance(50)
    tags.add('promote-explicit' if explicit else 'promote-auto')
    temps_all = [('ft0', 'int'), ('ft1', 'int'), ('fr0', 'real')]
    ntemps = g.i(1, 3)
    temps = temps_all[:ntemps]
    body = []
    defined = []          # temps written in earlier segments
    crossing = set()
    gb = B.G(g.draw, dict(FILL_PROFILE, expr_depth=2))
    for si in range(nseg):
        acc = accs.pop() if accs and g.chance(50) else None
        seg = []
        # read temporaries defined in earlier segments
        for (t, tt) in defined:
            if g.chance(70):
                cands = [a for a in garrs if T[a]['type'] == tt]
                if cands:
                    a = g.pick(cands)
                    seg.append(['assign', sp.element(g, a, idx), ['b', '+', var(t), B.expr_of(gb, env, tt, 1)]
                                if tt == 'real' else ['f', 'modulo', [['b', '+', var(t), B.int_expr(gb, env, 1)], ['i', 97]], {}]])
                    crossing.add(t)
        mine = [tp for tp in temps if tp not in defined and g.chance(60)]
        seg_t = []
        for tp in mine:
            seg.append(['assign', var(tp[0]), B.expr_of(gb, env, tp[1], 2) if tp[1] == 'real'
                        else ['f', 'modulo', [B.int_expr(gb, env, 2), ['i', 97]], {}]])
            seg_t.append(tp)
        seg += indep_stmts(g, T, sp, idx, env, garrs, [], acc, g.i(1, 2), garrs)
        # use own temps inside the segment too
        for tp in seg_t:
            cands = [a for a in garrs if T[a]['type'] == tp[1]]
            if cands and g.chance(50):
                seg.append(['assign', sp.element(g, g.pick(cands), idx), var(tp[0])])
        defined += seg_t
        if si > 0:
            prag = 'loki loop-fission'
            if collapse == 2:
                prag += ' collapse(2)'
            body.append(['__prag__', prag, si])
        body += seg
    # promote lists: explicit -> every crossing temp named at the first pragma after its definition is enough;
    # we name all crossing temps on every pragma (harmless) when explicit
    out = []
    for s in body:
        if s[0] == '__prag__':
            p = s[1]
            if explicit and crossing:
                p += ' promote(' + ', '.join(sorted(crossing)) + ')'
            out.append(['pragma', p])
        else:
            out.append(s)
    in_if = collapse == 1 and g.chance(12)
    if in_if:
        tags.add('pragma-in-if')
        out = [['if', [[['b', '>', ['b', '+', B.int_leaf(gb, ro_env(T, written | {'li0', 'li1', 'yi0'}, {})), ['i', 50]], ['i', 0]], out]], None]]
    loop = out
    for l in reversed(range(levels)):
        lo, hi = ranges[l]
        loop = [['do', lvs[l], lit(lo), sp.hi_expr(hi), None, loop, 'plain']]
    if crossing:
        tags.add('temp-crosses')
    return loop, {'tags': sorted(tags), 'live': True, 'promote': auto}


# ------------------------------------------------------------------ interchange
def gen_interchange_region(g, T, flags):
    tags = set()
    sp = Space(T, '2d', g)
    depth = 2
    tri = g.chance(30)
    lvs = LOOPVARS[0:2]     # outer, inner
    # zr5(4,4) or zi4(3, n) over (1..3,1..3)
    lo_o, hi_o = g.pick([1, 2]), g.pick([3, 3, 2])
    lo_i, hi_i = g.pick([1, 2]), g.pick([3, 3, 2])
    inner_lo_e = lit(lo_i)
    if tri:
        tags.add('triangular')
        inner_lo_e = var(lvs[0])      # do inner = outer, hi_i
        lo_i = lo_o
    garrs = [a for a in ['zr5', 'zi4'] if g.chance(70)] or ['zr5']
    acc = 'yi0' if g.chance(40) else None
    written = set(garrs) | ({acc} if acc else set())
    idxr = {lvs[0]: (lo_o, hi_o), lvs[1]: (min(lo_i, lo_o), hi_i)}
    env = ro_env(T, written, idxr)
    # element index order: array(first = inner or outer) chosen at random but identical for all uses
    idx = [lvs[1], lvs[0]] if g.chance(50) else [lvs[0], lvs[1]]
    body = indep_stmts(g, T, sp, idx, env, garrs, [('ft0', 'int'), ('fr0', 'real')] if g.chance(50) else [], acc,
                       g.i(1, 3), garrs)
    inner = ['do', lvs[1], inner_lo_e, lit(hi_i), None, body, 'plain']
    pre = []
    if g.chance(20):
        tags.add('inner-pragma')
        pre = [['pragma', 'loki some-pragma']]
    outer = ['do', lvs[0], lit(lo_o), lit(hi_o), None, pre + [inner], 'plain']
    order = ''
    if g.chance(40):
        order = f' ({lvs[1]}, {lvs[0]})'
        tags.add('explicit-order')
    live = hi_o >= lo_o and (hi_i >= lo_i)
    return [['pragma', 'loki loop-interchange' + order], outer], {'tags': sorted(tags), 'live': live, 'project': tri}


# ------------------------------------------------------------------ split / block
def gen_split_region(g, T, flags, lv):
    gb = B.G(g.draw, dict(FILL_PROFILE, max_depth=3, max_stmts=2))
    env = env_of(T, loopvars=[v for v in LOOPVARS if v != lv] + FILLVARS)
    tags = set()
    if g.chance(30):
        lo_e, hi_e, stepe = lit(g.pick([1, 2])), var('n'), None
        rng = (lo_e[1], 'n')
        vals = [1]
        tags.add('bound-n')
    else:
        lo, hi, step, vals = lit_range(g)
        lo_e, hi_e, stepe = lit(lo), lit(hi), (lit(step) if step != 1 else None)
        rng = (min(vals), max(vals)) if vals else (lo, lo)
        if step < 0:
            tags.add('negstep')
        if abs(step) > 1:
            tags.add('stride')
        if not vals:
            tags.add('empty')
    env.active_loops[lv] = rng
    body = strip_exits(B.gen_body(gb, env, 2, 3))
    if g.chance(20):
        tags.add('cycle')
        body.insert(g.i(0, len(body)), ['if1', B.log_expr(gb, env, 1), ['cycle']])
    bs = g.i(1, 5)
    trip = len(vals) if 'bound-n' not in tags else None
    if trip:
        tags.add('bs-divides' if trip % bs == 0 else 'bs-remainder')
    if trip is not None and bs > trip:
        tags.add('bs-gt-trip')
    return [['pragma', f'loki verif-split bs({bs})'], ['do', lv, lo_e, hi_e, stepe, body, 'plain']], \
        {'tags': sorted(tags), 'live': bool(vals), 'bs': bs}


def gen_block_region(g, T, flags, lv):
    tags = set()
    sp = Space(T, 'n', g, multisub=trigger(g, flags, 'block-multisub', 50))
    hi = g.pick(['n', 'n', 3])
    lo = 1
    if trigger(g, flags, 'block-lo', 20):
        lo = 2
        tags.add('lo-not-1')
    # arrays subscripted by exactly i: dummies only (documented by the tests), optionally a local one
    cands = ['zi1', 'zr2', 'zi4']
    if T['zi1']['arg'] == 'out' and not trigger(g, flags, 'block-out-partial', 100):
        cands.remove('zi1')        # intent(out) dummy possibly written under a condition
    if trigger(g, flags, 'block-local', 25):
        cands.append('la0')
        tags.add('local-array')
    garrs = [a for a in cands if g.chance(70)] or [cands[0]]
    if 'la0' in garrs:
        pass
    else:
        tags.discard('local-array')
    acc = 'yi0' if g.chance(40) else None
    written = set(garrs) | ({acc} if acc else set())
    # no active loop in the environment: the base generator never builds subscripts from the block index
    # (only "exactly i" subscripts are inside the domain shown by loki's tests); local arrays are not read either
    env = ro_env(T, written, {}, extra_excl=('la0', 'la1'))
    body = indep_stmts(g, T, sp, [lv], env, garrs, [('ft0', 'int')] if g.chance(40) else [], acc, g.i(1, 4), garrs,
                       idx_value=True)
    if g.chance(50):
        a = g.pick(garrs)
        if T[a]['type'] == 'int':
            body.append(['assign', sp.element(g, a, [lv]), ['b', '+', sp.element(g, a, [lv]), elem('zi0', var(lv))]])
            tags.add('intent-in-array')
    cond_w = any(s[0] in ('if', 'if1') for s in body)
    if cond_w:
        tags.add('conditional-write')
    if T['zi1']['arg'] == 'out' and 'zi1' in garrs:
        tags.add('intent-out-array')
    bs = g.i(1, 4)
    tags.add(f'bs{min(bs, 3)}')
    return [['pragma', f'loki verif-block bs({bs})'], ['do', lv, lit(lo), sp.hi_expr(hi), None, body, 'plain']], \
        {'tags': sorted(tags), 'live': True, 'bs': bs}


# ------------------------------------------------------------------ case
# triggers of listed known findings: generated only when the flag is True (the check switches a trigger on as soon as the
# finding is no longer listed); a draw that would have used a disabled trigger is recorded in xf['avoided']
TRIGGERS = ['unroll-exit', 'unroll-label', 'fusion-diffvar-case', 'fission-empty-branch', 'block-local', 'block-lo', 'block-multisub',
            'block-out-partial']
DEFAULT_FLAGS = {t: False for t in TRIGGERS}


def trigger(g, flags, name, pct):
    """draw the trigger with probability pct; honour the flag"""
    if not g.chance(pct):
        return False
    if flags.get(name):
        return True
    flags.setdefault('_avoided', []).append(name)
    return False


# --- branches without statements (trigger 'fission-empty-branch'): loki's fission transformer rebuilds the whole routine
# body and drops every construct/branch whose body is (or thereby becomes) empty, keeping the ELSE / DEFAULT part unguarded
def _vanishes(s):
    if s[0] == 'if':
        return all(_eff_empty(b) for _, b in s[1]) and (s[2] is None or _eff_empty(s[2]))
    if s[0] == 'select':
        return all(_eff_empty(b) for _, b in s[2]) and (s[3] is None or _eff_empty(s[3]))
    if s[0] == 'do':
        return _eff_empty(s[5])
    if s[0] == 'while':
        return _eff_empty(s[2])
    return False


def _eff_empty(body):
    return all(_vanishes(s) for s in body)


def _branch_lists(s):
    if s[0] == 'if':
        return [b for _, b in s[1]] + ([s[2]] if s[2] is not None else [])
    if s[0] == 'select':
        return [b for _, b in s[2]] + ([s[3]] if s[3] is not None else [])
    if s[0] == 'do':
        return [s[5]]
    if s[0] == 'while':
        return [s[2]]
    return []


def empty_branches(stmts):
    """True if an IF branch without statements is followed by a branch/ELSE with statements, or a CASE without
    statements stands beside a CASE DEFAULT with statements (anywhere, nested constructs included)"""
    for s in stmts:
        bl = _branch_lists(s)
        if s[0] == 'if':
            e = [_eff_empty(b) for b in bl]
            if any(e[i] and not all(e[i + 1:]) for i in range(len(e))):
                return True
        elif s[0] == 'select' and s[3] is not None and not _eff_empty(s[3]):
            if any(_eff_empty(b) for _, b in s[2]):
                return True
        if any(empty_branches(b) for b in bl):
            return True
    return False


def fill_empty_branches(stmts):
    """in place: every IF / CASE branch without statements gets a comment line (loki then keeps the branch)"""
    for s in stmts:
        for b in _branch_lists(s):
            fill_empty_branches(b)
            if s[0] in ('if', 'select') and _eff_empty(b):
                b.append(['comment', ' empty branch'])


@st.composite
def cases(draw, kinds=None, flags=None, nvec=4):
    g = B.G(draw, FILL_PROFILE)
    flags = dict(DEFAULT_FLAGS, **(flags or {}))
    kind = g.pick(kinds or KINDS)
    T = make_table(g)
    decls, entry_args, prologue = [], [], []
    for nme in ARGORDER:
        v = T[nme]
        d = decl(nme, v['type'], dims=[list(x) for x in v['dims']] if v['dims'] else None, intent=v['arg'])
        decls.append(d)
        entry_args.append(d)
        if v['arg'] == 'out':
            prologue.append(['assign', var(nme), B.init_value(g, v['type'])])
    for nme, v in T.items():
        if 'arg' in v:
            continue
        decls.append(decl(nme, v['type'], dims=[list(x) for x in v['dims']] if v['dims'] else None))
        prologue.append(['assign', var(nme), B.init_value(g, v['type'])])
    for nme, (t, dims) in TEMPS.items():
        decls.append(decl(nme, t, dims=dims))
        prologue.append(['assign', var(nme), B.init_value(g, t)])
    for nme in LOOPVARS + FILLVARS:
        decls.append(decl(nme, 'int'))
    body = list(prologue)
    regions = []
    opts = {}
    nreg = g.i(1, 2) if kind in ('unroll', 'fusion') else 1
    for ri in range(nreg):
        body += filler(g, T)
        if kind == 'unroll':
            stmts, meta = gen_unroll_region(g, T, flags)
        elif kind == 'fusion':
            stmts, meta = gen_fusion_region(g, T, ri, flags)
        elif kind == 'fission':
            stmts, meta = gen_fission_region(g, T, flags)
            opts['promote'] = meta.pop('promote')
        elif kind == 'interchange':
            stmts, meta = gen_interchange_region(g, T, flags)
            opts['project_bounds'] = meta.pop('project') or g.chance(30)
        elif kind == 'split':
            stmts, meta = gen_split_region(g, T, flags, LOOPVARS[ri])
        else:
            stmts, meta = gen_block_region(g, T, flags, LOOPVARS[ri])
        meta['at'] = [len(body), len(body) + len(stmts)]
        body += stmts
        regions.append(meta)
    body += filler(g, T)
    if kind == 'fission' and not flags.get('fission-empty-branch') and empty_branches(body):
        fill_empty_branches(body)
        flags.setdefault('_avoided', []).append('fission-empty-branch')
    # make temporaries that survive observable only where that is legal: nothing to do (they are dead)
    if kind in ('unroll', 'fusion', 'fission', 'interchange'):
        opts['via'] = g.pick(['function', 'function', 'transformation'])
    kern = routine('kernel', ARGORDER, decls, body)
    mod = module('kmod', routines=[kern])
    f = {'name': 'kmod.f90', 'units': [['module', mod]]}
    inputs = B.gen_inputs(g, entry_args, nvec)
    layout = B.gen_layout(g, 'light')
    layout['semi'] = False
    layout['comments'] = False      # a comment between a pragma and its loop detaches the pragma (documented)
    layout['blank'] = False
    if flags.get('_diffvar') and layout.get('idcase') != 'lower' and not flags.get('fusion-diffvar-case'):
        layout['idcase'] = 'lower'
        flags.setdefault('_avoided', []).append('fusion-diffvar-case')
    return {'files': [f], 'entry': {'module': 'kmod', 'name': 'kernel', 'args': entry_args},
            'inputs': inputs, 'layout': layout,
            'xf': {'kind': kind, 'opts': opts, 'regions': regions, 'avoided': sorted(flags.get('_avoided', []))}}


def unmark(case, keep):
    """copy of the case in which only region ``keep`` (index) stays marked (pragmas of the others removed)"""
    import copy
    c = copy.deepcopy(case)
    body = c['files'][0]['units'][0][1]['routines'][0]['body']

    def strip(stmts):
        out = []
        for s in stmts:
            if s[0] == 'pragma' and s[1].startswith('loki '):
                out.append(['comment', ' (unmarked)'])
            elif s[0] == 'do':
                out.append(s[:5] + [strip(s[5]), s[6]])
            elif s[0] == 'if':
                out.append([s[0], [[cc, strip(b)] for cc, b in s[1]], strip(s[2]) if s[2] is not None else None])
            else:
                out.append(s)
        return out

    for ri, r in enumerate(c['xf']['regions']):
        if ri == keep:
            continue
        i0, i1 = r['at']
        body[i0:i1] = strip(body[i0:i1])
    c['xf']['regions'] = [dict(r, unmarked=(ri != keep)) for ri, r in enumerate(c['xf']['regions'])]
    return c


def minimal_case(kind, stmts, tags=(), opts=None, layout=None, zi1_intent='inout', lb3=1, live=True, nvec=4):
    """hand-written regression/known-finding cases: the fixed kernel schema around the given region statements"""
    class _G(B.G):
        def __init__(self):
            super().__init__(None, FILL_PROFILE)
            self.k = 0

        def i(self, lo, hi):
            self.k += 1
            return lo + (self.k * 7) % (hi - lo + 1)

    g = _G()
    T = make_table(g)
    T['zi1']['arg'] = zi1_intent
    T['zi3']['dims'] = [[lb3, lb3 + 5]]
    decls, entry_args, prologue = [], [], []
    for nme in ARGORDER:
        v = T[nme]
        d = decl(nme, v['type'], dims=[list(x) for x in v['dims']] if v['dims'] else None, intent=v['arg'])
        decls.append(d)
        entry_args.append(d)
        if v['arg'] == 'out':
            prologue.append(['assign', var(nme), lit(1)])
    for nme, v in T.items():
        if 'arg' not in v:
            decls.append(decl(nme, v['type'], dims=[list(x) for x in v['dims']] if v['dims'] else None))
            prologue.append(['assign', var(nme), lit(2) if v['type'] == 'int' else ['r', '0.5']])
    for nme, (t, dims) in TEMPS.items():
        decls.append(decl(nme, t, dims=dims))
        prologue.append(['assign', var(nme), lit(3) if t == 'int' else ['r', '1.5']])
    for nme in LOOPVARS + FILLVARS:
        decls.append(decl(nme, 'int'))
    body = prologue + list(stmts)
    kern = routine('kernel', ARGORDER, decls, body)
    f = {'name': 'kmod.f90', 'units': [['module', module('kmod', routines=[kern])]]}
    inputs = B.gen_inputs(g, entry_args, nvec)
    return {'files': [f], 'entry': {'module': 'kmod', 'name': 'kernel', 'args': entry_args}, 'inputs': inputs,
            'layout': layout or {'stream': [0], 'indent': 2},
            'xf': {'kind': kind, 'opts': opts or {}, 'avoided': [],
                   'regions': [{'at': [len(prologue), len(body)], 'tags': list(tags), 'live': live}]}}
