"""
Profile generator for C30 (array-notation resolution and index normalisation).

Two program modes over a fixed variable schema (T = int or real, chosen per program):
    n, xi0, xr0 (in); yi0, yr0 (inout);
    za(lbA:lbA+4) T inout; zb(6) T inout; zc(lbC:lbC+4) T in; zn(n) T inout; zm(lbM:lbM+2, 4) T inout; zo(4) other type inout
    locals la(lbL:lbL+4) T, lm(3, lbK:lbK+2) T, li0 li1 lr0 lb0, loop variables lj0..lj2 (one per nesting depth)
  'vector' : section assignments (disjoint / overlapping backward / same-stride strided incl. negative / lower bounds /= 1 /
             multi-dimensional / mixed rank / scalar broadcast / RHS with bare ':' / whole arrays / elemental intrinsics /
             reductions), WHERE (+ELSEWHERE) aligned with a companion loop, one-line IF with a section assignment,
             explicit loops (whose ranges and variables the resolver re-uses), calls with whole-array arguments;
             with add/remove_explicit_array_dimensions among the entry points (40 %): 1-2 top-level statements whose references
             carry only open ranges with a stride (`b(::2) = a(::2)*3`, `zm(:, ::2) = lm(:, ::2) + x`, `call hstr3(za(::2), zc(::2))`)
  'index'  : arrays with lower bounds /= 1 accessed by elements (literal / loop-variable subscripts), explicitly bounded
             unit-stride sections of 1-D arrays, whole-array operations, calls; declarations optionally written '(1:n)'

case = base case keys + 'mode', 'xforms', 'hazards', 'hz_paths', 'avoided', 'feats', 'certain', 'body_start', 'groups'
(kernel body = prologue + generated statements [body_start, body_start+sum(groups)) + checksum epilogue), 'minimal'.

Known-finding triggers (never in the main stream; one dedicated sub-stream each; see known_findings.d/C30.txt):
  forward-overlap       RHS reads elements of the LHS array that the generated loop has already overwritten
  stride-mismatch       RHS section stride differs from the LHS stride (incl. negative strides)
  enclosing-loop-range  section range equals the range of a loop whose variable belongs to an enclosing loop
  where-ranges          WHERE whose mask/body ranges are not all the range of one existing loop
  where-reduction       WHERE whose mask or body contains an array reduction (sum/minval/maxval of an array)
  half-open-range       LHS range with omitted lower or upper bound ('a(:k)', 'a(k:)')
  bound-inquiry         lbound/ubound of a whole array with lower bound /= 1 (add_explicit_array_dimensions)
  vector-dimension-bare-rhs  `zn(1:n) = zn`: whole-array reference on the RHS of a section assignment over the dimension
                        (resolve_vector_dimension with derive_qualified_ranges=False)
  flatten-section       section of a multi-dimensional array (flatten_arrays)
  nested-array-subscript  array element inside the subscript of another array reference, `a(idx(3))` (index mode:
                        normalize_array_shape_and_access / flatten_arrays do not rewrite the inner reference)
Repaired in /repo (now part of the main stream; their old replays are `fixed:` regressions):
  inquiry-on-array (size/lbound/ubound(array) on the RHS of a section assignment; b321ef2),
  normalize-stride-dropped (strided section of an array with lower bound /= 1; 17cfdab)
Documented limitation, generated rarely (AssertionError -> rejected_by_loki): multi-clause WHERE (ELSEWHERE(mask)).
"""
import itertools

from hypothesis import strategies as st

from .model import var, lit, decl, routine, module
from . import gen as B
from .gen_assoc import small_entry, checksum_epilogue, kernel_of, copy_case, mentioned_names

HAZARDS = ['forward-overlap', 'stride-mismatch', 'enclosing-loop-range', 'where-ranges', 'where-reduction',
           'half-open-range', 'bound-inquiry', 'vector-dimension-bare-rhs', 'flatten-section', 'nested-array-subscript']
VECTOR_HAZARDS = HAZARDS[:8]
REDUCTIONS = ('sum', 'minval', 'maxval')

PROFILE = B.profile(print=False, comments=False, internal=False, real_class='dyadic', max_depth=2, max_stmts=3,
                    expr_depth=2, n_helpers=1, sections=False, where=False, select=False, inquiry=False,
                    labelled=False, named=True, negstep=False)
PROFILE['while'] = False


class S:
    """generation state"""

    def __init__(self, mode, allow=()):
        self.mode = mode
        self.allow = set(allow)
        self.feats = set()
        self.avoided = []
        self.loop_ranges = {}       # depth -> set of (lo, hi, step)
        self.sect_ranges = {}       # depth -> set of (lo, hi, step) (qualified)
        self.loops = []             # enclosing loops [(var, (lo, hi, st))]
        self.certain = True
        self.ncertain = 0
        self.dims = {}
        self.bare_rhs_1n = False


def nval(x, n):
    if x == 'n':
        return n
    if x == 'n-1':
        return n - 1
    return x


def bexpr(x):
    if x == 'n':
        return var('n')
    if x == 'n-1':
        return ['b', '-', var('n'), ['i', 1]]
    return lit(x)


# ------------------------------------------------------------------ sections
def rdim(lo, hi, st=1, form='lo:hi'):
    return {'k': 'r', 'lo': lo, 'hi': hi, 'st': st, 'form': form}


def sdim(e, v=None):
    return {'k': 's', 'e': e, 'v': v}


def sec_expr(name, spec, bare=False):
    if bare:
        return var(name)
    subs = []
    for d in spec:
        if d['k'] == 's':
            subs.append(d['e'])
            continue
        f = d['form']
        step = None if d['st'] == 1 else lit(d['st'])
        if f == 'full':
            subs.append(['rng', None, None, None])
        elif f == ':hi':
            subs.append(['rng', None, bexpr(d['hi']), step])
        elif f == 'lo:':
            subs.append(['rng', bexpr(d['lo']), None, step])
        else:
            subs.append(['rng', bexpr(d['lo']), bexpr(d['hi']), step])
    return ['d', [[name, subs]]]


def indices(d, n):
    lo, hi, st = nval(d['lo'], n), nval(d['hi'], n), d['st']
    return list(range(lo, hi + (1 if st > 0 else -1), st))


def qualified(d):
    return (d['lo'], d['hi'], None if d['st'] == 1 else d['st'])


def elem_of(spec, pos, n, lvals=None):
    out, k = [], 0
    for d in spec:
        if d['k'] == 's':
            v = d['v']
            if isinstance(v, str) and v.startswith('loop:'):
                v = (lvals or {})[v[5:]]        # value of the enclosing loop variable in this execution
            out.append(v if v is not None else ('s', repr(d['e'])))
        else:
            out.append(nval(d['lo'], n) + pos[k] * d['st'])
            k += 1
    return tuple(out)


def loop_vars_of(specs):
    out = []
    for spec in specs:
        for d in spec:
            if d['k'] == 's' and isinstance(d['v'], str) and d['v'].startswith('loop:') and d['v'][5:] not in out:
                out.append(d['v'][5:])
    return out


def forward_hazard(lhs, same_terms, active_loops=None):
    """
    does the loop nest loki generates (first range dimension innermost) read an element it has already written?
    Scalar subscripts that are enclosing loop variables are enumerated over the (literal) range of their loop:
    `lm(:, lj0) = lm(1, 1:3)` overlaps exactly when lj0 > 1.
    """
    lvs = loop_vars_of([lhs] + list(same_terms))
    ranges = [range(active_loops[lv][0], active_loops[lv][1] + 1) for lv in lvs]
    for n in range(3, B.NMAX + 1):
        L = [len(indices(d, n)) for d in lhs if d['k'] == 'r']
        for vals in itertools.product(*ranges):
            lvals = dict(zip(lvs, vals))
            written = set()
            for rev in itertools.product(*[range(x) for x in reversed(L)]):
                pos = rev[::-1]
                for t in same_terms:
                    if elem_of(t, pos, n, lvals) in written:
                        return True
                written.add(elem_of(lhs, pos, n, lvals))
    return False


def scalar_sub(g, env, s, lb, ub):
    """in-bounds scalar subscript: literal or an enclosing loop variable whose range fits"""
    ubmin = 3 if ub == 'n' else ub
    fits = [lv for lv, (lo, hi) in env.active_loops.items() if hi != 'n' and lo >= lb and hi <= ubmin]
    if fits and g.chance(50):
        lv = g.pick(fits)
        return sdim(var(lv), 'loop:' + lv)
    v = g.i(lb, ubmin)
    return sdim(lit(v), v)


def avoid_ranges(s, depth):
    bad = set()
    for k, rs in s.loop_ranges.items():
        if k < depth:
            bad |= rs
    return bad


def gen_lhs(g, env, s, name, depth, want_stride=None):
    """choose the LHS section of ``name``: list of dim specs, flag bare"""
    dims = s.dims[name]
    rank = len(dims)
    keep = g.i(0, rank - 1)
    bad = avoid_ranges(s, depth) if 'enclosing-loop-range' not in s.allow else set()
    spec = []
    for j, (lb, ub) in enumerate(dims):
        if j != keep and g.chance(45):
            spec.append(scalar_sub(g, env, s, lb, ub))
            continue
        if ub == 'n':
            form = g.pick(['full', 'lo:hi', 'lit', 'lit'])
            if form in ('full', 'lo:hi'):
                d = rdim(1, 'n', 1, form)
            else:
                lo = g.i(1, 2)
                d = rdim(lo, g.i(lo, 3), 1, 'lo:hi')
        else:
            ext_max = ub - lb + 1
            st = want_stride if want_stride is not None else g.pick([1, 1, 1, 1, 1, 2, -1])
            if st == 1:
                ext = g.i(1, ext_max) if g.chance(80) else ext_max
                lo = lb + g.i(0, ext_max - ext)
                hi = lo + ext - 1
                form = 'lo:hi'
                if ext == ext_max and g.chance(50):
                    form = 'full'
                d = rdim(lo, hi, 1, form)
            elif st == 2:
                cnt = g.i(2, (ext_max + 1) // 2)
                lo = lb + g.i(0, ext_max - (2 * cnt - 1))
                d = rdim(lo, lo + 2 * (cnt - 1), 2)
            else:
                ext = g.i(2, ext_max)
                lo = lb + g.i(0, ext_max - ext)
                d = rdim(lo + ext - 1, lo, -1)
        if qualified(d) in bad:
            s.avoided.append('enclosing-loop-range')
            if d['lo'] == 'n' or d['hi'] == 'n' or d['lo'] == d['hi']:
                spec.append(scalar_sub(g, env, s, lb, ub))
                continue
            # shrink by one element so that the range is no longer the range of an enclosing-variable loop
            d = rdim(d['lo'], d['hi'] - d['st'], d['st'], 'lo:hi') if abs(d['hi'] - d['lo']) >= abs(d['st']) else d
            if qualified(d) in bad:
                spec.append(scalar_sub(g, env, s, lb, ub))
                continue
        spec.append(d)
    if not any(d['k'] == 'r' for d in spec):
        lb, ub = dims[keep]
        spec[keep] = rdim(lb, 'n' if ub == 'n' else ub, 1, 'full')
        if qualified(spec[keep]) in bad:
            s.avoided.append('enclosing-loop-range')
            return None, False
    bare = all(d['k'] == 'r' and d['form'] == 'full' for d in spec) and g.chance(50)
    return spec, bare


def conform_term(g, env, s, name, lhs, lhs_name, shift_ok=True, mismatch=False):
    """a section of ``name`` conformable with the range dims of ``lhs`` (same strides unless mismatch)"""
    dims = s.dims[name]
    lr = [d for d in lhs if d['k'] == 'r']
    if len(dims) < len(lr):
        return None
    pos = sorted(g.draw(st.permutations(range(len(dims))))[:len(lr)]) if len(dims) > len(lr) else list(range(len(dims)))
    spec = []
    k = 0
    for j, (lb, ub) in enumerate(dims):
        if j not in pos:
            spec.append(scalar_sub(g, env, s, lb, ub))
            continue
        ld = lr[k]
        k += 1
        if ld['hi'] == 'n' or ld['lo'] == 'n':
            if ub != 'n':
                return None
            spec.append(rdim(1, 'n', 1, g.pick(['full', 'lo:hi'])))
            continue
        cnt = (abs(ld['hi'] - ld['lo']) // abs(ld['st'])) + 1
        stt = ld['st']
        if mismatch:
            stt = g.pick([x for x in (1, 2, -1) if x != ld['st']])
        ubv = 3 if ub == 'n' else ub
        span = (cnt - 1) * abs(stt) + 1
        if ubv - lb + 1 < span:
            return None
        if name == lhs_name and len(dims) == len(lhs) and shift_ok and g.chance(70):
            base = min(ld['lo'], ld['hi']) + g.pick([-1, 0, 1, 1, -1])
            base = max(lb, min(base, ubv - span + 1))
        else:
            base = lb + g.i(0, ubv - lb + 1 - span)
        if stt > 0:
            d = rdim(base, base + span - 1, stt)
        else:
            d = rdim(base + span - 1, base, stt)
        if stt == 1 and base == lb and base + span - 1 == ub and g.chance(40):
            d['form'] = 'full'
        spec.append(d)
    return spec


def scalar_operand(g, gq, env, s, t, depth, target):
    """
    scalar subexpression of an array assignment / WHERE on ``target``: it must not read ``target`` (element, reduction or
    whole array) - the generated loop evaluates it in every iteration, i.e. after elements have been overwritten
    (`a(1:n) = a(2) + 1`), which is the known finding 'forward-overlap'
    """
    if 'forward-overlap' in s.allow:
        return B.expr_of(gq, env, t, depth)
    for _ in range(3):
        e = B.expr_of(gq, env, t, depth)
        if target not in mentioned_names(e):
            return e
        s.avoided.append('forward-overlap')
    return B.init_value(g, t)


def section_assign(g, env, s, depth, force=None):
    """one array assignment; returns (stmt, hazards) or None"""
    T = s.T
    other = 'real' if T == 'int' else 'int'
    writable = [n for n in s.dims if not env.vars[n].get('ro')]
    name = g.pick(writable)
    t = env.vars[name]['type']
    want = None
    if force == 'stride-mismatch':
        name = g.pick([n for n in writable if len(s.dims[n]) == 1 and s.dims[n][0][1] != 'n'])
        t = env.vars[name]['type']
    lhs, bare = gen_lhs(g, env, s, name, depth, want_stride=want)
    if lhs is None:
        return None
    if force == 'forward-overlap':
        # a(lo+1:hi) = a(lo:hi-1) on a 1-D array (or zn(2:n) = zn(1:n-1))
        name = g.pick([n for n in writable if len(s.dims[n]) == 1])
        t = env.vars[name]['type']
        lb, ub = s.dims[name][0]
        if ub == 'n':
            lhs, bare = [rdim(2, 'n', 1)], False
            term = [rdim(1, 'n-1', 1)]
        else:
            ext = g.i(2, ub - lb)
            lo = lb + 1 + g.i(0, ub - lb - ext)
            lhs, bare = [rdim(lo, lo + ext - 1, 1)], False
            term = [rdim(lo - 1, lo + ext - 2, 1)]
        rhs = sec_expr(name, term)
        if g.chance(50):
            rhs = ['b', '+', rhs, B.expr_of(s.gq(g), env, t, 0)]
        return ['assign', sec_expr(name, lhs), rhs], ['forward-overlap']
    cands = [n for n in s.dims if env.vars[n]['type'] == t]
    g2 = s.gq(g)
    same_terms, hazards = [], []
    feats = set()

    def leaf(d):
        if g.chance(30):
            return scalar_operand(g, g2, env, s, t, 1, name)     # scalar broadcast
        for _ in range(3):
            n2 = g.pick(cands + [name])
            term = conform_term(g, env, s, n2, lhs, name, mismatch=(force == 'stride-mismatch'))
            if term is None:
                continue
            if n2 == name:
                if forward_hazard(lhs, same_terms + [term], env.active_loops):
                    s.avoided.append('forward-overlap')
                    continue
                same_terms.append(term)
                feats.add('same-array-on-both-sides')
            tb = all(x['k'] == 'r' and x['form'] == 'full' for x in term) and g.chance(40)
            if any(x['k'] == 'r' and x['form'] == 'full' for x in term):
                feats.add('rhs-bare-colon')
            if tb:
                feats.add('rhs-whole-array')
            return sec_expr(n2, term, bare=tb)
        return scalar_operand(g, g2, env, s, t, 0, name)

    def tree(d):
        if d <= 0 or g.chance(35):
            return leaf(d)
        c = g.pick(['+', '-', '*', 'neg', 'abs', 'minmax', 'merge'])
        if c in ('+', '-', '*'):
            return ['b', c, tree(d - 1), tree(d - 1)]
        if c == 'neg':
            return ['u', '-', tree(d - 1)]
        if c == 'abs':
            return ['f', 'abs', [tree(d - 1)], {}]
        if c == 'minmax':
            return ['f', g.pick(['min', 'max']), [tree(d - 1), tree(d - 1)], {}]
        return ['f', 'merge', [tree(d - 1), tree(d - 1), ['b', g.pick(['<', '>']), leaf(0), leaf(0)]], {}]

    rhs = tree(2)
    if force == 'stride-mismatch':
        term = conform_term(g, env, s, g.pick([n for n in cands if n != name and len(s.dims[n]) == 1] or cands), lhs, name,
                            mismatch=True)
        if term is None:
            return None
        rhs = ['b', '+', sec_expr([n for n in cands][0], term), rhs] if False else sec_expr(term_name(cands, s, term), term)
        hazards.append('stride-mismatch')
    if force == 'bound-inquiry' or (force is None and g.chance(12)):
        # array inquiry on the RHS of a section assignment (the statement must then be left alone by the resolver).
        # lbound/ubound of a whole array whose lower bound is not 1 is the trigger of the known finding 'bound-inquiry'
        # (add_explicit_array_dimensions turns `lbound(a, 1)` into `lbound(a(:), 1)` = 1): main stream uses arrays
        # with lower bound 1 for lbound/ubound, any array for size
        fn = g.pick(['size', 'size', 'ubound', 'lbound']) if force is None else g.pick(['ubound', 'lbound'])
        arrs = sorted(s.dims)
        if fn != 'size':
            off = [a for a in arrs if s.dims[a][0][0] != 1]
            one = [a for a in arrs if s.dims[a][0][0] == 1]
            if force == 'bound-inquiry':
                if not off:
                    return None
                arrs = off
                hazards.append('bound-inquiry')
            else:
                if off:
                    s.avoided.append('bound-inquiry')
                arrs = one
        arr = g.pick(arrs)
        call = ['f', fn, [var(arr)] + ([['i', 1]] if (fn != 'size' or g.chance(50)) else []), {}]
        rhs = ['b', '+', rhs, call if t == 'int' else ['f', 'real', [call, ['i', 8]], {}]]
        feats.add('inquiry-on-rhs')
    if force == 'half-open-range':
        k = next(i for i, d in enumerate(lhs) if d['k'] == 'r')
        lb, ub = s.dims[name][k]
        if ub == 'n':
            lhs[k] = rdim(1, 2, 1, ':hi')
        else:
            lhs[k] = rdim(lb, g.i(lb, ub - 1), 1, ':hi')
        for j, d in enumerate(lhs):
            if j != k and d['k'] == 'r':
                lb2, ub2 = s.dims[name][j]
                lhs[j] = sdim(lit(lb2), lb2)
        bare = False
        rhs = scalar_operand(g, g2, env, s, t, 1, name)
        hazards.append('half-open-range')
    for d in lhs:
        if d['k'] == 'r':
            s.sect_ranges.setdefault(depth, set()).add(qualified(d))
            if d['st'] != 1:
                feats.add('strided' if d['st'] > 0 else 'negative-stride')
            if d['form'] == 'full':
                feats.add('lhs-bare-colon')
    if 'rhs-whole-array' in feats and not bare and any(d['k'] == 'r' and d['hi'] == 'n' and d['form'] == 'lo:hi' for d in lhs):
        # `zn(1:n) = zn`: trigger of the known finding 'vector-dimension-bare-rhs' (resolve_vector_dimension without
        # derive_qualified_ranges leaves the whole-array reference on the RHS: `zn(jl) = zn`)
        s.bare_rhs_1n = True
    nr = sum(1 for d in lhs if d['k'] == 'r')
    feats.add(f'lhs-ranges:{nr}')
    if nr < len(lhs):
        feats.add('mixed-rank')
    if bare:
        feats.add('whole-array-lhs')
    if any(lb != 1 for lb, _ in s.dims[name]):
        feats.add('lower-bound/=1')
    s.feats |= feats
    return ['assign', sec_expr(name, lhs, bare=bare), rhs], hazards


def term_name(cands, s, term):
    for n in cands:
        if len(s.dims[n]) == len(term):
            ok = True
            for (lb, ub), d in zip(s.dims[n], term):
                if d['k'] == 'r':
                    ubv = 3 if ub == 'n' else ub
                    if min(d['lo'], d['hi']) < lb or max(d['lo'], d['hi']) > ubv:
                        ok = False
            if ok:
                return n
    return cands[0]


def companion_loop(g, env, s, name, rng, depth):
    """explicit loop over exactly ``rng`` = (lo, hi, None) assigning elements of ``name`` (dimension k is the loop index)"""
    lv = f'lj{depth}'
    lo, hi, _ = rng
    t = env.vars[name]['type']
    env.active_loops[lv] = (nval(lo, 3) if lo != 'n' else 3, 'n' if hi == 'n' else hi)
    g2 = s.gq(g)
    rhs = B.expr_of(g2, env, t, 1)
    del env.active_loops[lv]
    subs = []
    for j, (lb, ub) in enumerate(s.dims[name]):
        subs.append(var(lv) if j == 0 else lit(lb))
    s.loop_ranges.setdefault(depth, set()).add((lo, hi, None))
    return ['do', lv, bexpr(lo), bexpr(hi), None, [['assign', ['d', [[name, subs]]], rhs]], 'plain']


def has_reduction(e):
    if isinstance(e, list):
        if len(e) >= 2 and e[0] == 'f' and e[1] in REDUCTIONS:
            return True
        return any(has_reduction(x) for x in e)
    return False


def gen_where(g, env, s, depth, hazard=False, reduction=False):
    """single-clause WHERE (+ELSEWHERE) over one range of a 1-D array (or one range dim), with its companion loop"""
    names = [n for n in s.dims if not env.vars[n].get('ro') and len(s.dims[n]) == 1 and env.vars[n]['type'] == s.T]
    name = g.pick(names)
    lb, ub = s.dims[name][0]
    if ub == 'n':
        d = rdim(1, 'n', 1, g.pick(['full', 'lo:hi']))
    else:
        ext = g.i(2, ub - lb + 1)
        lo = lb + g.i(0, ub - lb + 1 - ext)
        d = rdim(lo, lo + ext - 1, 1, 'full' if (ext == ub - lb + 1 and g.chance(50)) else 'lo:hi')
    q = (d['lo'], d['hi'], None)
    deeper = set()
    for k, rs in s.sect_ranges.items():
        if k > depth:
            deeper |= rs
    if not hazard and (q in avoid_ranges(s, depth) or q in deeper):
        s.avoided.append('enclosing-loop-range')
        return None
    t = s.T
    g2 = s.gq(g)
    if reduction:
        s.allow.add('where-reduction')
    plain_g = B.G(g.draw, dict(g2.p, reductions=False))

    def scalar_expr(depth):
        """scalar operand of the mask / of a body assignment: an array reduction inside a WHERE is a known-finding trigger"""
        e = scalar_operand(g, g2, env, s, t, depth, name)
        if has_reduction(e) and 'where-reduction' not in s.allow:
            s.avoided.append('where-reduction')
            e = scalar_operand(g, plain_g, env, s, t, depth, name)
        return e

    lhs = [d]
    bare = d['form'] == 'full' and g.chance(50)
    # mask: every array section has exactly the LHS range
    others = [n for n in s.dims if len(s.dims[n]) == 1 and env.vars[n]['type'] == t and n != name
              and s.dims[n][0][0] <= nval(d['lo'], 3) and (s.dims[n][0][1] == 'n' or (d['hi'] != 'n' and s.dims[n][0][1] >= d['hi']))]
    m_rhs = scalar_expr(1)
    if others and g.chance(40) and d['hi'] != 'n':
        m_rhs = sec_expr(g.pick(others), [rdim(d['lo'], d['hi'], 1)])
    mask = ['b', g.pick(['<', '>', '<=', '>=']), sec_expr(name, lhs, bare=bare), m_rhs]
    if g.chance(25):
        mask = ['u', '.not.', ['p', mask]]

    def body_assign():
        cands = [n for n in s.dims if env.vars[n]['type'] == t]
        if g.chance(35):
            rhs = scalar_expr(1)
        else:
            n2 = g.pick(cands)
            term = conform_term(g, env, s, n2, lhs, name, shift_ok=False)
            if term is None or n2 == name:
                rhs = ['b', '+', sec_expr(name, lhs), scalar_expr(0)]
            else:
                rhs = ['b', g.pick(['+', '*']), sec_expr(n2, term), scalar_expr(0)]
        return ['assign', sec_expr(name, lhs, bare=bare), rhs]

    form = g.pick(['where1', 'where', 'where-else', 'where-else'])
    if form == 'where1':
        w = ['where1', mask, body_assign()]
    elif form == 'where':
        w = ['where', [[mask, [body_assign() for _ in range(g.i(1, 2))]]]]
    else:
        w = ['where', [[mask, [body_assign()]], [None, [body_assign()]]]]
        s.feats.add('where-elsewhere')
    s.feats.add('where')
    s.sect_ranges.setdefault(depth, set()).add(q)
    if reduction:
        # the trigger itself: a reduction of a whole 1-D array in the mask or in the body assignment
        red = ['f', g.pick(list(REDUCTIONS)),
               [var(g.pick([n for n in s.dims if env.vars[n]['type'] == t and len(s.dims[n]) == 1]))], {}]
        if g.chance(50):
            w = ['where1', ['b', '<', sec_expr(name, lhs, bare=bare), red], body_assign()]
        else:
            w = ['where1', mask, ['assign', sec_expr(name, lhs, bare=bare), ['b', '+', sec_expr(name, lhs), red]]]
    if hazard:
        return [w]
    loop = companion_loop(g, env, s, name, q, depth)
    return [loop, w] if g.chance(50) else [w, loop]


def gen_loop(g, env, s, depth, nstmts):
    lv = f'lj{depth}'
    if depth > 2 or lv in env.active_loops:
        return None
    bad = set()
    for k, rs in s.sect_ranges.items():
        if k > depth:
            bad |= rs
    for _ in range(4):
        lo = g.i(0, 2)
        hi = lo + g.i(1, 3)
        use_n = lo == 1 and g.chance(25)
        key = (1, 'n', None) if use_n else (lo, hi, None)
        if key not in bad or 'enclosing-loop-range' in s.allow:
            break
        s.avoided.append('enclosing-loop-range')
    else:
        return None
    s.loop_ranges.setdefault(depth, set()).add(key)
    env.active_loops[lv] = (1, 'n') if use_n else (lo, hi)
    was = s.certain
    body = gen_body(g, env, s, depth + 1, max(1, nstmts - 1))
    s.certain = was
    del env.active_loops[lv]
    s.feats.add('explicit-loop')
    return ['do', lv, lit(lo) if not use_n else lit(1), var('n') if use_n else lit(hi), None, body, g.pick(['plain', 'plain', 'named'])]


def gen_if(g, env, s, depth, nstmts):
    was = s.certain
    s.certain = False
    br = [[B.log_expr(s.gq(g), env, 1), gen_body(g, env, s, depth, max(1, nstmts // 2), in_if=True)]]
    els = gen_body(g, env, s, depth, 1, in_if=True) if g.chance(40) else None
    s.certain = was
    return ['if', br, els]


def elem_assign(g, env, s):
    """element / scalar assignment with literal or loop-variable subscripts"""
    g2 = s.gq(g)
    names = [n for n in s.dims if not env.vars[n].get('ro')]
    if g.chance(70):
        n = g.pick(names)
        return ['assign', B.element(g2, env, n, 0), B.expr_of(g2, env, env.vars[n]['type'], 2)]
    sc = [n for n, v in env.vars.items() if not v['dims'] and not v.get('ro') and v['type'] in ('int', 'real')]
    n = g.pick(sc)
    return ['assign', var(n), B.expr_of(B.G(g.draw, dict(g2.p, reductions=True)), env, env.vars[n]['type'], 2)]


def gen_stmt(g, env, s, depth, nstmts, in_if=False):
    if s.mode == 'vector':
        kinds = ['sect'] * 7 + ['elem'] * 2 + ['loop'] * 3 + ['where'] * 2 + ['if'] * 1 + ['if1'] + ['call']
    else:
        kinds = ['elem'] * 5 + ['loop'] * 4 + ['sect1d'] * 2 + ['whole'] * 2 + ['if'] + ['call']
    c = g.pick(kinds)
    if c == 'sect':
        r = section_assign(g, env, s, depth)
        if r is not None:
            if s.certain:
                s.ncertain += 1
            return [r[0]]
    elif c == 'where' and not in_if and depth <= 2:      # the companion loop needs a declared variable lj<depth>
        r = gen_where(g, env, s, depth)
        if r is not None:
            if s.certain:
                s.ncertain += 1
            return r
    elif c == 'loop' and not in_if:
        r = gen_loop(g, env, s, depth, nstmts)
        if r is not None:
            return [r]
    elif c == 'if' and not in_if:
        return [gen_if(g, env, s, depth, nstmts)]
    elif c == 'if1':
        r = section_assign(g, env, s, depth)
        if r is not None:
            s.feats.add('one-line-if')
            return [['if1', B.log_expr(s.gq(g), env, 1), r[0]]]
    elif c == 'call' and env.subs:
        r = B.gen_call(s.gq(g), env)
        if r is not None:
            s.feats.add('call')
            return [r]
    elif c == 'sect1d':
        r = index_section(g, env, s, strided=g.chance(35))
        if r is not None:
            if s.certain:
                s.ncertain += 1
            return [r]
    elif c == 'whole':
        n = g.pick([n for n in s.dims if not env.vars[n].get('ro')])
        t = env.vars[n]['type']
        same = [m for m in s.dims if s.dims[m] == s.dims[n] and env.vars[m]['type'] == t]
        rhs = B.expr_of(s.gq(g), env, t, 1)
        if g.chance(60):
            rhs = ['b', g.pick(['+', '*']), var(g.pick(same)), rhs]
        s.feats.add('whole-array-op')
        if s.certain:
            s.ncertain += 1
        return [['assign', var(n), rhs]]
    if s.certain and s.mode == 'index':
        s.ncertain += 1
    return [elem_assign(g, env, s)]


def gen_body(g, env, s, depth, nstmts, in_if=False):
    out = []
    for _ in range(g.i(1, max(1, nstmts))):
        out += gen_stmt(g, env, s, depth, nstmts, in_if=in_if)
    return out


def index_section(g, env, s, strided=False):
    """
    explicitly bounded section assignment on 1-D arrays (index mode): a(lo:hi[:st]) = b(lo2:hi2[:st2]) op scalar.
    The index-normalising entry points only shift bounds, so the strides of the two sides are independent
    (any of 1, 2, -1 when ``strided``) and arrays with lower bounds /= 1 are preferred.
    """
    names = [n for n in s.dims if len(s.dims[n]) == 1 and s.dims[n][0][1] != 'n' and not env.vars[n].get('ro')]
    off = [n for n in names if s.dims[n][0][0] != 1]
    if strided and off and g.chance(70):
        names = off
    if not names:
        return None
    n = g.pick(names)
    t = env.vars[n]['type']

    def sect(lb, ub, cnt, stt):
        span = (cnt - 1) * abs(stt)
        lo = lb + g.i(0, ub - lb - span)
        return rdim(lo, lo + span, stt) if stt > 0 else rdim(lo + span, lo, stt)

    lb, ub = s.dims[n][0]
    stt = g.pick([2, 2, -1]) if strided else 1
    cnt = g.i(2, (ub - lb) // abs(stt) + 1)
    lhs = [sect(lb, ub, cnt, stt)]
    rhs = B.expr_of(s.gq(g), env, t, 1)
    st2 = g.pick([stt, 1, 2, -1]) if strided else 1
    src = [m for m in s.dims if len(s.dims[m]) == 1 and s.dims[m][0][1] != 'n' and env.vars[m]['type'] == t and m != n
           and s.dims[m][0][1] - s.dims[m][0][0] >= (cnt - 1) * abs(st2)]
    if src and g.chance(70):
        m = g.pick(src)
        lb2, ub2 = s.dims[m][0]
        rhs = ['b', g.pick(['+', '*']), sec_expr(m, [sect(lb2, ub2, cnt, st2)]), rhs]
        if st2 != stt:
            s.feats.add('section-1d-strides-differ')
    s.feats.add('section-1d-explicit-bounds' + ('-strided' if strided else ''))
    if stt < 0 or st2 < 0:
        s.feats.add('negative-stride')
    return ['assign', sec_expr(n, lhs), rhs]


# ------------------------------------------------------------------ fully-open strided references
OPEN_STRIDE_ENTRIES = ('add_explicit_array_dimensions', 'remove_explicit_array_dimensions')
OPEN_STRIDE_HELPER = 'hstr3'


def open_sec(name, strides):
    """`name(::st, :, ...)`: every subscript an open range (no bounds), st = 1 -> bare ':'"""
    return ['d', [[name, [['rng', None, None, None if st == 1 else lit(st)] for st in strides]]]]


def open_stride_helper(T):
    """hstr3(x, y): explicit-shape dummies of extent 3 (a section `a(::2)` of an array of extent 5 or 6 is the actual argument)"""
    x = lambda k: ['d', [['x', [lit(k)]]]]
    y = lambda k: ['d', [['y', [lit(k)]]]]
    body = [['assign', x(1), ['b', '+', x(1), y(3)]], ['assign', x(2), ['b', '-', x(2), y(1)]],
            ['assign', x(3), ['b', '-', y(2), x(3)]]]
    return routine(OPEN_STRIDE_HELPER, ['x', 'y'], [decl('x', T, dims=[[1, 3]], intent='inout'), decl('y', T, dims=[[1, 3]], intent='in')],
                   body)


def open_stride_stmt(g, env, s):
    """
    one top-level statement whose array references carry ONLY open ranges, at least one of them strided
    (`b(::2) = a(::2)*3`, `zm(:, ::2) = lm(:, ::2) + x`, `call hstr3(za(::2), zc(::2))`): the sections are conformable by
    construction (extents 5 and 6 give the same element count for the strides 2, 3, 4; the 2-D arrays are 3x4 and 3x3),
    both sides use the same stride, a same-array term is the identical section (no overlap), strides are positive (an open
    range with a negative stride is empty). Returns (stmt, needs_helper).
    """
    T = s.T
    one = [n for n in s.dims if len(s.dims[n]) == 1 and s.dims[n][0][1] != 'n' and env.vars[n]['type'] == T]
    one_w = [n for n in one if not env.vars[n].get('ro')]
    two = [n for n in s.dims if len(s.dims[n]) == 2 and env.vars[n]['type'] == T]
    two_w = [n for n in two if not env.vars[n].get('ro')]
    kind = g.pick(['1d', '1d', '1d', '2d', '2d', 'call', 'call', 'zn'])
    g2 = s.gq(g)
    if kind == 'call' and len(one) >= 2 and one_w:
        a = g.pick(one_w)
        b = g.pick([n for n in one if n != a])
        s.feats.add('open-stride:call-arg')
        return ['call', OPEN_STRIDE_HELPER, [open_sec(a, [2]), open_sec(b, [2])], {}], True
    if kind == '2d' and two_w:
        a = g.pick(two_w)
        b = g.pick(two)
        strides = g.pick([[1, 2], [2, 2]])
        rhs = ['b', g.pick(['+', '-', '*']), open_sec(b, strides), scalar_operand(g, g2, env, s, T, 1, a)]
        if b != a and g.chance(30):
            rhs = ['b', '+', rhs, open_sec(a, strides)]
        s.feats.add('open-stride:2d')
        return ['assign', open_sec(a, strides), rhs], False
    if kind == 'zn' and s.dims.get('zn') and not env.vars['zn'].get('ro'):
        stt = g.pick([2, 2, 3])
        rhs = ['b', g.pick(['+', '*']), open_sec('zn', [stt]), scalar_operand(g, g2, env, s, env.vars['zn']['type'], 1, 'zn')]
        s.feats.add('open-stride:1d-extent-n')
        return ['assign', open_sec('zn', [stt]), rhs], False
    a = g.pick(one_w)
    b = g.pick(one)
    stt = g.pick([2, 2, 2, 3, 4])
    rhs = open_sec(b, [stt])
    if g.chance(80):
        rhs = ['b', g.pick(['+', '-', '*']), rhs, scalar_operand(g, g2, env, s, T, 1, a)]
    s.feats.add('open-stride:1d')
    return ['assign', open_sec(a, [stt]), rhs], False



# ------------------------------------------------------------------ hazard templates
def hazard_stmts(g, env, s, tag):
    obs = []
    if tag in ('forward-overlap', 'stride-mismatch', 'bound-inquiry', 'half-open-range'):
        for _ in range(6):
            r = section_assign(g, env, s, 0, force=tag)
            if r is not None and tag in r[1]:
                return [r[0]]
        raise RuntimeError('could not build hazard ' + tag)
    if tag == 'enclosing-loop-range':
        # do lj0 = 1, 3: zm(:, lj0) over lbM:lbM+2 ... use zb(1:3) inside do lj0 = 1, 3
        lo = g.i(1, 3)
        hi = lo + g.i(1, 3)
        name = g.pick(['zb'])
        st1 = ['assign', sec_expr(name, [rdim(lo, hi, 1)]), ['b', '+', var('lj0'), B.expr_of(s.gq(g), env, env.vars[name]['type'], 0)]]
        return [['do', 'lj0', lit(lo), lit(hi), None, [st1], 'plain']]
    if tag == 'vector-dimension-bare-rhs':
        rhs = var('zn')
        if g.chance(50):
            rhs = ['b', g.pick(['+', '*']), rhs, scalar_operand(g, s.gq(g), env, s, env.vars['zn']['type'], 0, 'zn')]
        return [['assign', sec_expr('zn', [rdim(1, 'n', 1)]), rhs]]
    if tag in ('where-ranges', 'where-reduction'):
        # where-ranges: no companion loop; where-reduction: ranges aligned with a companion loop, reduction inside
        for _ in range(6):
            r = gen_where(g, env, s, 0, hazard=(tag == 'where-ranges'), reduction=(tag == 'where-reduction'))
            if r is not None:
                return r
        raise RuntimeError('could not build hazard ' + tag)
    if tag == 'flatten-section':
        name = g.pick([n for n in s.dims if len(s.dims[n]) == 2 and not env.vars[n].get('ro')])
        (lb1, ub1), (lb2, ub2) = s.dims[name]
        spec = [rdim(lb1, lb1 + g.i(1, ub1 - lb1), 1), sdim(lit(lb2 + 1), lb2 + 1)]
        return [['assign', sec_expr(name, spec), B.expr_of(s.gq(g), env, env.vars[name]['type'], 1)]]
    if tag == 'nested-array-subscript':
        # zb(k) = za(lbA + modulo(za(lbA + j), 5)): the inner reference keeps its old (unshifted) subscript; lbA /= 1 here
        lbA = s.dims['za'][0][0]
        inner = ['d', [['za', [lit(lbA + g.i(1, 3))]]]]
        outer = ['d', [['za', [['b', '+', lit(lbA), ['f', 'modulo', [inner, ['i', 5]], {}]]]]]]
        return [['assign', ['d', [['zb', [lit(g.i(1, 6))]]]], outer]]
    raise ValueError(tag)


def strip_nested_refs(x, types, hits, inside=False):
    """
    Replace array element references that occur inside the subscripts of another array reference by a literal of
    their type, in place (`za(1 + modulo(zb(3), 5))` -> `za(1 + modulo(1, 5))`; generated subscripts stay in bounds
    because they are literals, loop variables or `lb + modulo(e, extent)`). Nested references are the trigger of the
    known finding 'nested-array-subscript' of the index-normalising entry points.
    """
    if not isinstance(x, list):
        return x
    if x and x[0] == 'd' and len(x) == 2 and isinstance(x[1], list):
        name, subs = x[1][0][0], x[1][0][1]
        if subs and inside:
            hits.append(name)
            t = types.get(name, 'int')
            return ['i', 1] if t == 'int' else (['r', '1.0'] if t == 'real' else ['l', True])
        if subs:
            x[1][0][1] = [strip_nested_refs(y, types, hits, True) for y in subs]
        return x
    for k, y in enumerate(x):
        x[k] = strip_nested_refs(y, types, hits, inside)
    return x


def nonzero_weights(epi):
    """
    The shared checksum epilogue weights element k of a 1-D array with k itself: the element with index 0 of an array
    with lower bound <= 0 would be unobservable. Use k + 2 (all lower bounds of this profile are >= -1).
    """
    for st_ in epi:
        if st_[0] == 'do' and st_[5][0][0] == 'assign':
            lo = st_[2]
            assert lo[0] == 'i' or (lo[0] == 'u' and lo[2] == ['i', 1]), lo     # lower bound >= -1
            prod = st_[5][0][2][3]          # acc + weight*elem
            assert prod[0] == 'b' and prod[1] == '*' and prod[2] == var(st_[1]), prod
            prod[2] = ['p', ['b', '+', var(st_[1]), ['i', 2]]]
    return epi


# ------------------------------------------------------------------ transformations
def gen_xforms(g, mode, hazard, nextra=4):
    if hazard == 'bound-inquiry':
        return [{'entry': 'add_explicit_array_dimensions'}]
    if hazard == 'vector-dimension-bare-rhs':
        return [{'entry': 'resolve_vector_dimension', 'derive_qualified_ranges': False, 'resolve_implicit_rhs_ranges': True}]
    if hazard in VECTOR_HAZARDS:
        return [{'entry': 'resolve_vector_notation'}]
    if hazard == 'flatten-section':
        return [{'entry': 'normalize_array_shape_and_access+flatten_arrays', 'order': 'F'}]
    if hazard == 'nested-array-subscript':
        return [{'entry': 'normalize_array_shape_and_access'}]
    # several variants per generated (and compiled) original: the first entry always, plus a drawn subset of the others
    if mode == 'vector':
        first = {'entry': 'resolve_vector_notation'}
        pool = [
            {'entry': 'resolve_vector_notation', 'resolve_implicit_rhs_ranges': False},
            {'entry': 'resolve_vector_notation', 'insert_comments': True, 'substitute_derived_type_bounds': g.chance(50)},
            {'entry': 'resolve_vector_dimension', 'derive_qualified_ranges': g.chance(50),
             'resolve_implicit_rhs_ranges': g.chance(70)},
            {'entry': 'add_explicit_array_dimensions'},
            {'entry': 'remove_explicit_array_dimensions', 'calls_only': g.chance(40)},
            {'entry': 'add_explicit_array_dimensions+resolve_vector_notation'},
            {'entry': 'normalize_range_indexing'},
        ]
    else:
        first = {'entry': 'normalize_array_shape_and_access'}
        pool = [
            {'entry': 'normalize_array_shape_and_access+flatten_arrays', 'order': 'F'},
            {'entry': 'normalize_array_shape_and_access+invert_array_indices+flatten_arrays', 'order': 'C'},
            {'entry': 'normalize_range_indexing'},
            {'entry': 'add_explicit_array_dimensions'},
            {'entry': 'remove_explicit_array_dimensions', 'calls_only': g.chance(40)},
        ]
    order = g.draw(st.permutations(range(len(pool))))
    return [first] + [pool[k] for k in sorted(order[:nextra])]


@st.composite
def cases(draw, hazard=None, nvec=4, minimal=False):
    g = B.G(draw, dict(PROFILE))
    if hazard in VECTOR_HAZARDS:
        mode = 'vector'
    elif hazard:
        mode = 'index'
    else:
        mode = g.pick(['vector', 'vector', 'index'])
    xforms = gen_xforms(g, mode, hazard)
    s = S(mode)
    T = g.pick(['int', 'real'])
    O = 'real' if T == 'int' else 'int'
    s.T = T
    s.gq = lambda gg: B.G(gg.draw, dict(PROFILE, reductions=(mode == 'vector')))
    lbA, lbC, lbM, lbL, lbK = (g.pick([1, 0, 2, -1]), g.pick([1, 0, 2]), g.pick([1, 0, 2]), g.pick([0, 1, 2, -1]), g.pick([1, 0, 2]))
    if hazard == 'nested-array-subscript':
        T, O, lbA = 'int', 'real', g.pick([0, 2])
        s.T = T
    arr_decls = [(T, [[lbA, lbA + 4]], 'inout'), (T, [[1, 6]], 'inout'), (T, [[lbC, lbC + 4]], 'in'),
                 (T, [[1, 'n']], 'inout'), (T, [[lbM, lbM + 2], [1, 4]], 'inout'), (O, [[1, 4]], 'inout')]
    names = ['za', 'zb', 'zc', 'zn', 'zm', 'zo']
    funcs_r, funcs, subs_r, subs = [], [], [], []
    shapes = [(T, [[lbA, lbA + 4]]), (T, [[lbM, lbM + 2], [1, 4]])]
    if not minimal and g.chance(60):
        r, sig = B.gen_helper_sub(B.G(draw, dict(PROFILE, max_depth=2, max_stmts=3)), 0, [], shapes)
        subs_r.append(r)
        subs.append(sig)
    env = B.Env()
    larr = [('la', T, [[lbL, lbL + 4]]), ('lm', T, [[1, 3], [lbK, lbK + 2]])]
    args, decls, entry_args, prologue = small_entry(g, env, arr_decls, funcs, subs, nint=2, nreal=1, nlog=1,
                                                    local_arrays=larr, logical_arg=False)
    # rename generated array arguments z?k -> fixed schema names
    ren = {}
    for k, nm in enumerate(names):
        old = f'z{"i" if arr_decls[k][0] == "int" else "r"}{k}'
        ren[old] = nm
    for d in decls + entry_args:
        d['name'] = ren.get(d['name'], d['name'])
    args = [ren.get(a, a) for a in args]
    for old, nm in ren.items():
        env.vars[nm] = env.vars.pop(old)
    for st_ in prologue:
        if st_[0] == 'assign' and st_[1][1][0][0] in ren:
            st_[1][1][0][0] = ren[st_[1][1][0][0]]
    env.vars = {k: env.vars[k] for k in list(env.vars)}
    for nm, v in env.vars.items():
        if v['dims']:
            s.dims[nm] = [tuple(d) for d in v['dims']]
    hz_stmts, hz_paths = [], []
    body = []
    groups = []         # statements generated together (a WHERE and its companion loop): removed together when minimising
    for _ in range(0 if minimal else g.i(4, 7)):
        new = gen_stmt(g, env, s, 0, 4)
        groups.append(len(new))
        body += new
    if mode == 'vector' and s.ncertain == 0 and not hazard and not minimal:
        r = section_assign(g, env, s, 0)
        if r is not None:
            body.append(r[0])
            groups.append(1)
            s.ncertain += 1
    if (mode == 'vector' and not hazard and not minimal and any(xf['entry'] in OPEN_STRIDE_ENTRIES for xf in xforms)
            and g.chance(40)):
        # fully-open strided references (`b(::2) = a(::2)*3`, `zm(:, ::2)`, call arguments of that shape) in programs on
        # which add/remove_explicit_array_dimensions are applied: top level only (no enclosing loop), own statement groups
        need = False
        for _ in range(g.i(1, 2)):
            st_, hlp = open_stride_stmt(g, env, s)
            need = need or hlp
            cut = g.i(0, len(groups))
            pos = sum(groups[:cut])
            body = body[:pos] + [st_] + body[pos:]
            groups = groups[:cut] + [1] + groups[cut:]
            s.ncertain += 1
        s.feats.add('open-stride')
        if need:
            subs_r.append(open_stride_helper(T))
    if hazard:
        s.allow.add(hazard)
        hz_stmts = hazard_stmts(g, env, s, hazard)
        cut = g.i(0, len(groups))
        pos = sum(groups[:cut])
        hz_paths = [len(prologue) + pos + i for i in range(len(hz_stmts))]
        body = body[:pos] + hz_stmts + body[pos:]
        groups = groups[:cut] + [len(hz_stmts)] + groups[cut:]
        s.ncertain += 1
    if mode == 'index' and hazard != 'nested-array-subscript':
        hits = []
        for r in subs_r:
            strip_nested_refs(r['body'], {d['name']: d['type'] for d in r['decls']}, hits)
        strip_nested_refs(body, {k: v['type'] for k, v in env.vars.items()}, hits)
        if hits:
            s.avoided.append('nested-array-subscript')
    if s.bare_rhs_1n and not hazard:
        for xf in xforms:
            if xf['entry'] == 'resolve_vector_dimension' and not xf.get('derive_qualified_ranges'):
                xf['derive_qualified_ranges'] = True
                s.avoided.append('vector-dimension-bare-rhs')
    # the epilogue uses its own loop variables: the resolver re-uses the variable of ANY loop with a matching range
    decls += [decl('lk0', 'int'), decl('lk1', 'int')]
    if minimal:
        # keep only what the known-finding statements mention
        used = mentioned_names(hz_stmts) | {'n', 'xi0', 'xr0', 'yi0', 'yr0'}
        for nm in [k for k in env.vars if k not in used]:
            del env.vars[nm]
        args = [a_ for a_ in args if a_ in used]
        entry_args = [d for d in entry_args if d['name'] in used]
        prologue = [st_ for st_ in prologue if st_[1][1][0][0] in used]
        hz_paths = [len(prologue) + i for i in range(len(hz_stmts))]
    body_start = len(prologue)
    epi = nonzero_weights(checksum_epilogue(env, ['lk0', 'lk1']))
    if minimal:
        used |= mentioned_names(epi)
        decls = [d for d in decls if d['name'] in used]
    kern = routine('kernel', args, decls, prologue + body + epi)
    mod = module('kmod', routines=funcs_r + subs_r + [kern])
    f = {'name': 'kmod.f90', 'units': [['module', mod]]}
    inputs = B.gen_inputs(g, entry_args, nvec)
    layout = B.gen_layout(g, g.pick(['plain', 'plain', 'light'])) if not minimal else {'stream': [0], 'indent': 2}
    if not minimal and g.chance(50):
        layout['explicit_lb'] = True
    return {'files': [f], 'entry': {'module': 'kmod', 'name': 'kernel', 'args': entry_args},
            'inputs': inputs, 'layout': layout, 'mode': mode,
            'xforms': xforms, 'hazards': [hazard] if hazard else [], 'hz_paths': hz_paths,
            'avoided': sorted(set(s.avoided)), 'feats': sorted(s.feats), 'certain': s.ncertain,
            'body_start': body_start, 'groups': groups, 'minimal': bool(minimal)}


# ------------------------------------------------------------------ minimisation / hazard ablation
def group_spans(case):
    """[(first, last+1)] index ranges into the kernel body of the statement groups that were generated together"""
    start = case.get('body_start')
    if start is None:
        return []
    out = []
    for ln in case.get('groups') or []:
        out.append((start, start + ln))
        start += ln
    return out


def without_groups(case, drop):
    """copy of ``case`` with the statement groups whose indices are in ``drop`` removed (prologue/epilogue untouched)"""
    c = copy_case(case)
    kb = kernel_of(c)['body']
    spans = group_spans(case)
    gone = set()
    for gi in drop:
        gone |= set(range(*spans[gi]))
    shift = {}
    new, k = [], 0
    for i, st_ in enumerate(kb):
        if i in gone:
            continue
        shift[i] = k
        new.append(st_)
        k += 1
    kernel_of(c)['body'] = new
    c['groups'] = [ln for gi, ln in enumerate(case['groups']) if gi not in set(drop)]
    c['hz_paths'] = [shift[i] for i in case.get('hz_paths') or [] if i in shift]
    return c


def ablate_hazard(case):
    c = copy_case(case)
    kb = kernel_of(c)['body']
    for i in case.get('hz_paths') or []:
        if i < len(kb):
            kb[i] = ['comment', ' ablated']
    return c
