"""
Hypothesis strategies that build FProg programs *by construction* (typed, in-bounds,
definitely-assigned, bounded loops) plus a layout and input vectors.

A generated *case* is JSON:
    {'files': [File...], 'entry': {'module': m, 'name': kernel, 'args': [decl...]},
     'inputs': [ {argname: value | [values]} ... ], 'layout': {...}, 'profile': name}
The entry routine always has ``n`` (integer, intent(in)) as first argument.
"""
from hypothesis import strategies as st

from .model import var, elem, lit, decl, routine, module

NMAX = 6

DEFAULT_PROFILE = {
    'max_stmts': 7, 'max_depth': 3, 'expr_depth': 3,
    'while': True, 'select': True, 'where': True, 'calls': True, 'internal': True, 'functions': True,
    'dtypes': True, 'assoc': False, 'print': True, 'sections': True, 'labelled': True, 'named': True,
    'pragmas': False, 'comments': True, 'negstep': True, 'params': True, 'logic': True,
    'if1': True, 'intrinsics': True, 'reductions': True, 'real_class': 'general', 'open': False,
    'layout': 'full', 'stmtfunc': False, 'n_helpers': 2, 'array2d': True, 'char': False,
}


def profile(**kw):
    p = dict(DEFAULT_PROFILE)
    p.update(kw)
    return p


DYADIC = ['0.5', '0.25', '1.5', '2.0', '0.125', '3.0', '1.0', '4.0', '0.75', '2.5']
GENERAL = ['0.1', '0.3', '1.7', '2.0', '0.25', '3.14', '1.0', '0.7', '1.1', '2.6']


class G:
    """generation context around hypothesis' draw"""

    def __init__(self, draw, prof):
        self.draw = draw
        self.p = prof
        self.counter = 0

    def i(self, lo, hi):
        return self.draw(st.integers(lo, hi))

    def pick(self, seq):
        seq = list(seq)
        return seq[self.i(0, len(seq) - 1)] if len(seq) > 1 else seq[0]

    def chance(self, pct):
        return self.i(0, 99) < pct

    def fresh(self, prefix):
        self.counter += 1
        return f'{prefix}{self.counter}'


class Env:
    """typing environment for one routine scope"""

    def __init__(self, parent=None):
        self.vars = {}          # name -> dict(type, dims [(lb, ub) concrete ints or 'n'], ro, kind)
        self.loopvars = []      # names of integer locals reserved as DO variables
        self.active_loops = {}  # loop var -> (lo, hi) concrete inclusive value range
        self.funcs = []         # callable user functions: dict(name, args=[types], rtype)
        self.subs = []          # callable user subroutines: dict(name, args=[(type, dims, intent)])
        self.parent = parent
        self.nval_range = (3, NMAX)
        self.assoc = {}
        self.named_loops = []   # DO variables of the enclosing named DO constructs (targets of EXIT/CYCLE <name>)

    def scalars(self, typ, writable=False):
        out = []
        for n, v in self.vars.items():
            if v['type'] == typ and not v['dims'] and not v.get('comp_of'):
                if writable and v.get('ro'):
                    continue
                out.append(n)
        return out

    def arrays(self, typ=None, writable=False, rank=None):
        out = []
        for n, v in self.vars.items():
            if v['dims'] and (typ is None or v['type'] == typ):
                if writable and v.get('ro'):
                    continue
                if rank is not None and len(v['dims']) != rank:
                    continue
                out.append(n)
        return out


def dim_range(d, nlo=3):
    """concrete guaranteed-valid index range (lb, ub_min) of a dim whose ub may be 'n'"""
    lb, ub = d
    if ub == 'n':
        return (lb, nlo)     # n >= 3 always
    return (lb, ub)


# ------------------------------------------------------------------ expressions
def designator_for(env, name):
    v = env.vars[name]
    if v.get('path'):
        return ['d', [list(x) for x in v['path']]]
    return var(name)


def safe_subscripts(g, env, name, depth):
    """subscripts guaranteed in bounds"""
    v = env.vars[name]
    subs = []
    for d in v['dims']:
        lb, ubmin = dim_range(d)
        ext = ubmin - lb + 1
        choices = ['lit']
        for lv, (lo, hi) in env.active_loops.items():
            if hi == 'n':
                if lo >= lb and (d[1] == 'n' or (isinstance(d[1], int) and d[1] >= NMAX)):
                    choices += ['loop:' + lv] * 3
                continue
            if lo >= lb and hi <= ubmin:
                choices += ['loop:' + lv] * 3
            elif lo - 1 >= lb and hi - 1 <= ubmin:
                choices.append('loopm1:' + lv)
            elif lo + 1 >= lb and hi + 1 <= ubmin:
                choices.append('loopp1:' + lv)
        if depth > 0:
            choices.append('mod')
        c = g.pick(choices)
        if c == 'lit':
            subs.append(lit(g.i(lb, ubmin)))
        elif c.startswith('loop:'):
            subs.append(var(c[5:]))
        elif c.startswith('loopm1:'):
            subs.append(['b', '-', var(c[7:]), ['i', 1]])
        elif c.startswith('loopp1:'):
            subs.append(['b', '+', var(c[7:]), ['i', 1]])
        else:
            e = int_expr(g, env, depth - 1)
            subs.append(['b', '+', lit(lb), ['f', 'modulo', [e, ['i', ext]]]] if lb != 0
                        else ['f', 'modulo', [e, ['i', ext]]])
    return subs


def element(g, env, name, depth):
    v = env.vars[name]
    base = designator_for(env, name)
    parts = [list(x) for x in base[1]]
    parts[-1][1] = safe_subscripts(g, env, name, depth)
    return ['d', parts]


def maybe_paren(g, e):
    if g.chance(6):
        return ['p', e]
    return e


def int_leaf(g, env):
    opts = ['lit', 'lit']
    sc = env.scalars('int')
    if sc:
        opts += ['var'] * 4
    if env.active_loops:
        opts += ['loop'] * 2
    arrs = env.arrays('int')
    if arrs:
        opts += ['elem'] * 2
    anyarr = env.arrays()
    if anyarr and g.p.get('intrinsics') and g.p.get('inquiry', True):
        opts.append('size')
    c = g.pick(opts)
    if c == 'lit':
        return ['i', g.i(0, 9)]
    if c == 'var':
        return designator_for(env, g.pick(sc))
    if c == 'loop':
        return var(g.pick(list(env.active_loops)))
    if c == 'elem':
        return element(g, env, g.pick(arrs), 0)
    a = g.pick(anyarr)
    rank = len(env.vars[a]['dims'])
    which = g.pick(['size', 'lbound', 'ubound', 'size1'])
    if which == 'size1' or (rank > 1 and which == 'size' and g.chance(50)):
        return ['f', 'size', [designator_for(env, a)], {}] if rank == 1 else \
            ['f', 'size', [designator_for(env, a), ['i', g.i(1, rank)]], {}]
    if which == 'size':
        return ['f', 'size', [designator_for(env, a)], {}]
    return ['f', which, [designator_for(env, a), ['i', g.i(1, rank)]], {}]


def safe_int_divisor(g, env, depth):
    c = g.pick(['lit', 'lit', 'abs1', 'max1'])
    if c == 'lit' or depth <= 0:
        v = g.i(1, 7)
        return ['i', v] if g.chance(80) else ['p', ['u', '-', ['i', v]]]
    e = int_expr(g, env, depth - 1)
    if c == 'abs1':
        return ['p', ['b', '+', ['i', 1], ['f', 'abs', [e], {}]]]
    return ['f', 'max', [['i', 1], ['f', 'abs', [e], {}]], {}]


def int_expr(g, env, depth):
    if depth <= 0 or g.chance(25):
        return int_leaf(g, env)
    ops = ['+', '+', '-', '-', '*', '/', 'neg', 'pow', 'intr', 'intr']
    if env.funcs and g.p.get('functions'):
        ops += ['call'] * 2
    if g.p.get('logic'):
        ops.append('merge')
    c = g.pick(ops)
    if c in ('+', '-', '*'):
        return maybe_paren(g, ['b', c, int_expr(g, env, depth - 1), int_expr(g, env, depth - 1)])
    if c == '/':
        return maybe_paren(g, ['b', '/', int_expr(g, env, depth - 1), safe_int_divisor(g, env, depth - 1)])
    if c == 'neg':
        return ['u', '-', int_expr(g, env, depth - 1)]
    if c == 'pow':
        return ['b', '**', int_leaf(g, env), ['i', g.i(0, 2)]]
    if c == 'merge':
        return ['f', 'merge', [int_expr(g, env, depth - 1), int_expr(g, env, depth - 1), log_expr(g, env, depth - 1)], {}]
    if c == 'call':
        f = g.pick([f for f in env.funcs if f['rtype'] == 'int'] or [None])
        if f is not None:
            return call_func(g, env, f, depth)
    if not g.p.get('intrinsics'):
        return ['b', '+', int_expr(g, env, depth - 1), int_leaf(g, env)]
    f = g.pick(['abs', 'min', 'max', 'mod', 'modulo', 'sign', 'min3', 'sum'])
    if f == 'abs':
        return ['f', 'abs', [int_expr(g, env, depth - 1)], {}]
    if f in ('min', 'max'):
        return ['f', f, [int_expr(g, env, depth - 1), int_expr(g, env, depth - 1)], {}]
    if f == 'min3':
        return ['f', g.pick(['min', 'max']), [int_expr(g, env, depth - 1), int_leaf(g, env), int_leaf(g, env)], {}]
    if f in ('mod', 'modulo'):
        return ['f', f, [int_expr(g, env, depth - 1), safe_int_divisor(g, env, depth - 1)], {}]
    if f == 'sign':
        return ['f', 'sign', [int_expr(g, env, depth - 1), int_expr(g, env, depth - 1)], {}]
    arrs = env.arrays('int')
    if f == 'sum' and arrs and g.p.get('reductions'):
        return ['f', g.pick(['sum', 'maxval', 'minval']), [designator_for(env, g.pick(arrs))], {}]
    return ['f', 'abs', [int_expr(g, env, depth - 1)], {}]


def real_leaf(g, env):
    opts = ['lit', 'lit']
    sc = env.scalars('real')
    if sc:
        opts += ['var'] * 4
    arrs = env.arrays('real')
    if arrs:
        opts += ['elem'] * 2
    if g.p.get('casts', True):     # profile key 'casts': False switches real(<int>, 8) leaves off (default on)
        opts.append('fromint')
    c = g.pick(opts)
    if c == 'lit':
        return ['r', g.pick(DYADIC if g.p.get('real_class') == 'dyadic' else GENERAL + DYADIC)]
    if c == 'var':
        return designator_for(env, g.pick(sc))
    if c == 'elem':
        return element(g, env, g.pick(arrs), 0)
    return ['f', 'real', [int_leaf(g, env), ['i', 8]], {}]


def real_expr(g, env, depth):
    if depth <= 0 or g.chance(25):
        return real_leaf(g, env)
    ops = ['+', '+', '-', '*', '*', '/', 'neg', 'pow', 'intr', 'intr', 'mixed']
    if env.funcs and g.p.get('functions'):
        ops += ['call'] * 2
    c = g.pick(ops)
    if c in ('+', '-', '*'):
        return maybe_paren(g, ['b', c, real_expr(g, env, depth - 1), real_expr(g, env, depth - 1)])
    if c == 'mixed':
        return ['b', g.pick(['+', '*', '-']), real_expr(g, env, depth - 1), int_leaf(g, env)]
    if c == '/':
        if g.p.get('real_class') == 'dyadic' or g.chance(50):
            return ['b', '/', real_expr(g, env, depth - 1), ['r', g.pick(['2.0', '4.0', '0.5', '8.0'])]]
        return ['b', '/', real_expr(g, env, depth - 1),
                ['p', ['b', '+', ['r', '1.0'], ['f', 'abs', [real_expr(g, env, depth - 1)], {}]]]]
    if c == 'neg':
        return ['u', '-', real_expr(g, env, depth - 1)]
    if c == 'pow':
        return ['b', '**', real_leaf(g, env), ['i', g.i(0, 3)]]
    if c == 'call':
        f = g.pick([f for f in env.funcs if f['rtype'] == 'real'] or [None])
        if f is not None:
            return call_func(g, env, f, depth)
    if not g.p.get('intrinsics'):
        return ['b', '+', real_expr(g, env, depth - 1), real_leaf(g, env)]
    f = g.pick(['abs', 'min', 'max', 'sign', 'sqrt', 'sum'])
    if f == 'abs':
        return ['f', 'abs', [real_expr(g, env, depth - 1)], {}]
    if f in ('min', 'max'):
        return ['f', f, [real_expr(g, env, depth - 1), real_expr(g, env, depth - 1)], {}]
    if f == 'sign':
        return ['f', 'sign', [real_expr(g, env, depth - 1), real_expr(g, env, depth - 1)], {}]
    if f == 'sqrt':
        return ['f', 'sqrt', [['b', '**', ['p', real_expr(g, env, depth - 1)], ['i', 2]]], {}]
    arrs = env.arrays('real')
    if arrs and g.p.get('reductions'):
        return ['f', g.pick(['sum', 'maxval', 'minval']), [designator_for(env, g.pick(arrs))], {}]
    return ['f', 'abs', [real_expr(g, env, depth - 1)], {}]


def log_expr(g, env, depth):
    sc = env.scalars('logical')
    if depth <= 0:
        if sc and g.chance(50):
            return designator_for(env, g.pick(sc))
        return ['b', g.pick(['==', '/=', '<', '<=', '>', '>=']), int_leaf(g, env), int_leaf(g, env)]
    c = g.pick(['cmpi', 'cmpi', 'cmpr', 'and', 'or', 'not', 'eqv', 'var', 'lit'])
    if c == 'cmpi':
        return ['b', g.pick(['==', '/=', '<', '<=', '>', '>=']), int_expr(g, env, depth - 1), int_expr(g, env, depth - 1)]
    if c == 'cmpr':
        return ['b', g.pick(['<', '<=', '>', '>=']), real_expr(g, env, depth - 1), real_expr(g, env, depth - 1)]
    if c in ('and', 'or'):
        return maybe_paren(g, ['b', '.' + c + '.', log_expr(g, env, depth - 1), log_expr(g, env, depth - 1)])
    if c == 'eqv':
        return ['b', g.pick(['.eqv.', '.neqv.']), log_expr(g, env, depth - 1), log_expr(g, env, depth - 1)]
    if c == 'not':
        return ['u', '.not.', log_expr(g, env, depth - 1)]
    if c == 'var' and sc:
        return designator_for(env, g.pick(sc))
    if c == 'lit':
        return ['l', g.chance(50)]
    return ['b', g.pick(['==', '/=', '<', '>']), int_leaf(g, env), int_leaf(g, env)]


def expr_of(g, env, typ, depth):
    if typ == 'int':
        return int_expr(g, env, depth)
    if typ == 'real':
        return real_expr(g, env, depth)
    return log_expr(g, env, depth)


def call_func(g, env, f, depth):
    args = [expr_of(g, env, t, max(0, depth - 1)) for t in f['args']]
    return ['f', f['name'], args, {}]


# ------------------------------------------------------------------ array expressions
def section_of(g, env, name, extents, allow_stride=True):
    """a section of array ``name`` conformable with ``extents`` (list of ints), or None"""
    v = env.vars[name]
    if len(v['dims']) != len(extents):
        return None
    subs = []
    whole = True
    for d, ext in zip(v['dims'], extents):
        lb, ubmin = dim_range(d)
        avail = ubmin - lb + 1
        if avail < ext:
            return None
        stride = 1
        if allow_stride and avail >= 2 * ext - 1 and ext > 1 and g.chance(15):
            stride = 2
        span = (ext - 1) * stride + 1
        lo = lb + g.i(0, avail - span)
        hi = lo + span - 1
        if d[1] != 'n' and lo == lb and hi == ubmin and stride == 1 and not v.get('noopen') and g.chance(50):
            subs.append(['rng', None, None, None])
        else:
            whole = False
            subs.append(['rng', lit(lo), lit(hi), lit(stride) if stride != 1 else None])
    base = designator_for(env, name)
    parts = [list(x) for x in base[1]]
    if whole and all(d[1] != 'n' for d in v['dims']) and not v.get('nobare') and g.chance(60):
        parts[-1][1] = None     # bare array name
    else:
        parts[-1][1] = subs
    return ['d', parts]


def arr_expr(g, env, typ, extents, depth):
    """array-valued expression conformable with extents"""
    cands = [a for a in env.arrays(typ) if len(env.vars[a]['dims']) == len(extents)]
    if depth <= 0 or g.chance(30):
        for _ in range(3):
            if not cands:
                break
            s = section_of(g, env, g.pick(cands), extents)
            if s is not None:
                return s
        return expr_of(g, env, typ, 1) if typ != 'logical' else log_expr(g, env, 1)
    if typ == 'logical':
        anchors = [a for a in env.arrays('int') + env.arrays('real') if len(env.vars[a]['dims']) == len(extents)
                   and section_of(G(lambda s_: 0, g.p), env, a, extents, allow_stride=False) is not None]
        if anchors:
            return mask_expr(g, env, g.pick(anchors), extents, depth)
        c = g.pick(['cmp', 'cmp', 'and', 'not'])
        if c == 'cmp':
            t = g.pick(['int', 'real'])
            return ['b', g.pick(['<', '>', '<=', '>=']), arr_expr(g, env, t, extents, depth - 1),
                    arr_expr(g, env, t, extents, depth - 1)]
        if c == 'and':
            return ['b', g.pick(['.and.', '.or.']), arr_expr(g, env, 'logical', extents, depth - 1),
                    arr_expr(g, env, 'logical', extents, depth - 1)]
        return ['u', '.not.', arr_expr(g, env, 'logical', extents, depth - 1)]
    c = g.pick(['+', '-', '*', 'neg', 'abs', 'scal', 'minmax'])
    if c in ('+', '-', '*'):
        return maybe_paren(g, ['b', c, arr_expr(g, env, typ, extents, depth - 1), arr_expr(g, env, typ, extents, depth - 1)])
    if c == 'neg':
        return ['u', '-', arr_expr(g, env, typ, extents, depth - 1)]
    if c == 'abs':
        return ['f', 'abs', [arr_expr(g, env, typ, extents, depth - 1)], {}]
    if c == 'minmax':
        return ['f', g.pick(['min', 'max']), [arr_expr(g, env, typ, extents, depth - 1), expr_of(g, env, typ, 1)], {}]
    return ['b', g.pick(['+', '*']), arr_expr(g, env, typ, extents, depth - 1), expr_of(g, env, typ, 1)]


# ------------------------------------------------------------------ statements
def gen_assign(g, env):
    targets = []
    for t in ('int', 'real', 'logical'):
        targets += [(n, t, 's') for n in env.scalars(t, writable=True)]
        targets += [(n, t, 'e') for n in env.arrays(t, writable=True)]
        if g.p.get('sections'):
            targets += [(n, t, 'a') for n in env.arrays(t, writable=True)]
    if not targets:
        return None
    n, t, k = g.pick(targets)
    d = g.p['expr_depth']
    if k == 's':
        return ['assign', designator_for(env, n), expr_of(g, env, t, d)]
    if k == 'e':
        return ['assign', element(g, env, n, 1), expr_of(g, env, t, d)]
    v = env.vars[n]
    extents = []
    for dd in v['dims']:
        lb, ubmin = dim_range(dd)
        extents.append(g.i(1, ubmin - lb + 1))
    lhs = section_of(g, env, n, extents)
    if lhs is None:
        return None
    if g.chance(25):
        rhs = expr_of(g, env, t, 2)   # scalar broadcast
    else:
        rhs = arr_expr(g, env, t, extents, 2)
    return ['assign', lhs, rhs]


def free_loopvar(env):
    for lv in env.loopvars:
        if lv not in env.active_loops:
            return lv
    return None


def gen_do(g, env, depth, nstmts):
    lv = free_loopvar(env)
    if lv is None:
        return None
    lo = g.i(1, 3)
    trip = g.i(0, 4) if g.chance(15) else g.i(1, 4)
    step = 1
    if g.chance(25):
        step = g.pick([2, 3])
    neg = g.p.get('negstep') and g.chance(25)
    if trip == 0:
        hi = lo - 1
        vals = []
    else:
        hi = lo + (trip - 1) * step + (g.i(0, step - 1) if step > 1 else 0)
        vals = list(range(lo, hi + 1, step))
    use_n = False
    if not neg and step == 1 and lo == 1 and 'n' in env.vars and g.chance(35):
        use_n = True   # do i = 1, n
    if neg:
        lo_e, hi_e, st_e = lit(vals[-1] if vals else hi), lit(lo), ['u', '-', ['i', step]]
    else:
        lo_e, hi_e, st_e = lit(lo), (var('n') if use_n else lit(hi)), (lit(step) if step != 1 or g.chance(10) else None)
    if use_n:
        env.active_loops[lv] = (1, 'n')
    else:
        env.active_loops[lv] = (min(vals), max(vals)) if vals else (lo, lo)
    forms = ['plain', 'plain']
    if g.p.get('labelled'):
        forms.append('label')
    if g.p.get('named'):
        forms.append('named')
    form = g.pick(forms)
    if form == 'named':
        env.named_loops.append(lv)
    body = gen_body(g, env, depth + 1, max(1, nstmts - 1), in_loop=True, loop_runs_to_n=use_n)
    if form == 'named':
        env.named_loops.pop()
    del env.active_loops[lv]
    return ['do', lv, lo_e, hi_e, st_e, body, form]


def gen_if(g, env, depth, nstmts):
    nbr = g.i(1, 3)
    branches = []
    for _ in range(nbr):
        cond = log_expr(g, env, 2)
        empty = g.p.get('empty_branches', True) and g.chance(8)
        branches.append([cond, [] if empty else gen_body(g, env, depth + 1, max(1, nstmts // 2))])
    els = gen_body(g, env, depth + 1, max(1, nstmts // 2)) if g.chance(50) else None
    return ['if', branches, els]


def gen_select(g, env, depth, nstmts):
    sel = ['f', 'modulo', [int_expr(g, env, 2), ['i', 7]], {}] if g.chance(70) else int_expr(g, env, 1)
    used = set()
    cases = []
    for _ in range(g.i(1, 3)):
        items = []
        for _ in range(g.i(1, 2)):
            if g.chance(30):
                lo = g.i(-2, 8)
                hi = lo + g.i(1, 2)
                if any(x in used for x in range(lo, hi + 1)):
                    continue
                used.update(range(lo, hi + 1))
                items.append(['rng', lit(lo), lit(hi), None])
            else:
                v = g.i(-2, 9)
                if v in used:
                    continue
                used.add(v)
                items.append(lit(v))
        if items:
            # (an empty CASE body is valid Fortran; backends/transformers must keep the branch in place)
            empty = g.p.get('empty_branches', True) and g.chance(25)
            cases.append([items, [] if empty else gen_body(g, env, depth + 1, max(1, nstmts // 2))])
    if not cases:
        cases.append([[lit(min(set(range(-3, 12)) - used))], gen_body(g, env, depth + 1, 1)])
    default = gen_body(g, env, depth + 1, 1) if g.chance(60) else None
    return ['select', sel, cases, default]


def mask_expr(g, env, anchor, extents, depth):
    """logical array expression conformable with extents; every leaf compares a section of ``anchor``"""
    t = env.vars[anchor]['type']
    if depth <= 0 or g.chance(50):
        lhs = section_of(g, env, anchor, extents, allow_stride=False)
        rhs = arr_expr(g, env, t, extents, 1) if g.chance(40) else expr_of(g, env, t, 1)
        if g.chance(30):
            lhs, rhs = rhs, lhs
        return ['b', g.pick(['<', '>', '<=', '>=', '==', '/='] if t == 'int' else ['<', '>', '<=', '>=']), lhs, rhs]
    c = g.pick(['and', 'or', 'not'])
    if c == 'not':
        return ['u', '.not.', mask_expr(g, env, anchor, extents, depth - 1)]
    return ['b', '.' + c + '.', mask_expr(g, env, anchor, extents, depth - 1), mask_expr(g, env, anchor, extents, depth - 1)]


def gen_where(g, env):
    arrs = env.arrays('int', writable=True) + env.arrays('real', writable=True)
    if not arrs:
        return None
    n = g.pick(arrs)
    v = env.vars[n]
    t = v['type']
    extents = []
    for dd in v['dims']:
        lb, ubmin = dim_range(dd)
        extents.append(g.i(1, ubmin - lb + 1))

    # the blocks of one WHERE construct may assign different (conformable) arrays
    cands = [a for a in arrs if len(env.vars[a]['dims']) == len(v['dims'])
             and all(dim_range(d2)[1] - dim_range(d2)[0] + 1 >= e for d2, e in zip(env.vars[a]['dims'], extents))]

    def one_assign():
        tgt = g.pick(cands) if cands and g.p.get('where_multi_target', True) and g.chance(50) else n
        lhs = section_of(g, env, tgt, extents, allow_stride=False)
        return ['assign', lhs, arr_expr(g, env, env.vars[tgt]['type'], extents, 2)]

    mask = mask_expr(g, env, n, extents, 1)
    if g.chance(30):
        return ['where1', mask, one_assign()]
    lo_n = 0 if g.p.get('empty_branches', True) and g.chance(15) else 1
    blocks = [[mask, [one_assign() for _ in range(g.i(lo_n, 2))]]]
    if g.chance(40):
        blocks.append([mask_expr(g, env, n, extents, 0), [one_assign()] if not (lo_n == 0 and g.chance(30)) else []])
    if g.chance(50):
        blocks.append([None, [one_assign()]])
    return ['where', blocks]


def gen_while(g, env, depth, nstmts):
    fuel = [n for n in env.scalars('int', writable=True) if env.vars[n].get('fuel') and not env.vars[n].get('busy')]
    if not fuel:
        return None
    w = fuel[0]
    env.vars[w]['busy'] = True
    env.vars[w]['ro'] = True
    body = gen_body(g, env, depth + 1, max(1, nstmts - 1))
    env.vars[w]['ro'] = False
    env.vars[w]['busy'] = False
    body.append(['assign', var(w), ['b', '-', var(w), ['i', 1]]])
    cond = ['b', '>', var(w), ['i', 0]]
    if g.chance(50):
        cond = ['b', '.and.', cond, log_expr(g, env, 1)]
    return [['assign', var(w), ['i', g.i(1, 4)]], ['while', cond, body]]


def gen_call(g, env):
    if not env.subs:
        return None
    s = g.pick(env.subs)
    args = []
    used_w = set()
    for (t, dims, intent, nm) in s['args']:
        if dims:
            # whole arrays with identical declared dims only
            c = [a for a in env.arrays(t, writable=(intent != 'in')) if env.vars[a]['dims'] == dims
                 and a not in used_w and not env.vars[a].get('path')]
            if not c:
                return None
            a = g.pick(c)
            used_w.add(a)
            args.append(var(a))
        elif intent == 'in':
            args.append(expr_of(g, env, t, 2))
        else:
            c = [a for a in env.scalars(t, writable=True) if a not in used_w and not env.vars[a].get('fuel')]
            if not c:
                return None
            a = g.pick(c)
            used_w.add(a)
            args.append(designator_for(env, a))
    # arguments read by expression must not alias written ones: drop expressions mentioning written vars
    def mentions(e, names):
        if isinstance(e, list):
            if e and e[0] == 'd':
                if e[1][0][0] in names:
                    return True
                return any(mentions(x, names) for part in e[1] for x in (part[1] or []))
            return any(mentions(x, names) for x in e)
        if isinstance(e, dict):
            return any(mentions(x, names) for x in e.values())
        return False
    for i, (t, dims, intent, nm) in enumerate(s['args']):
        if intent == 'in' and mentions(args[i], used_w):
            args[i] = lit(g.i(0, 5)) if t == 'int' else (['r', '1.5'] if t == 'real' else ['l', True])
            if dims:
                return None
    if g.chance(20) and s['args']:
        # keyword form for trailing arguments
        k = g.i(1, len(args))
        kws = {s['args'][j][3]: args[j] for j in range(len(args) - k, len(args))}
        return ['call', s['name'], args[:len(args) - k], kws]
    return ['call', s['name'], args, {}]


def gen_print(g, env):
    items = [['s', g.pick(['val', 'x =', "it's", 'a;b', 'end do', '! no comment', 'call foo(1)'])]]
    for _ in range(g.i(1, 2)):
        t = g.pick(['int', 'int', 'real', 'logical'])
        items.append(expr_of(g, env, t, 1))
    return ['print', items]


LONG_STR_PIECES = ["didn't", 'say "hi"', "it''s", 'a & b', "o'clock ", ' ! x ', '"q" and \'p\'', 'plain text', "'", '"',
                   'x = y + 1', "end 'do'", 'tab;semi', "can't \"won't\""]


def gen_longline(g, env):
    """a statement that the backend must wrap (> 132 columns) and that consists of string literals containing
    quote characters of both kinds: PRINT (item-wise wrapping) or a one-line IF around it (one long item)"""
    items = []
    total = 0
    while total < g.i(110, 190):
        txt = ''.join(g.pick(LONG_STR_PIECES) for _ in range(g.i(1, 4)))
        items.append(['s', txt, g.pick(["'", '"'])])
        total += len(txt) + 4
    if g.chance(40):
        items.insert(g.i(0, len(items)), int_expr(g, env, 1))
    pr = ['print', items]
    if g.chance(50):
        return ['if1', log_expr(g, env, 1), pr]
    return pr


def gen_stmt(g, env, depth, nstmts, in_loop=False):
    if g.p.get('print') and g.p.get('longlines', True) and g.chance(4):
        return [gen_longline(g, env)]
    kinds = ['assign'] * 6
    if depth < g.p['max_depth']:
        kinds += ['do'] * 3 + ['if'] * 3
        if g.p.get('select'):
            kinds += ['select']
        if g.p.get('while'):
            kinds += ['while']
    if g.p.get('where'):
        kinds += ['where']
    if g.p.get('calls'):
        kinds += ['call'] * 2
    if g.p.get('print'):
        kinds += ['print']
    if g.p.get('if1'):
        kinds += ['if1']
    if g.p.get('comments'):
        kinds += ['comment']
    if env.named_loops and g.p.get('named_exit', True) and g.chance(18):
        # EXIT/CYCLE with the construct name of an enclosing named DO (not necessarily the innermost one)
        return [['if1', log_expr(g, env, 2), [g.pick(['cycle', 'exit']), ['loop', g.pick(env.named_loops)]]]]
    c = g.pick(kinds)
    r = None
    if c == 'assign':
        r = gen_assign(g, env)
    elif c == 'do':
        r = gen_do(g, env, depth, nstmts)
    elif c == 'if':
        r = gen_if(g, env, depth, nstmts)
    elif c == 'select':
        r = gen_select(g, env, depth, nstmts)
    elif c == 'while':
        r = gen_while(g, env, depth, nstmts)
        if r is not None:
            return r
    elif c == 'where':
        r = gen_where(g, env)
    elif c == 'call':
        r = gen_call(g, env)
    elif c == 'print':
        r = gen_print(g, env)
    elif c == 'if1':
        a = gen_assign(g, env)
        if a is not None:
            if in_loop and g.chance(15):
                a = [g.pick(['cycle', 'exit'])]
                if env.named_loops and g.p.get('named_exit', True) and g.chance(50):
                    # EXIT/CYCLE with the construct name of an enclosing named DO (not necessarily the innermost)
                    a.append(['loop', g.pick(env.named_loops)])
            r = ['if1', log_expr(g, env, 2), a]
    elif c == 'comment':
        r = ['comment', g.pick([' plain comment', ' call foo(x)', " it's; a = 1", ' end subroutine', '$ not pragma', ' x = __LINE__'])]
    if r is None:
        r = gen_assign(g, env)
    if r is None:
        r = ['comment', ' nothing to assign']
    return [r]


def gen_body(g, env, depth, nstmts, in_loop=False, loop_runs_to_n=False):
    out = []
    for _ in range(g.i(1, max(1, nstmts))):
        out += gen_stmt(g, env, depth, nstmts, in_loop=in_loop)
    return out


# ------------------------------------------------------------------ routines
def init_value(g, t):
    if t == 'int':
        return lit(g.i(-5, 9))
    if t == 'real':
        return ['r', g.pick(DYADIC)] if g.chance(80) else ['u', '-', ['r', g.pick(DYADIC)]]
    return ['l', g.chance(50)]


def declare_locals(g, env, decls, prologue, nscal=(2, 4), narr=(1, 3), prefix='l'):
    for t, tag in (('int', 'i'), ('real', 'r'), ('logical', 'b')):
        lo, hi = nscal if t != 'logical' else (0, 2)
        if t == 'logical' and not g.p.get('logic'):
            continue
        for k in range(g.i(lo, hi)):
            nm = f'{prefix}{tag}{k}'
            decls.append(decl(nm, t))
            env.vars[nm] = {'type': t, 'dims': None}
            prologue.append(['assign', var(nm), init_value(g, t)])
    for k in range(g.i(*narr)):
        t = g.pick(['int', 'real', 'real'])
        nm = f'{prefix}{"ia" if t == "int" else "ra"}{k}'
        rank = 2 if g.p.get('array2d') and g.chance(30) else 1
        dims = []
        for _ in range(rank):
            lb = g.pick([1, 1, 1, 0, 2, -1])
            ext = g.i(3, 5) if rank == 1 else g.i(2, 3)
            dims.append([lb, lb + ext - 1])
        decls.append(decl(nm, t, dims=dims))
        env.vars[nm] = {'type': t, 'dims': dims}
        prologue.append(['assign', var(nm), init_value(g, t)])
    # loop variables and while fuel
    for k in range(3):
        nm = f'{prefix}j{k}'
        decls.append(decl(nm, 'int'))
        env.loopvars.append(nm)
    if g.p.get('while'):
        nm = f'{prefix}w'
        decls.append(decl(nm, 'int'))
        env.vars[nm] = {'type': 'int', 'dims': None, 'fuel': True}
        prologue.append(['assign', var(nm), ['i', 0]])


def gen_helper_function(g, idx, menv):
    """small side-effect free function of scalar arguments"""
    rtype = g.pick(['int', 'real'])
    nargs = g.i(1, 3)
    env = Env()
    env.funcs = []
    args, decls = [], []
    argtypes = []
    for k in range(nargs):
        t = g.pick(['int', 'real'])
        nm = f'fa{k}'
        args.append(nm)
        decls.append(decl(nm, t, intent='in'))
        env.vars[nm] = {'type': t, 'dims': None, 'ro': True}
        argtypes.append(t)
    name = f'hfun{idx}'
    res = f'res{idx}' if g.chance(50) else None
    rname = res or name
    decls.append(decl(rname, rtype))
    decls.append(decl('ft', rtype))
    sub = dict(g.p)
    sub.update(functions=False, calls=False, where=False, print=False, sections=False)
    sub['while'] = False
    g2 = G(g.draw, sub)
    body = [['assign', var('ft'), expr_of(g2, env, rtype, 2)]]
    env.vars['ft'] = {'type': rtype, 'dims': None}
    if g.chance(40):
        # generated BEFORE the result variable enters the environment: the IF precedes the first
        # assignment of the result, so it must not read it (reading an undefined variable is UB)
        body.append(['if', [[log_expr(g2, env, 1), [['assign', var('ft'), expr_of(g2, env, rtype, 1)]]]], None])
    body.append(['assign', var(rname), expr_of(g2, env, rtype, 2)])
    env.vars[rname] = {'type': rtype, 'dims': None}
    body.append(['assign', var(rname), ['b', '+', var(rname), var('ft')]])
    r = routine(name, args, decls, body, kind='function', result=res)
    if g.chance(30):
        r['prefix'] = ['pure']
    if res is None:
        # result declared through the function name
        pass
    return r, {'name': name, 'args': argtypes, 'rtype': rtype}


def gen_helper_sub(g, idx, funcs, arr_shapes):
    """subroutine with scalar in args, one inout/out scalar and optionally an array argument"""
    env = Env()
    env.funcs = list(funcs)
    args, decls, sig = [], [], []
    prologue = []
    for k in range(g.i(1, 2)):
        t = g.pick(['int', 'real'])
        nm = f'sa{k}'
        args.append(nm)
        decls.append(decl(nm, t, intent=None if g.p.get('intent_none') and g.chance(30) else 'in'))
        env.vars[nm] = {'type': t, 'dims': None, 'ro': True}
        sig.append((t, None, 'in', nm))
    t = g.pick(['int', 'real'])
    intent = g.pick(['inout', 'out', 'inout'])
    args.append('so')
    decls.append(decl('so', t, intent=None if g.p.get('intent_none') and intent == 'inout' and g.chance(40) else intent))
    env.vars['so'] = {'type': t, 'dims': None}
    sig.append((t, None, intent, 'so'))
    if intent == 'out':
        prologue.append(['assign', var('so'), init_value(g, t)])
    arr_shapes = [(at_, dd) for at_, dd in arr_shapes if all(x[1] != 'n' for x in dd)]
    if arr_shapes and g.chance(60):
        at, dims = g.pick(arr_shapes)
        args.append('sarr')
        decls.append(decl('sarr', at, dims=[list(d) for d in dims],
                          intent=None if g.p.get('intent_none') and g.chance(30) else 'inout'))
        env.vars['sarr'] = {'type': at, 'dims': [list(d) for d in dims]}
        sig.append((at, [list(d) for d in dims], 'inout', 'sarr'))
    sub = dict(g.p)
    sub.update(calls=False, print=False, max_depth=2, max_stmts=4)
    g2 = G(g.draw, sub)
    declare_locals(g2, env, decls, prologue, nscal=(1, 2), narr=(0, 1), prefix='s')
    body = prologue + gen_body(g2, env, 1, 4)
    name = f'hsub{idx}'
    return routine(name, args, decls, body), {'name': name, 'args': sig}


def gen_entry(g, env, funcs, subs, arr_decls):
    """entry routine 'kernel' with n + generated in/out args"""
    args = ['n']
    decls = [decl('n', 'int', intent='in')]
    env.vars['n'] = {'type': 'int', 'dims': None, 'ro': True}
    entry_args = [decl('n', 'int', intent='in')]
    prologue = []
    for t, tag in (('int', 'i'), ('real', 'r')):
        for k in range(g.i(1, 2)):
            nm = f'x{tag}{k}'
            d = decl(nm, t, intent='in')
            args.append(nm)
            decls.append(d)
            entry_args.append(d)
            env.vars[nm] = {'type': t, 'dims': None, 'ro': True}
        for k in range(g.i(1, 2)):
            nm = f'y{tag}{k}'
            intent = g.pick(['inout', 'out'])
            d = decl(nm, t, intent=intent)
            args.append(nm)
            decls.append(d)
            entry_args.append(d)
            env.vars[nm] = {'type': t, 'dims': None}
            if intent == 'out':
                prologue.append(['assign', var(nm), init_value(g, t)])
    if g.p.get('logic') and g.chance(50):
        d = decl('xb0', 'logical', intent='in')
        args.append('xb0')
        decls.append(d)
        entry_args.append(d)
        env.vars['xb0'] = {'type': 'logical', 'dims': None, 'ro': True}
    # arrays: one intent(in) and one/two inout, dims from arr_decls (shared shapes so helper subs can take them)
    for k, (t, dims, intent) in enumerate(arr_decls):
        nm = f'z{"i" if t == "int" else "r"}{k}'
        d = decl(nm, t, dims=[list(x) for x in dims], intent=intent)
        args.append(nm)
        decls.append(d)
        entry_args.append(d)
        env.vars[nm] = {'type': t, 'dims': [list(x) for x in dims], 'ro': intent == 'in'}
        if intent == 'out':
            prologue.append(['assign', var(nm), init_value(g, t)])
    env.funcs = list(funcs)
    env.subs = list(subs)
    declare_locals(g, env, decls, prologue)
    return args, decls, entry_args, prologue


def gen_inputs(g, entry_args, nvec=4):
    vecs = []
    for _ in range(nvec):
        n = g.i(3, NMAX)
        vec = {'n': n}
        for d in entry_args[1:]:
            if d['intent'] == 'out':
                continue
            t = d['type']

            def val():
                if t == 'int':
                    return g.i(-9, 9)
                if t == 'real':
                    return g.i(-24, 24) / 8.0
                return g.chance(50)
            if d['dims']:
                cnt = 1
                for lb, ub in d['dims']:
                    cnt *= ((n if ub == 'n' else ub) - lb + 1)
                vec[d['name']] = [val() for _ in range(cnt)]
            else:
                vec[d['name']] = val()
        vecs.append(vec)
    return vecs


def gen_layout(g, mode='full'):
    if mode == 'plain':
        return {'stream': [0], 'indent': 2}
    stream = [g.i(0, 1000) for _ in range(g.i(4, 24))]
    L = {
        'stream': stream,
        'kwcase': g.pick(['lower', 'upper', 'mixed']),
        'idcase': g.pick(['lower', 'lower', 'upper', 'mixed']),
        'indent': g.i(0, 4),
        'relop': g.pick(['sym', 'dot', 'mixed']),
        'endjoin': g.chance(40),
        'cont': g.pick([0, 0, 1, 2, 3]),
        'contlead': g.chance(40),
        'semi': g.chance(30) if mode == 'full' else False,
        'blank': g.chance(40),
        'comments': g.chance(40),
        'trailing': g.chance(30),
        'dimattr': g.chance(40),
        'realfmt': g.pick(['kind', 'd', 'mixed']),
        'spaces': g.i(0, 2),
        'maxlen': g.pick([60, 80, 100, 120]),
        'dcolon': g.chance(80),
    }
    return L


@st.composite
def cases(draw, prof=None, layout_mode=None, nvec=4):
    prof = prof or DEFAULT_PROFILE
    g = G(draw, prof)
    # shared array shapes (so that helper subroutines can receive entry arrays)
    arr_decls = []
    for k in range(g.i(2, 3)):
        t = g.pick(['int', 'real', 'real'])
        if g.chance(50):
            dims = [[1, 'n']]
        elif g.p.get('array2d') and g.chance(35):
            dims = [[g.pick([1, 0]), 3], [1, g.pick([2, 3])]]
            dims[0][1] = dims[0][0] + 2
        else:
            lb = g.pick([1, 0, 2, -1])
            dims = [[lb, lb + g.i(3, 5) - 1]]
        intent = 'in' if k == 0 else g.pick(['inout', 'inout', 'out'])
        arr_decls.append((t, dims, intent))
    shapes = [(t, dims) for t, dims, _ in arr_decls]
    funcs_r, funcs = [], []
    if prof.get('functions'):
        for k in range(g.i(0, prof.get('n_helpers', 2))):
            r, sig = gen_helper_function(g, k, None)
            funcs_r.append(r)
            funcs.append(sig)
    subs_r, subs = [], []
    if prof.get('calls'):
        for k in range(g.i(0, prof.get('n_helpers', 2))):
            r, sig = gen_helper_sub(g, k, funcs, shapes)
            subs_r.append(r)
            subs.append(sig)
    env = Env()
    args, decls, entry_args, prologue = gen_entry(g, env, funcs, subs, arr_decls)
    mdecls = []
    if prof.get('params'):
        for k in range(g.i(0, 2)):
            nm = f'kp{k}'
            mdecls.append(decl(nm, 'int', param=lit(g.i(1, 6))))
            env.vars[nm] = {'type': 'int', 'dims': None, 'ro': True}
    internal = []
    if prof.get('internal') and g.chance(40):
        # an internal subroutine that updates a host scalar through its argument and reads host variables
        ienv = Env()
        ienv.vars = {k: dict(v, ro=True) for k, v in env.vars.items() if not v.get('fuel')}
        ienv.funcs = list(funcs)
        t = g.pick(['int', 'real'])
        ienv.vars['ia0'] = {'type': t, 'dims': None}
        sub = dict(g.p)
        sub.update(calls=False, print=False, where=False, max_depth=1)
        sub['while'] = False
        g2 = G(draw, sub)
        ibody = [['assign', var('ia0'), expr_of(g2, ienv, t, 2)]]
        if g.chance(50):
            ibody.append(['if', [[log_expr(g2, ienv, 1), [['assign', var('ia0'), expr_of(g2, ienv, t, 1)]]]], None])
        internal.append(routine('inner0', ['ia0'], [decl('ia0', t, intent='inout')], ibody))
        env.subs.append({'name': 'inner0', 'args': [(t, None, 'inout', 'ia0')]})
    body = prologue + gen_body(g, env, 0, prof['max_stmts'])
    kern = routine('kernel', args, decls, body, contains=internal)
    mod = module('kmod', routines=funcs_r + subs_r + [kern], decls=mdecls)
    f = {'name': 'kmod.f90', 'units': [['module', mod]]}
    inputs = gen_inputs(g, entry_args, nvec)
    layout = gen_layout(g, layout_mode or prof.get('layout', 'full'))
    return {'files': [f], 'entry': {'module': 'kmod', 'name': 'kernel', 'args': entry_args},
            'inputs': inputs, 'layout': layout}
