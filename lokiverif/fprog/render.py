"""
Render FProg (see model.py) to free-form Fortran text under a generated *layout*,
returning the text and a line map (statement path -> physical line span).

Layout (JSON dict; every key optional):
    kwcase: 'lower'|'upper'|'mixed'       idcase: 'lower'|'upper'|'mixed'
    indent: 0..4                          relop: 'sym'|'dot'|'mixed'
    endjoin: bool  (ENDDO / ENDIF ...)    cont: 0..3 (0 = only when needed, 3 = break often)
    contlead: bool (leading & on continuation lines)      semi: bool (join simple statements with ';')
    blank: bool (blank lines)             comments: bool (decoy comments between statements)
    trailing: bool (trailing comments)    dimattr: bool (dimension(...) attribute instead of name(...))
    realfmt: 'kind'|'d'|'mixed'           spaces: 0..2 (operator spacing style)
    maxlen: hard limit before a forced continuation (default 100)
    dcolon: bool (use '::' wherever optional)
    stream: [ints] choice stream consumed cyclically for per-token choices
No RNG: all variation comes from the layout value.
"""
from .model import PREC, REL_DOT, pathstr

KW, ID, NUM, STR, OP, PUNCT, CMT = 'kw', 'id', 'num', 'str', 'op', 'punct', 'cmt'

DECOYS = [
    'call subroutine end do', "if (x) then; 'quoted' end if", 'use module, only: x => y', 'type :: t ! nested',
    'a = b & c', 'end subroutine foo', '$loki not a pragma', 'interface; function f(x)', 'DO 10 I=1,N', "it's",
]


class Chooser:
    def __init__(self, stream):
        self.s = list(stream) or [0]
        self.i = 0

    def pick(self, n):
        if n <= 1:
            return 0
        v = self.s[self.i % len(self.s)] % n
        self.i += 1
        return v

    def chance(self, num, den):
        return self.pick(den) < num


class T:
    """token: text, kind, pre = whitespace preferred before it"""
    __slots__ = ('t', 'k', 'pre')

    def __init__(self, t, k, pre=''):
        self.t, self.k, self.pre = t, k, pre


def quote(s, q="'"):
    return q + s.replace(q, q + q) + q


class Renderer:
    def __init__(self, layout=None):
        self.L = dict(layout or {})
        self.ch = Chooser(self.L.get('stream') or [0])
        self.lines = []
        self.linemap = {}
        self.label_counter = 100
        self.unit_spans = {}

    # ------------------------------------------------------------ tokens
    def kw(self, text, pre=' '):
        return T(text, KW, pre)

    def _case(self, text, mode):
        if mode == 'upper':
            return text.upper()
        if mode == 'mixed':
            c = self.ch.pick(3)
            return text.upper() if c == 0 else (text.capitalize() if c == 1 else text.lower())
        return text.lower()

    def tok_text(self, tok):
        if tok.k == KW:
            return self._case(tok.t, self.L.get('kwcase', 'lower'))
        if tok.k == ID:
            return self._case(tok.t, self.L.get('idcase', 'lower'))
        return tok.t

    # ------------------------------------------------------------ expressions
    def real_text(self, txt):
        mode = self.L.get('realfmt', 'kind')
        if mode == 'mixed':
            mode = ('kind', 'd')[self.ch.pick(2)]
        if '.' not in txt and 'e' not in txt.lower():
            txt = txt + '.0'
        if mode == 'd':
            if 'e' in txt.lower():
                return txt.lower().replace('e', 'd')
            return txt + 'd0'
        return txt + '_8'

    def expr(self, e):
        """returns (tokens, prec, is_unary_leading)"""
        k = e[0]
        if k == 'i':
            return [T(str(e[1]), NUM)], 99, False
        if k == 'r':
            return [T(self.real_text(e[1]), NUM)], 99, False
        if k == 'l':
            return [T('.true.' if e[1] else '.false.', KW)], 99, False
        if k == 's':
            q = "'" if (len(e) < 3 or e[2] != '"') else '"'
            return [T(quote(e[1], q), STR)], 99, False
        if k == 'd':
            return self.designator(e), 99, False
        if k == 'p':
            toks, _, _ = self.expr(e[1])
            return [T('(', PUNCT)] + toks + [T(')', PUNCT)], 99, False
        if k == 'f':
            toks = [T(e[1], ID), T('(', PUNCT)]
            first = True
            for a in e[2]:
                if not first:
                    toks.append(T(',', PUNCT))
                at, _, _ = self.expr(a)
                if not first:
                    at[0].pre = ' '
                toks += at
                first = False
            for kname, a in sorted((e[3] if len(e) > 3 and e[3] else {}).items()):
                if not first:
                    toks.append(T(',', PUNCT))
                toks += [T(kname, ID, '' if first else ' '), T('=', OP)]
                toks += self.expr(a)[0]
                first = False
            toks.append(T(')', PUNCT))
            return toks, 99, False
        if k == 'rng':
            toks = []
            if e[1] is not None:
                toks += self.expr(e[1])[0]
            toks.append(T(':', PUNCT))
            if e[2] is not None:
                toks += self.expr(e[2])[0]
            if len(e) > 3 and e[3] is not None:
                toks.append(T(':', PUNCT))
                toks += self.expr(e[3])[0]
            return toks, 0, False
        if k == 'u':
            op = e[1]
            if op == '-' or op == '+':
                ot, op_prec, un = self.expr(e[2])
                if op_prec < 9 or un:
                    ot = self.paren(ot)
                return [T(op, OP)] + ot, 7, True
            ot, op_prec, un = self.expr(e[2])
            if op_prec <= 4:
                ot = self.paren(ot)
            ot[0].pre = ' '
            return [T('.not.', KW)] + ot, 4, False
        if k == 'b':
            op = e[1]
            P = PREC[op]
            lt, lp, lu = self.expr(e[2])
            rt, rp, ru = self.expr(e[3])
            # left operand
            need_l = lp < P or (lp == P and (op == '**' or P == 5))
            if lu and not (P <= 7):
                need_l = True
            # right operand
            need_r = rp < P or (rp == P and op != '**')
            if P == 5 and rp == 5:
                need_r = True
            if op in ('+', '*') and rp == P and not ru and self.L.get('assoc_flat') is True:
                need_r = need_r  # never flatten: grouping is part of the program (fp rounding / int division)
            if ru and P >= 7:
                need_r = True
            if P == 1 and lp == 1:
                need_l = False
            if need_l:
                lt = self.paren(lt)
            if need_r:
                rt = self.paren(rt)
            optext = op
            if op in REL_DOT:
                mode = self.L.get('relop', 'sym')
                if mode == 'mixed':
                    mode = ('sym', 'dot')[self.ch.pick(2)]
                if mode == 'dot':
                    optext = REL_DOT[op]
            sp = self.L.get('spaces', 1)
            dotted = optext.startswith('.')
            if dotted or sp == 2 or (sp == 1 and op not in ('*', '**', '/')):
                pre = ' '
            else:
                pre = ''
            optok = T(optext, KW if dotted else OP, pre)
            rt[0].pre = pre
            return lt + [optok] + rt, P, False
        raise ValueError(f'unknown expression {e!r}')

    def paren(self, toks):
        toks[0].pre = ''
        return [T('(', PUNCT)] + toks + [T(')', PUNCT)]

    def designator(self, e):
        toks = []
        for i, (name, subs) in enumerate(e[1]):
            if i:
                toks.append(T('%', PUNCT))
            toks.append(T(name, ID))
            if subs is not None:
                toks.append(T('(', PUNCT))
                for j, s in enumerate(subs):
                    if j:
                        toks.append(T(',', PUNCT))
                    st = self.expr(s)[0]
                    if j:
                        st[0].pre = ' '
                    toks += st
                toks.append(T(')', PUNCT))
        return toks

    # ------------------------------------------------------------ line emission
    def emit(self, toks, level, path=None, trailing=None):
        """emit one logical line made of tokens at indentation level; returns (first, last) line numbers"""
        ind = ' ' * (self.L.get('indent', 2) * level)
        maxlen = self.L.get('maxlen', 100)
        cont = self.L.get('cont', 0)
        lead = self.L.get('contlead', False)
        cur = ind
        first_line = len(self.lines) + 1
        first = True
        ntok = len(toks)
        for i, tk in enumerate(toks):
            text = self.tok_text(tk)
            piece = ('' if first else tk.pre) + text
            brk = False
            if not first:
                if len(cur) + len(piece) + 2 > maxlen:
                    brk = True
                elif cont and i > 1 and i < ntok and self.ch.pick(24 // (cont * cont + 1) + 2) == 0:
                    brk = True
                # never break between a sign/'%' and its neighbour: legal but pointless; keep '(' attached to names
            if brk:
                self.lines.append(cur + ' &')
                cur = ind + ' ' * 3 + ('& ' if lead else '')
                piece = text
            cur += piece
            first = False
        if trailing:
            cur += ' ! ' + trailing
        self.lines.append(cur)
        last_line = len(self.lines)
        if path is not None:
            self.linemap.setdefault(pathstr(path), {})['span'] = [first_line, last_line]
        return first_line, last_line

    def raw(self, text):
        self.lines.append(text)

    def maybe_decor(self, level):
        if self.L.get('blank') and self.ch.pick(6) == 0:
            self.lines.append('')
        if self.L.get('comments') and self.ch.pick(5) == 0:
            ind = ' ' * (self.L.get('indent', 2) * level)
            self.lines.append(ind + '! ' + DECOYS[self.ch.pick(len(DECOYS))])

    def endkw(self, a, b):
        if self.L.get('endjoin'):
            return [self.kw(a + b, '')]
        return [self.kw(a, ''), self.kw(b)]

    # ------------------------------------------------------------ declarations
    def type_tokens(self, tp):
        if tp == 'int':
            return [self.kw('integer', '')]
        if tp == 'real':
            c = self.ch.pick(2) if self.L.get('realfmt') == 'mixed' else 0
            if c == 0:
                return [self.kw('real', ''), T('(', PUNCT), self.kw('kind', ''), T('=', OP), T('8', NUM), T(')', PUNCT)]
            return [self.kw('real', ''), T('(', PUNCT), T('8', NUM), T(')', PUNCT)]
        if tp == 'real4':
            return [self.kw('real', '')]
        if tp == 'logical':
            return [self.kw('logical', '')]
        if tp.startswith('char:'):
            return [self.kw('character', ''), T('(', PUNCT), self.kw('len', ''), T('=', OP), T(tp[5:], NUM), T(')', PUNCT)]
        if tp.startswith('type:'):
            return [self.kw('type', ''), T('(', PUNCT), T(tp[5:], ID), T(')', PUNCT)]
        if tp.startswith('class:'):
            return [self.kw('class', ''), T('(', PUNCT), T(tp[6:], ID), T(')', PUNCT)]
        if tp.startswith('raw:'):
            return [T(tp[4:], PUNCT)]
        raise ValueError(tp)

    def bound_tokens(self, b):
        if isinstance(b, int):
            return self.expr(['i', b] if b >= 0 else ['u', '-', ['i', -b]])[0]
        if b == ':' or b == '*':
            return [T(b, PUNCT)]
        if isinstance(b, str):
            return [T(b, ID)]
        return self.expr(b)[0]

    def dims_tokens(self, dims):
        toks = [T('(', PUNCT)]
        for i, d in enumerate(dims):
            if i:
                toks.append(T(',', PUNCT))
            lb, ub = d
            if ub == ':' and (lb is None or lb == ':'):
                dt = [T(':', PUNCT)]
            elif ub == ':':
                dt = self.bound_tokens(lb) + [T(':', PUNCT)]
            elif lb is None or lb == 1 and not self.L.get('explicit_lb'):
                dt = self.bound_tokens(ub)
            else:
                dt = self.bound_tokens(lb) + [T(':', PUNCT)] + self.bound_tokens(ub)
            if i:
                dt[0].pre = ' '
            toks += dt
        toks.append(T(')', PUNCT))
        return toks

    def decl_tokens(self, d):
        toks = self.type_tokens(d['type'])
        attrs = []
        if d.get('param') is not None:
            attrs.append([self.kw('parameter')])
        if d.get('alloc'):
            attrs.append([self.kw('allocatable')])
        if d.get('pointer'):
            attrs.append([self.kw('pointer')])
        if d.get('target'):
            attrs.append([self.kw('target')])
        if d.get('save'):
            attrs.append([self.kw('save')])
        if d.get('intent'):
            attrs.append([self.kw('intent'), T('(', PUNCT), self.kw(d['intent'], ''), T(')', PUNCT)])
        if d.get('optional'):
            attrs.append([self.kw('optional')])
        dimattr = d.get('dims') and self.L.get('dimattr') and self.ch.pick(2) == 0
        if dimattr:
            attrs.append([self.kw('dimension')] + self.dims_tokens(d['dims']))
        for a in attrs:
            toks.append(T(',', PUNCT))
            toks += a
        if attrs or self.L.get('dcolon', True) or d.get('param') is not None or d.get('init') is not None:
            toks.append(T('::', PUNCT, ' '))
        toks.append(T(d['name'], ID, ' '))
        if d.get('dims') and not dimattr:
            toks += self.dims_tokens(d['dims'])
        val = d.get('param') if d.get('param') is not None else d.get('init')
        if val is not None:
            toks.append(T('=', OP, ' '))
            vt = self.expr(val)[0]
            vt[0].pre = ' '
            toks += vt
        return toks

    # ------------------------------------------------------------ statements
    def stmt_tokens_simple(self, s):
        """tokens of a simple (single-line, non-block) statement, or None"""
        k = s[0]
        if k == 'assign':
            lt = self.designator(s[1])
            rt = self.expr(s[2])[0]
            rt[0].pre = ' '
            return lt + [T('=', OP, ' ')] + rt
        if k == 'ptrassign':
            lt = self.designator(s[1])
            rt = self.expr(s[2])[0]
            rt[0].pre = ' '
            return lt + [T('=>', OP, ' ')] + rt
        if k == 'call':
            toks = [self.kw('call', '')]
            tgt = s[1]
            if isinstance(tgt, str):
                nt = [T(tgt, ID, ' ')]
            else:
                nt = self.designator(tgt)
                nt[0].pre = ' '
            toks += nt
            args = s[2]
            kws = s[3] if len(s) > 3 and s[3] else {}
            if args or kws or self.ch.pick(2) == 0:
                toks.append(T('(', PUNCT))
                first = True
                for a in args:
                    if not first:
                        toks.append(T(',', PUNCT))
                    at = self.expr(a)[0]
                    if not first:
                        at[0].pre = ' '
                    toks += at
                    first = False
                for kn, a in sorted(kws.items()):
                    if not first:
                        toks.append(T(',', PUNCT))
                    toks += [T(kn, ID, '' if first else ' '), T('=', OP)] + self.expr(a)[0]
                    first = False
                toks.append(T(')', PUNCT))
            return toks
        if k == 'print':
            toks = [self.kw('print', ''), T('*', PUNCT, ' ')]
            for it in s[1]:
                toks.append(T(',', PUNCT))
                at = self.expr(it)[0]
                at[0].pre = ' '
                toks += at
            return toks
        if k == 'printf':
            toks = [self.kw('print', ''), T(quote(s[1]), STR, ' ')]
            for it in s[2]:
                toks.append(T(',', PUNCT))
                at = self.expr(it)[0]
                at[0].pre = ' '
                toks += at
            return toks
        if k in ('write', 'read'):
            toks = [self.kw(k, ''), T('(', PUNCT)] + self.expr(s[1])[0] + [T(',', PUNCT), T('*', PUNCT, ' '), T(')', PUNCT)]
            for i, it in enumerate(s[2]):
                if i:
                    toks.append(T(',', PUNCT))
                at = self.expr(it)[0] if k == 'write' else self.designator(it)
                at[0].pre = ' '
                toks += at
            return toks
        if k == 'open':
            toks = [self.kw('open', ''), T('(', PUNCT)]
            for i, (sk, sv) in enumerate(s[1]):
                if i:
                    toks.append(T(',', PUNCT))
                toks += [self.kw(sk, ' ' if i else ''), T('=', OP)] + self.expr(sv)[0]
            toks.append(T(')', PUNCT))
            return toks
        if k == 'close':
            extra = []
            if len(s) > 2 and s[2]:
                for sk, sv in s[2]:
                    extra += [T(',', PUNCT), self.kw(sk), T('=', OP)] + self.expr(sv)[0]
            return [self.kw('close', ''), T('(', PUNCT)] + self.expr(s[1])[0] + extra + [T(')', PUNCT)]
        if k in ('alloc', 'dealloc'):
            toks = [self.kw('allocate' if k == 'alloc' else 'deallocate', ''), T('(', PUNCT)]
            for i, dsg in enumerate(s[1]):
                if i:
                    toks.append(T(',', PUNCT))
                dt = self.designator(dsg)
                if i:
                    dt[0].pre = ' '
                toks += dt
            toks.append(T(')', PUNCT))
            return toks
        if k in ('exit', 'cycle', 'return', 'continue', 'stop'):
            toks = [self.kw(k, '')]
            if len(s) > 1 and s[1]:
                tgt = s[1]
                if isinstance(tgt, list) and tgt[0] == 'loop':
                    # construct name of the enclosing named DO whose variable is tgt[1]
                    names = [nm for v, nm in getattr(self, 'loopstack', []) if v == tgt[1] and nm]
                    if not names:
                        raise ValueError(f'{k} targets a loop over {tgt[1]} that is not an enclosing named DO')
                    tgt = names[-1]
                toks.append(T(tgt, ID, ' '))
            return toks
        if k == 'raw':
            return [T(s[1], PUNCT)]
        return None

    def body(self, stmts, level, path):
        i = 0
        n = len(stmts)
        while i < n:
            s = stmts[i]
            p = path + (i,)
            self.maybe_decor(level)
            k = s[0]
            if k == 'comment':
                ind = ' ' * (self.L.get('indent', 2) * level)
                self.lines.append(ind + '!' + s[1])
                self.linemap.setdefault(pathstr(p), {})['span'] = [len(self.lines), len(self.lines)]
            elif k == 'pragma':
                ind = ' ' * (self.L.get('indent', 2) * level) if self.L.get('indent_pragmas', True) else ''
                self.lines.append(ind + '!$' + s[1])
                self.linemap.setdefault(pathstr(p), {})['span'] = [len(self.lines), len(self.lines)]
            elif k == 'blank':
                self.lines.append('')
            else:
                toks = self.stmt_tokens_simple(s)
                if toks is not None:
                    # optional ';' join with following simple statements
                    if self.L.get('semi') and k in ('assign',) and i + 1 < n and stmts[i + 1][0] == 'assign' \
                            and self.ch.pick(3) == 0:
                        t2 = self.stmt_tokens_simple(stmts[i + 1])
                        t2[0].pre = ' '
                        f, l = self.emit(toks + [T(';', PUNCT)] + t2, level, p)
                        self.linemap.setdefault(pathstr(path + (i + 1,)), {})['span'] = [f, l]
                        self.linemap[pathstr(p)]['shared'] = True
                        self.linemap[pathstr(path + (i + 1,))]['shared'] = True
                        i += 2
                        continue
                    trailing = None
                    if self.L.get('trailing') and self.ch.pick(5) == 0:
                        trailing = DECOYS[self.ch.pick(len(DECOYS))]
                    self.emit(toks, level, p, trailing)
                else:
                    self.block(s, level, p)
            i += 1

    def block(self, s, level, p):
        k = s[0]
        key = pathstr(p)
        start = len(self.lines) + 1
        if k == 'do':
            _, var, lo, hi, step, body, form = s
            hdr = []
            name = None
            label = None
            if form == 'named':
                name = f'loop_{var}_{len(self.lines)}'
                hdr += [T(name, ID), T(':', PUNCT), self.kw('do')]
            else:
                hdr += [self.kw('do', '')]
            if form == 'label':
                self.label_counter += 10
                label = str(self.label_counter)
                hdr.append(T(label, NUM, ' '))
            hdr += [T(var, ID, ' '), T('=', OP, ' ')]
            lt = self.expr(lo)[0]
            lt[0].pre = ' '
            hdr += lt + [T(',', PUNCT)]
            ht = self.expr(hi)[0]
            ht[0].pre = ' '
            hdr += ht
            if step is not None:
                st = self.expr(step)[0]
                st[0].pre = ' '
                hdr += [T(',', PUNCT)] + st
            self.emit(hdr, level, None)
            self.linemap.setdefault(key, {})['header'] = [start, len(self.lines)]
            if not hasattr(self, 'loopstack'):
                self.loopstack = []
            self.loopstack.append((var, name))
            try:
                self.body(body, level + 1, p + ('b',))
            finally:
                self.loopstack.pop()
            if form == 'label':
                self.emit([T(label, NUM), self.kw('continue')], level, None)
            else:
                self.emit(self.endkw('end', 'do') + ([T(name, ID, ' ')] if name else []), level, None)
        elif k == 'while':
            ct = self.expr(s[1])[0]
            self.emit([self.kw('do', ''), self.kw('while'), T('(', PUNCT, ' ')] + ct + [T(')', PUNCT)], level, None)
            self.linemap.setdefault(key, {})['header'] = [start, len(self.lines)]
            self.body(s[2], level + 1, p + ('b',))
            self.emit(self.endkw('end', 'do'), level, None)
        elif k == 'if':
            for j, (cond, body) in enumerate(s[1]):
                ct = self.expr(cond)[0]
                ct[0].pre = ''
                if j == 0:
                    h0 = len(self.lines) + 1
                    self.emit([self.kw('if', ''), T('(', PUNCT, ' ')] + ct + [T(')', PUNCT), self.kw('then')], level, None)
                    self.linemap.setdefault(key, {})['header'] = [h0, len(self.lines)]
                else:
                    ek = [self.kw('elseif', '')] if self.L.get('endjoin') else [self.kw('else', ''), self.kw('if')]
                    self.emit(ek + [T('(', PUNCT, ' ')] + ct + [T(')', PUNCT), self.kw('then')], level, None)
                self.body(body, level + 1, p + (f'c{j}',))
            if s[2] is not None:
                self.emit([self.kw('else', '')], level, None)
                self.body(s[2], level + 1, p + ('e',))
            self.emit(self.endkw('end', 'if'), level, None)
        elif k == 'if1':
            ct = self.expr(s[1])[0]
            ct[0].pre = ''
            inner = self.stmt_tokens_simple(s[2])
            inner[0].pre = ' '
            f, l = self.emit([self.kw('if', ''), T('(', PUNCT, ' ')] + ct + [T(')', PUNCT)] + inner, level, None)
            self.linemap.setdefault(key, {})['header'] = [f, l]
            self.linemap.setdefault(pathstr(p + ('s', 0)), {})['span'] = [f, l]
        elif k == 'select':
            et = self.expr(s[1])[0]
            et[0].pre = ''
            sk = [self.kw('select', ''), self.kw('case')]
            self.emit(sk + [T('(', PUNCT, ' ')] + et + [T(')', PUNCT)], level, None)
            self.linemap.setdefault(key, {})['header'] = [start, len(self.lines)]
            for j, (items, body) in enumerate(s[2]):
                toks = [self.kw('case', ''), T('(', PUNCT, ' ')]
                for m, it in enumerate(items):
                    if m:
                        toks.append(T(',', PUNCT))
                    it_t = self.expr(it)[0]
                    it_t[0].pre = ' ' if m else ''
                    toks += it_t
                toks.append(T(')', PUNCT))
                self.emit(toks, level + 1, None)
                self.body(body, level + 2, p + (f'c{j}',))
            if s[3] is not None:
                self.emit([self.kw('case', ''), self.kw('default')], level + 1, None)
                self.body(s[3], level + 2, p + ('e',))
            self.emit(self.endkw('end', 'select'), level, None)
        elif k == 'where':
            for j, (mask, body) in enumerate(s[1]):
                if j == 0:
                    mt = self.expr(mask)[0]
                    mt[0].pre = ''
                    self.emit([self.kw('where', ''), T('(', PUNCT, ' ')] + mt + [T(')', PUNCT)], level, None)
                    self.linemap.setdefault(key, {})['header'] = [start, len(self.lines)]
                elif mask is not None:
                    mt = self.expr(mask)[0]
                    mt[0].pre = ''
                    self.emit([self.kw('elsewhere', ''), T('(', PUNCT, ' ')] + mt + [T(')', PUNCT)], level, None)
                else:
                    self.emit([self.kw('elsewhere', '')], level, None)
                self.body(body, level + 1, p + (f'c{j}',))
            self.emit(self.endkw('end', 'where'), level, None)
        elif k == 'where1':
            mt = self.expr(s[1])[0]
            mt[0].pre = ''
            inner = self.stmt_tokens_simple(s[2])
            inner[0].pre = ' '
            f, l = self.emit([self.kw('where', ''), T('(', PUNCT, ' ')] + mt + [T(')', PUNCT)] + inner, level, None)
            self.linemap.setdefault(key, {})['header'] = [f, l]
            self.linemap.setdefault(pathstr(p + ('s', 0)), {})['span'] = [f, l]
        elif k == 'assoc':
            toks = [self.kw('associate', ''), T('(', PUNCT, ' ')]
            for j, (nm, ex) in enumerate(s[1]):
                if j:
                    toks.append(T(',', PUNCT))
                toks += [T(nm, ID, ' ' if j else ''), T('=>', OP, ' ')]
                et = self.expr(ex)[0]
                et[0].pre = ' '
                toks += et
            toks.append(T(')', PUNCT))
            self.emit(toks, level, None)
            self.linemap.setdefault(key, {})['header'] = [start, len(self.lines)]
            self.body(s[2], level + 1, p + ('b',))
            self.emit(self.endkw('end', 'associate'), level, None)
        elif k == 'rawblock':
            for ln in s[1]:
                self.lines.append(ln)
        else:
            raise ValueError(f'unknown statement {s!r}')
        self.linemap.setdefault(key, {})['span'] = [start, len(self.lines)]

    # ------------------------------------------------------------ program units
    def use_tokens(self, u):
        toks = [self.kw('use', ''), T(u['module'], ID, ' ')]
        if u.get('only') is not None:
            toks += [T(',', PUNCT), self.kw('only'), T(':', PUNCT)]
            for i, (loc, rem) in enumerate(u['only']):
                if i:
                    toks.append(T(',', PUNCT))
                toks.append(T(loc, ID, ' '))
                if rem:
                    toks += [T('=>', OP, ' '), T(rem, ID, ' ')]
        return toks

    def routine(self, r, level, path):
        start = len(self.lines) + 1
        hdr = []
        for pf in r.get('prefix') or []:
            hdr.append(self.kw(pf, ' ' if hdr else ''))
        if r['kind'] == 'function' and r.get('rtype') and r.get('rtype_in_header'):
            tt = self.type_tokens(r['rtype'])
            tt[0].pre = ' ' if hdr else ''
            hdr += tt
        hdr.append(self.kw(r['kind'], ' ' if hdr else ''))
        hdr.append(T(r['name'], ID, ' '))
        if r['args'] or r['kind'] == 'function' or self.ch.pick(2) == 0:
            hdr.append(T('(', PUNCT))
            for i, a in enumerate(r['args']):
                if i:
                    hdr.append(T(',', PUNCT))
                hdr.append(T(a, ID, ' ' if i else ''))
            hdr.append(T(')', PUNCT))
        if r['kind'] == 'function' and r.get('result'):
            hdr += [self.kw('result'), T('(', PUNCT), T(r['result'], ID), T(')', PUNCT)]
        if r.get('bind'):
            hdr += [T(r['bind'], PUNCT, ' ')]
        self.emit(hdr, level, None)
        for ln in r.get('doc_raw') or []:      # verbatim lines right after the header (leading comments = docstring)
            self.raw(ln)
        for u in r.get('uses') or []:
            self.emit(self.use_tokens(u), level + 1, None)
        if r.get('implicit_none', True):
            self.emit([self.kw('implicit', ''), self.kw('none')], level + 1, None)
        for ln in r.get('spec_raw_pre') or []:
            self.raw(ln)
        for j, d in enumerate(r['decls']):
            self.maybe_decor(level + 1)
            f, l = self.emit(self.decl_tokens(d), level + 1, None)
            self.linemap.setdefault(pathstr(path + ('decl', j)), {})['span'] = [f, l]
        for ln in r.get('spec_raw') or []:
            self.raw(ln)
        for (fname, fargs, fexpr) in r.get('stmtfuncs') or []:
            toks = [T(fname, ID), T('(', PUNCT)]
            for i, a in enumerate(fargs):
                if i:
                    toks.append(T(',', PUNCT))
                toks.append(T(a, ID, ' ' if i else ''))
            et = self.expr(fexpr)[0]
            et[0].pre = ' '
            toks += [T(')', PUNCT), T('=', OP, ' ')] + et
            self.emit(toks, level + 1, None)
        self.body(r['body'], level + 1, path + ('body',))
        if r.get('contains'):
            self.emit([self.kw('contains', '')], level, None)
            for j, c in enumerate(r['contains']):
                self.routine(c, level + 1, path + ('contains', j))
        self.emit(self.endkw('end', r['kind']) if False else [self.kw('end', ''), self.kw(r['kind']), T(r['name'], ID, ' ')], level, None)
        self.unit_spans[pathstr(path)] = [start, len(self.lines)]

    def typedef(self, t, level):
        hdr = [self.kw('type', '')]
        for a in t.get('attrs') or []:
            hdr += [T(',', PUNCT), T(a, PUNCT, ' ')]
        hdr += [T('::', PUNCT, ' '), T(t['name'], ID, ' ')]
        self.emit(hdr, level, None)
        for d in t['comps']:
            self.emit(self.decl_tokens(d), level + 1, None)
        if t.get('procs'):
            self.emit([self.kw('contains', '')], level, None)
            for pr in t['procs']:
                if pr[0] == 'generic':
                    toks = [self.kw('generic', ''), T('::', PUNCT, ' '), T(pr[1], ID, ' '), T('=>', OP, ' ')]
                    for i, tg in enumerate(pr[2]):
                        if i:
                            toks.append(T(',', PUNCT))
                        toks.append(T(tg, ID, ' '))
                else:
                    bnd, tgt = pr[0], pr[1]
                    attrs = pr[2] if len(pr) > 2 else []
                    toks = [self.kw('procedure', '')]
                    for a in attrs:
                        toks += [T(',', PUNCT), T(a, PUNCT, ' ')]
                    toks += [T('::', PUNCT, ' '), T(bnd, ID, ' ')]
                    if tgt and tgt != bnd:
                        toks += [T('=>', OP, ' '), T(tgt, ID, ' ')]
                self.emit(toks, level + 1, None)
        self.emit([self.kw('end', ''), self.kw('type'), T(t['name'], ID, ' ')], level, None)

    def module(self, m, path):
        start = len(self.lines) + 1
        self.emit([self.kw('module', ''), T(m['name'], ID, ' ')], 0, None)
        for u in m.get('uses') or []:
            self.emit(self.use_tokens(u), 1, None)
        self.emit([self.kw('implicit', ''), self.kw('none')], 1, None)
        if m.get('access'):
            self.emit([self.kw(m['access'], '')], 1, None)
        for ln in m.get('spec_raw_pre') or []:
            self.raw(ln)
        for t in m.get('types') or []:
            self.typedef(t, 1)
        for d in m.get('decls') or []:
            self.emit(self.decl_tokens(d), 1, None)
        for ln in m.get('spec_raw') or []:
            self.raw(ln)
        if m.get('routines'):
            self.emit([self.kw('contains', '')], 0, None)
            for j, r in enumerate(m['routines']):
                self.routine(r, 1, path + ('routines', j))
        self.emit([self.kw('end', ''), self.kw('module'), T(m['name'], ID, ' ')], 0, None)
        self.unit_spans[pathstr(path)] = [start, len(self.lines)]

    def file(self, f):
        for i, (kind, unit) in enumerate(f['units']):
            if kind == 'module':
                self.module(unit, ('u', i))
            elif kind == 'routine':
                self.routine(unit, 0, ('u', i))
            elif kind == 'raw':
                for ln in unit:
                    self.raw(ln)
            if i + 1 < len(f['units']) and self.L.get('blank', False):
                self.lines.append('')
        return '\n'.join(self.lines) + '\n'


def render_file(f, layout=None):
    """returns (text, linemap, unit_spans)"""
    r = Renderer(layout)
    text = r.file(f)
    return text, r.linemap, r.unit_spans


def render_expr(e, layout=None):
    r = Renderer(layout)
    toks = r.expr(e)[0]
    out = ''
    for i, tk in enumerate(toks):
        out += ('' if i == 0 else tk.pre) + r.tok_text(tk)
    return out
