"""
Profile generator for C39 (ParametriseTransformation): spec -> call tree with integer size / flag arguments.

    module pmod:  kernel(n, na, nb, kf, xi0, xr0, yi0, yr0, c(na,nb), d(nb))        role driver / entry point
                  mid0, mid1   (called by kernel; receive a generated subset of the size/flag variables,
                                 positionally, under the same or a different dummy name)
                  leaf0        (called by the mids and possibly the kernel)
Roles: A = first extent, B = second extent, F = flag. Arrays are dimensioned by the role variables, loops run to
them, flags select branches. ``dic2p`` = generated subset of the roles with the values of the *matching* inputs.
The case carries input vectors that match dic2p and vectors that do not (one run of the program per vector: the
driver reads the vector number from stdin, because a non-matching vector must abort the transformed program).

Documented usage of ParametriseTransformation that the generator guarantees by construction (class docstring,
loki/transformations/tests/test_parametrise.py + tests/sources/projParametrise):
  * every caller of a routine below the entry points is itself at or below the entry points ("all parts of the code
    calling subroutines that are transformed ... must be included"): with the mid routines as entry points the leaf is
    not called by the kernel;
  * an entry point's parametrised dummies are renamed ``parametrised_<name>`` (documented output), so callers of an entry
    point, which are not transformed, pass these arguments positionally, never by keyword;
  * dic2p lists the dummy names of all entry points ("all possibly differing names of variables at the entry points");
  * every call of one callee passes the same role variables to the same dummies;
  * parametrised dummies are never defined (intent in; intent inout at the entry point as in loki's test project).
Triggers of listed known findings (TRIGGERS) are only generated when their flag is on; the check switches the flag off
while the finding is listed (``ctx.exclude``) - the committed replay files keep them.
"""
from . import gen
from . import gen_inline as GI
from .model import var, lit, decl, routine, module
from .native import fnum

EPS = ['driver', 'named', 'mid']        # entry_points=None (role driver) | ('kernel',) | the mid routines

FLAGS = [
    'rename_dummy',      # callee dummies are named differently from the variables passed
    'same_local_name',   # a routine below the entry points that does NOT receive a role variable has a local of that (entry) name
    'ep_local_clash',    # TRIGGER: an entry point (mid) without role r has a local named like the other entry point's dummy for r
    'dims_dummy',        # dummy arrays dimensioned by role variables
    'dims_local',        # local arrays dimensioned by role variables
    'loop_bound',        # DO loops running to role variables
    'flag_branch',       # IF on the flag
    'flag_select',       # SELECT CASE on the flag
    'expr_use',          # role variables inside expressions where precedence matters (x - F, x*F, F**2, -F)
    'expr_pass',         # an expression of a role variable is passed to a plain scalar dummy
    'kw_pass',           # the arguments after the role variables are passed by keyword
    'kw_role',           # the last role variable (and everything after it) is passed by keyword by a transformed caller;
                         # together with multi_call: first call positional, second by keyword (TRIGGER kw_role_mixed)
    'pass_twice',        # TRIGGER: the same role variable is passed to two dummies of one call (kernel -> mid0)
    'multi_call',        # a callee is called twice from the same caller
    'leaf',              # a third level
    'leaf_from_kernel',  # the leaf is also called by the kernel (not with the mids as entry points)
    'two_mids',          # two routines on the middle level
    'neg_value',         # the flag value is negative
    'zero_value',        # the flag value is 0
    'intent_inout',      # the parametrised entry dummies are intent(inout) (as in loki's test project)
    'decl_group',        # role variables declared in one grouped declaration
    'case_upper',        # identifiers rendered in upper case (dic2p spelled alike) or, 1 in 4, in mixed case
    'fn_callee',         # a function that receives a role variable (function reference, not CALL)
    'partial_roles',     # a callee receives only some of the roles
    'local_copy',        # a local is assigned from a role variable and used instead
    'size_intrinsic',    # size()/ubound() of arrays dimensioned by role variables
]
# root causes listed in known_findings.d/C39.txt, in the fixed order in which a failing case is attributed to them;
# meta['triggers'] names those that really occur in the built program AND touch a parametrised variable
TRIGGERS = ['kw_role_mixed', 'pass_twice', 'ep_local_clash']
SIZES = {'fill': (0, 2), 'nmatch': (1, 3)}
SIZES_THOROUGH = {'fill': (0, 4), 'nmatch': (1, 3)}
SIZE_MIN = {'fill': 0, 'nmatch': 1}
STREAMS = ['kernel', 'mid0', 'mid1', 'leaf0', 'dic', 'inputs', 'layout']
OPTS = {'replace_by_value': [False, True], 'abort': ['error_stop', 'default'], 'roles': ['A', 'B', 'F', 'AB', 'AF', 'BF', 'ABF'],
        'succession': [False, False, True]}   # succession: one transformation per role group, applied in succession with `key`

ROLE_NAMES = {'A': ['na', 'ka', 'ma', 'ja'], 'B': ['nb', 'kb', 'mb', 'jb'], 'F': ['kf', 'jf', 'mf', 'lf']}
PROF = dict(GI.BASE_PROF, sections=False, reductions=False, if1=True, max_depth=1)


def specs(eps=None, flag_pct=45):
    return GI.spec_strategy(eps or EPS, FLAGS, STREAMS, SIZES, OPTS, flag_pct=flag_pct)


def make_routine(b, g, name, level, roles, names, children, funs, entry=False, info=None):
    """
    one routine of the tree. roles: ordered list of roles it receives; names: role -> local dummy name.
    children: list of child sigs. info: {'is_ep': this routine is an entry point of the transformation,
    'transformed': it is at or below the entry points, 'pset': roles that are parametrised in it,
    'clash_locals': [(local name, bites)] locals named like a dic2p key (entry points only)}.
    Returns (routine dict, sig)
    """
    F = b.F
    info = info or {}
    is_ep, transformed, pset = bool(info.get('is_ep')), bool(info.get('transformed')), set(info.get('pset', ()))
    env = gen.Env()
    args, decls = [], []
    prologue = []
    if entry:
        args.append('n')
        decls.append(decl('n', 'int', intent='in'))
        env.vars['n'] = {'type': 'int', 'dims': None, 'ro': True}
    role_intent = 'inout' if (entry and F('intent_inout')) else 'in'
    grouped = []
    for r in roles:
        nm = names[r]
        args.append(nm)
        d = decl(nm, 'int', intent=role_intent)
        if F('decl_group') and len(roles) > 1:
            grouped.append(nm)
        else:
            decls.append(d)
        env.vars[nm] = {'type': 'int', 'dims': None, 'ro': True}
    # plain scalars
    sc_in = [('xi0', 'int'), ('xr0', 'real')] if entry else [('si', 'int')]
    for nm, t in sc_in:
        args.append(nm)
        decls.append(decl(nm, t, intent='in'))
        env.vars[nm] = {'type': t, 'dims': None, 'ro': True}
    accs = [('yi0', 'int'), ('yr0', 'real')] if entry else [('acc', 'int'), ('racc', 'real')]
    for nm, t in accs:
        args.append(nm)
        decls.append(decl(nm, t, intent='inout'))
        env.vars[nm] = {'type': t, 'dims': None}
    iacc, racc = accs[0][0], accs[1][0]
    has = {r: names[r] for r in roles}
    arrs = {}
    if 'A' in has and 'B' in has:
        args.append('c')
        dims = [[1, has['A']], [1, has['B']]] if (F('dims_dummy') or entry) else [[None, ':'], [None, ':']]
        decls.append(decl('c', 'int', dims=dims, intent='inout'))
        arrs['c'] = True
        if dims[0][1] != ':':
            b.use('dims_dummy')
    if 'B' in has:
        args.append('d')
        dims = [[1, has['B']]] if (F('dims_dummy') or entry) else [[None, ':']]
        decls.append(decl('d', 'real', dims=dims, intent='inout'))
        arrs['d'] = True
    # locals
    ldecls = []
    gen.declare_locals(g, env, ldecls, prologue, nscal=(1, 2), narr=(0, 0), prefix='l' if entry else name[0] + 'l')
    decls += ldecls
    lvs = env.loopvars
    body = list(prologue)
    if F('dims_local') and 'A' in has:
        decls.append(decl('ta', 'int', dims=[[1, has['A']]]))
        body.append(['assign', var('ta'), lit(g.i(1, 3))])
        b.use('dims_local')
    if F('same_local_name') and not entry and not is_ep:
        missing = [r for r in 'ABF' if r not in has]
        for r in missing[:1]:
            nm = ROLE_NAMES[r][0]
            if nm not in env.vars and nm not in args:
                decls.append(decl(nm, 'int'))
                body.append(['assign', var(nm), lit(g.i(5, 9))])
                body.append(['assign', var(iacc), ['b', '+', var(iacc), ['b', '*', var(nm), lit(2)]]])
                env.vars[nm] = {'type': 'int', 'dims': None, 'ro': True}
                b.use('same_local_name')
    for nm, bites in info.get('clash_locals', ()):
        if nm not in env.vars and nm not in args:
            decls.append(decl(nm, 'int'))
            body.append(['assign', var(nm), lit(g.i(5, 9))])
            body.append(['assign', var(iacc), ['b', '+', var(iacc), ['b', '*', var(nm), lit(2)]]])
            env.vars[nm] = {'type': 'int', 'dims': None, 'ro': True}
            b.use('ep_local_clash')
            if bites:
                b.triggers.add('ep_local_clash')
    if F('local_copy') and has:
        r = g.pick(sorted(has))
        decls.append(decl('lcp', 'int'))
        body.append(['assign', var('lcp'), var(has[r])])
        body.append(['assign', var(iacc), ['b', '+', var(iacc), ['b', '-', ['b', '*', var('lcp'), lit(3)], lit(1)]]])
        b.use('local_copy')
    gf = g.sub(**{k: v for k, v in PROF.items()})
    for _ in range(b.n.get('fill', 0)):
        body += gen.gen_stmt(gf, env, 1, 2)
    # role uses
    if 'c' in arrs:
        i, j = lvs[0], lvs[1]
        hi_i = var(has['A']) if F('loop_bound') else ['f', 'size', [var('c'), lit(1)], {}]
        hi_j = var(has['B']) if F('loop_bound') else ['f', 'ubound', [var('c'), lit(2)], {}]
        if F('loop_bound'):
            b.use('loop_bound')
        e = ['b', '+', ['d', [['c', [var(i), var(j)]]]], ['b', '+', ['b', '*', var(i), lit(g.i(1, 3))], var(j)]]
        if 'F' in has:
            e = ['b', '-', e, var(has['F'])]
        body.append(['do', j, lit(1), hi_j, None, [['do', i, lit(1), hi_i, None,
                                                     [['assign', ['d', [['c', [var(i), var(j)]]]], e]], 'plain']], 'plain'])
        body.append(['assign', var(iacc), ['b', '+', var(iacc), ['d', [['c', [var(has['A']), var(has['B'])]]]]]])
        if F('size_intrinsic'):
            body.append(['assign', var(iacc), ['b', '+', var(iacc), ['b', '-', ['f', 'size', [var('c')], {}],
                                                                      ['f', 'ubound', [var('c'), lit(1)], {}]]]])
            b.use('size_intrinsic')
    if 'd' in arrs:
        j = lvs[1]
        hi_j = var(has['B']) if F('loop_bound') else ['f', 'size', [var('d')], {}]
        body.append(['do', j, lit(1), hi_j, None,
                     [['assign', ['d', [['d', [var(j)]]]], ['b', '+', ['d', [['d', [var(j)]]]],
                                                            ['b', '*', ['f', 'real', [var(j), lit(8)], {}], ['r', '0.5']]]]], 'plain'])
        body.append(['assign', var(racc), ['b', '+', var(racc), ['d', [['d', [var(has['B'])]]]]]])
    if F('dims_local') and 'A' in has:
        i = lvs[0]
        body.append(['do', i, lit(1), var(has['A']), None,
                     [['assign', ['d', [['ta', [var(i)]]]], ['b', '+', ['d', [['ta', [var(i)]]]], var(i)]]], 'plain'])
        body.append(['assign', var(iacc), ['b', '+', var(iacc), ['f', 'sum', [var('ta')], {}]]])
    if 'F' in has:
        fv = var(has['F'])
        if F('flag_branch'):
            body.append(['if', [[['b', '==', fv, lit(b.fvalue)], [['assign', var(iacc), ['b', '+', var(iacc), lit(g.i(3, 9))]]]],
                                [['b', '>', fv, lit(b.fvalue)], [['assign', var(iacc), ['b', '-', var(iacc), lit(2)]]]]],
                         [['assign', var(racc), ['b', '+', var(racc), ['r', '0.25']]]]])
            b.use('flag_branch')
        if F('flag_select'):
            body.append(['select', fv, [[[lit(b.fvalue)], [['assign', var(racc), ['b', '*', var(racc), ['r', '2.0']]]]],
                                        [[['rng', lit(b.fvalue + 1), lit(b.fvalue + 3), None]],
                                         [['assign', var(iacc), ['b', '+', var(iacc), lit(1)]]]]],
                         [['assign', var(iacc), ['b', '-', var(iacc), lit(1)]]]])
            b.use('flag_select')
    if F('expr_use') and has:
        for r in sorted(has):
            v = var(has[r])
            forms = [['b', '-', var(iacc), v], ['b', '*', ['b', '+', var(iacc), lit(1)], v],
                     ['b', '+', ['b', '**', v, lit(2)], var(iacc)], ['b', '+', ['u', '-', v], var(iacc)],
                     ['b', '-', var(iacc), ['b', '*', lit(2), v]], ['b', '/', ['b', '+', var(iacc), lit(20)], ['b', '+', ['f', 'abs', [v], {}], lit(1)]]]
            body.append(['assign', var(iacc), g.pick(forms)])
        b.use('expr_use')
    # calls to children
    for ch in children:
        if not all(r in has for r in ch['roles']):
            continue
        ncalls = 2 if (F('multi_call') and g.chance(60)) else 1
        for ci in range(ncalls):
            arglist = []   # (dummy name, actual, role)
            for r in ch['roles']:
                arglist.append((ch['names'][r], var(has[r]), r))
            if F('expr_pass') and has:
                r0 = g.pick(sorted(has))
                sarg = ['b', '+', var(has[r0]), lit(1)]
                b.use('expr_pass')
            elif ci and not info.get('si_is_role'):
                sarg = lit(g.i(1, 4))
            else:
                # (a routine whose own `si` receives a role variable - pass_twice - passes it on in every call: all calls of
                # one callee must pass the same parametrised variables to the same dummies)
                sarg = var('xi0' if entry else 'si')
            if ch.get('twice') and ch['twice'] in has:
                # TRIGGER pass_twice: the plain scalar dummy receives a role variable that is also passed to its own dummy
                sarg = var(has[ch['twice']])
                b.use('pass_twice')
                if transformed and ch['twice'] in pset and not ch['is_ep']:
                    b.triggers.add('pass_twice')
            arglist.append((ch['scalar_in'], sarg, None))
            arglist.append((ch['iacc'], var(iacc), None))
            arglist.append((ch['racc'], var(racc), None))
            if 'c' in ch['arrays']:
                arglist.append(('c', var('c'), None))
            if 'd' in ch['arrays']:
                arglist.append(('d', var('d'), None))
            nroles = len(ch['roles'])
            kw_from = None
            if F('kw_role') and transformed and not ch['is_ep'] and nroles and (ncalls == 1 or ci == 1):
                # only a transformed caller passes a role variable by keyword, and never to an entry point
                kw_from = nroles - 1
                b.use('kw_role')
                if ncalls == 2 and ch['roles'][-1] in pset:
                    b.triggers.add('kw_role_mixed')     # TRIGGER: positional in the first call, keyword in the second
            elif F('kw_pass') and g.chance(70):
                kw_from = nroles + g.i(0, len(arglist) - nroles - 1)
                b.use('kw_pass')
            pos, kws = [], {}
            for k, (dn, e, r) in enumerate(arglist):
                if kw_from is not None and k >= kw_from:
                    kws[dn] = e
                else:
                    pos.append(e)
            body.append(['call', ch['name'], pos, kws])
            if ci:
                b.use('multi_call')
    for fs in funs:
        if all(r in has for r in fs['roles']):
            body.append(['assign', var(iacc), ['b', '+', var(iacc), ['f', fs['name'], [var(has[r]) for r in fs['roles']] + [var(iacc)], {}]]])
            b.use('fn_callee')
    # locals -> accumulators
    for nm, v in env.vars.items():
        if nm in args or v.get('ro') or v.get('fuel'):
            continue
        if v['type'] == 'int':
            body.append(['assign', var(iacc), ['b', '+', var(iacc), var(nm)]])
        elif v['type'] == 'real':
            body.append(['assign', var(racc), ['b', '+', var(racc), var(nm)]])
    r_ = routine(name, args, decls, body)
    if grouped:
        # raw text is not re-cased by the renderer: spell the names as the rest of the source does
        gnames = [x.upper() if getattr(b, 'idcase', 'lower') == 'upper' else x for x in grouped]
        r_['spec_raw_pre'] = [f'    integer, intent({role_intent}) :: ' + ', '.join(gnames)]
        b.use('decl_group')
    sig = {'name': name, 'roles': list(roles), 'names': dict(names), 'scalar_in': 'si', 'iacc': 'acc', 'racc': 'racc',
           'arrays': sorted(arrs), 'level': level, 'is_ep': is_ep}
    return r_, sig


def build(spec):
    b = GI.B(spec)
    F = b.F
    gd = b.g('dic')
    # values of the matching inputs
    va, vb = gd.i(2, 4), gd.i(2, 4)
    vf = gd.i(1, 3)
    if F('neg_value'):
        vf = -gd.i(1, 3)
        b.use('neg_value')
    elif F('zero_value'):
        vf = 0
        b.use('zero_value')
    b.fvalue = vf
    values = {'A': va, 'B': vb, 'F': vf}
    roles_p = list(spec['opts'].get('roles') or 'A')     # parametrised roles

    def names_for(level, k):
        if F('rename_dummy') and level > 0:
            idx = (level + k) % 3 + 1
            b.use('rename_dummy')
            return {r: ROLE_NAMES[r][idx] for r in 'ABF'}
        return {r: ROLE_NAMES[r][0] for r in 'ABF'}

    def roles_for(g, level):
        if F('partial_roles') and level > 0:
            opts = [['A', 'B'], ['A', 'B', 'F'], ['B', 'F'], ['B'], ['A', 'B', 'F']]
            b.use('partial_roles')
            return g.pick(opts)
        return ['A', 'B', 'F']

    ep = spec['ep']
    b.triggers = set()
    gl = b.g('layout')
    layout = GI.layout_from(gl)
    layout['idcase'] = 'lower'
    if F('case_upper'):
        # upper case throughout with dic2p spelled as the source spells the names; 1 in 4: every occurrence in its own
        # case with lower-case dic2p keys (loki compares some names case-sensitively and raises KeyError -> rejected)
        layout['idcase'] = gl.pick(['upper', 'upper', 'upper', 'mixed'])
        b.use('case_' + layout['idcase'])
    b.idcase = layout['idcase']
    # ---- shape of the tree first (roles and dummy names of every routine), then the routines bottom-up
    g_leaf, g_mids = b.g('leaf0'), [b.g('mid0'), b.g('mid1')]
    nm = 2 if F('two_mids') else 1
    leaf_roles = roles_for(g_leaf, 2) if F('leaf') else None
    leaf_names = names_for(2, 0) if F('leaf') else None
    mid_roles = [roles_for(g_mids[k], 1) for k in range(nm)]
    mid_names = [names_for(1, k) for k in range(nm)]
    below = ep != 'mid'          # is the kernel itself transformed (entry point) or above the entry points

    def pset(roles):
        return {r for r in roles_p if r in roles}

    # dic2p and entry points
    if ep == 'mid':
        entry_points = [f'mid{k}' for k in range(nm)]
        dic, dic_roles = {}, {}
        for k in range(nm):
            for r in roles_p:
                if r in mid_roles[k]:
                    dic[mid_names[k][r]] = values[r]
                    dic_roles[mid_names[k][r]] = r
        guarded = sorted({r for k in range(nm) for r in roles_p if r in mid_roles[k]})
    else:
        entry_points = None if ep == 'driver' else ['kernel']
        dic = {ROLE_NAMES[r][0]: values[r] for r in roles_p}
        dic_roles = {ROLE_NAMES[r][0]: r for r in roles_p}
        guarded = sorted(roles_p)

    routines = []
    funs = []
    if F('fn_callee'):
        fr = routine('pfun', ['fa', 'fx'], [decl('fa', 'int', intent='in'), decl('fx', 'int', intent='in'), decl('pfun', 'int')],
                     [['assign', var('pfun'), ['b', '-', ['b', '*', var('fa'), lit(2)], ['f', 'modulo', [var('fx'), lit(5)], {}]]]],
                     kind='function')
        routines.append(fr)
        funs.append({'name': 'pfun', 'roles': ['A']})
    leaf_sigs = []
    if F('leaf'):
        r, sig = make_routine(b, g_leaf, 'leaf0', 2, leaf_roles, leaf_names, [], [],
                              info={'is_ep': False, 'transformed': True, 'pset': pset(leaf_roles)})
        routines.append(r)
        leaf_sigs.append(sig)
        b.use('leaf')
    mids = []
    for k in range(nm):
        mr = mid_roles[k]
        ch = [s_ for s_ in leaf_sigs if all(x in mr for x in s_['roles'])]
        clash = []
        if ep == 'mid' and nm == 2 and F('ep_local_clash'):
            # TRIGGER ep_local_clash: this entry point does not receive role r, the other one does under the name nm_;
            # dic2p therefore contains nm_ (when r is parametrised) and this routine has a LOCAL variable of that name
            o = 1 - k
            for r in 'ABF':
                if r not in mr and r in mid_roles[o]:
                    clash.append((mid_names[o][r], r in roles_p))
                    break
        r, sig = make_routine(b, g_mids[k], f'mid{k}', 1, mr, mid_names[k], ch, funs if k == 0 else [],
                              info={'is_ep': ep == 'mid', 'transformed': True, 'pset': pset(mr), 'clash_locals': clash,
                                    'si_is_role': bool(F('pass_twice')) and k == 0})
        routines.append(r)
        mids.append(sig)
    if nm == 2:
        b.use('two_mids')
    gk = b.g('kernel')
    kch = list(mids)
    if F('leaf_from_kernel') and leaf_sigs and ep != 'mid':
        # with the mids as entry points the kernel is not transformed and must not call a routine below them
        kch += leaf_sigs
        b.use('leaf_from_kernel')
    if F('pass_twice'):
        # the plain scalar dummy of mid0 receives the same role variable a second time
        mids[0]['twice'] = mids[0]['roles'][0]
    kr, _ = make_routine(b, gk, 'kernel', 0, ['A', 'B', 'F'], names_for(0, 0), kch, [], entry=True,
                            info={'is_ep': below, 'transformed': below, 'pset': pset('ABF') if below else set()})
    routines.append(kr)
    pmod = module('pmod', routines=routines)
    f = {'name': 'pmod.f90', 'units': [['module', pmod]]}
    # input vectors: nmatch matching ones, the rest violate at least one guarded role
    gi = b.g('inputs')
    nmatch = min(3, b.n.get('nmatch', 2))
    inputs = []
    for iv in range(4):
        vec = {'n': gi.i(3, 6), 'xi0': gi.i(-5, 9), 'xr0': gi.i(-16, 16) / 8.0, 'yi0': gi.i(-5, 9), 'yr0': gi.i(-16, 16) / 8.0}
        vals = dict(values)
        match = iv < nmatch
        for r in 'ABF':
            if r not in guarded and gi.chance(60):
                vals[r] = gi.i(2, 5) if r != 'F' else gi.i(-2, 4)
        if not match and guarded:
            bad = gi.pick(guarded)
            for r in guarded:
                if r == bad or gi.chance(30):
                    cand = [x for x in (range(2, 6) if r != 'F' else range(-3, 5)) if x != values[r]]
                    vals[r] = gi.pick(cand)
        vec.update(na=vals['A'], nb=vals['B'], kf=vals['F'])
        vec['c'] = [gi.i(-4, 6) for _ in range(vals['A'] * vals['B'])]
        vec['d'] = [gi.i(-8, 8) / 4.0 for _ in range(vals['B'])]
        vec['match'] = bool(match or not guarded)
        inputs.append(vec)
    if layout['idcase'] == 'upper':
        dic = {k.upper(): v for k, v in dic.items()}
        dic_roles = {k.upper(): v for k, v in dic_roles.items()}
    entry_args = [decl('n', 'int', intent='in')]
    return {'files': [f], 'entry': {'module': 'pmod', 'name': 'kernel', 'args': entry_args},
            'inputs': inputs, 'layout': layout, 'dic2p': dic, 'dic_roles': dic_roles, 'entry_points': entry_points,
            'meta': {'features': sorted(b.features), 'sites': [], 'guarded': guarded,
                     'triggers': [t for t in TRIGGERS if t in b.triggers],
                     'routines': [r['name'] for r in routines]}}


def vector_groups(case):
    """runs of the program: all matching vectors in one run, every non-matching vector in a run of its own"""
    m = [i for i, v in enumerate(case['inputs']) if v['match']]
    return ([m] if m else []) + [[i] for i, v in enumerate(case['inputs']) if not v['match']]


def make_driver(case):
    """program main: reads the number of vectors and the vector numbers from stdin, runs these vectors only"""
    L = ['program main', '  use pmod, only: kernel', '  implicit none',
         '  integer :: nv, kv, iv, n, na, nb, kf, xi0, yi0', '  real(kind=8) :: xr0, yr0',
         '  integer, allocatable :: c(:,:)', '  real(kind=8), allocatable :: d(:)',
         '  read(*,*) nv', '  do kv = 1, nv', '  read(*,*) iv', '  select case (iv)']
    for iv, v in enumerate(case['inputs']):
        L.append(f'  case ({iv})')
        L.append(f"    n = {v['n']}; na = {v['na']}; nb = {v['nb']}; kf = {v['kf']}")
        L.append(f"    xi0 = {v['xi0']}; yi0 = {v['yi0']}; xr0 = {fnum(v['xr0'])}; yr0 = {fnum(v['yr0'])}")
        L.append('    allocate(c(na, nb), d(nb))')
        L.append('    c = reshape([' + ', '.join(str(x) for x in v['c']) + '], shape(c))')
        L.append('    d = [' + ', '.join(fnum(x) for x in v['d']) + ']')
    L += ['  end select', "  print '(A,I0)', 'vector ', iv",
          '  call kernel(n, na, nb, kf, xi0, xr0, yi0, yr0, c, d)',
          "  print '(A,*(1X,I0))', 'yi0', yi0", "  print '(A,*(1X,ES24.16E3))', 'yr0', yr0",
          "  print '(A,*(1X,I0))', 'c', c", "  print '(A,*(1X,ES24.16E3))', 'd', d",
          '  deallocate(c, d)', '  end do', 'end program main']
    return '\n'.join(L) + '\n'
