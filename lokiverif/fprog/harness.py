"""
Shared differential-execution harness for the behaviour properties:
render a generated case, build+run the original, apply a loki step to the
Fortran files, build+run the candidate, compare outputs.
"""
import re

from .render import render_file
from .native import Native, make_driver, same_output, first_diff


class GeneratorBug(Exception):
    """the ORIGINAL generated program is not valid Fortran -> harness error, never a violation"""


def render_case(case):
    """returns list of dict(name, text, linemap, unit_spans)"""
    out = []
    for f in case['files']:
        text, linemap, spans = render_file(f, case.get('layout'))
        out.append({'name': f['name'], 'text': text, 'linemap': linemap, 'unit_spans': spans})
    return out


_native = None


def native():
    global _native
    if _native is None:
        _native = Native()
    return _native


def gfortran_error_class(err):
    """normalised first gfortran error message (for signatures)"""
    m = re.search(r'Error: (.*)', err)
    if not m:
        m = re.search(r'(undefined reference to|multiple definition of)', err)
        return m.group(1).replace(' ', '-') if m else 'unknown'
    msg = m.group(1)
    msg = re.sub(r"'[^']*'", 'X', msg)
    msg = re.sub(r'‘[^’]*’', 'X', msg)
    msg = re.sub(r'\(\d+\)', '(N)', msg)
    msg = re.sub(r'\d+', 'N', msg)
    msg = re.sub(r'[^A-Za-z0-9()]+', '-', msg).strip('-')
    return msg[:70]


def run_original(case, rendered=None, driver=None, flags=None):
    rendered = rendered or render_case(case)
    driver = driver or make_driver(case)
    files = [(r['name'], r['text']) for r in rendered]
    res = native().build_run('orig', files, driver, flags=flags)
    res.source = (files, driver, flags)
    if res.stage.startswith('compile'):
        raise GeneratorBug('original program does not compile:\n' + res.err[-1500:] + '\n---\n' +
                           '\n'.join(r['text'] for r in rendered))
    return res


INIT_VARIANTS = (['-finit-integer=12345', '-finit-real=snan', '-finit-logical=true'],
                 ['-finit-integer=-999', '-finit-real=inf', '-finit-logical=false'])


def original_reads_undefined(orig):
    """
    True when the output of the ORIGINAL generated program depends on the value that uninitialised
    local variables happen to have: exactly the sources, driver and flags that produced ``orig``
    (recorded by run_original) are rebuilt with two different gfortran -finit-* settings and must
    print exactly what the program printed without them. A program that fails this references an
    undefined variable (not standard-conforming, outcome arbitrary and possibly different from
    run to run), i.e. it is a generator defect and lies outside every behaviour-preservation
    property. Only consulted after a candidate disagreed with the original, so it costs nothing
    on passing cases. Results that were not produced by run_original are never excused.
    """
    from .native import FFLAGS
    src = getattr(orig, 'source', None)
    if src is None:
        return False
    files, driver, flags = src
    base = list(FFLAGS if flags is None else flags)
    for extra in INIT_VARIANTS:
        res = native().build_run('origchk', files, driver, flags=base + extra)
        if res.stage.startswith('compile'):
            return False
        if res.ok != orig.ok or res.out != orig.out:
            return True
    return False


def _undefined_guard(ctx, orig):
    if original_reads_undefined(orig):
        ctx.exclude('original-reads-undefined-variable(UB; generator defect, case discarded)')
        return True
    return False


def differential(ctx, case, candidate_files, prefix, original=None, driver=None, rtol=0.0, flags=None,
                 cand_driver=None):
    """
    candidate_files: list of (name, text). Returns 'ok' | 'ub' | 'fail'.
    Records failures on ctx with signatures <prefix>:candidate-does-not-compile:<msg>,
    <prefix>:candidate-runtime-error, <prefix>:output-differs.
    """
    driver = driver or make_driver(case)
    orig = original or run_original(case, driver=driver, flags=flags)
    if not orig.ok:
        ctx.exclude('original-traps-at-runtime(UB: overflow/bounds/fpe)')
        return 'ub'
    cand = native().build_run('cand', candidate_files, cand_driver or driver, flags=flags)
    if cand.stage.startswith('compile'):
        ctx.fail(f'{prefix}:candidate-does-not-compile:{gfortran_error_class(cand.err)}', case, cand.err[-1200:])
        return 'fail'
    if not cand.ok:
        if _undefined_guard(ctx, orig):
            return 'ub'
        ctx.fail(f'{prefix}:candidate-runtime-error', case, cand.brief())
        return 'fail'
    if not same_output(orig.out, cand.out, rtol):
        if _undefined_guard(ctx, orig):
            return 'ub'
        ctx.fail(f'{prefix}:output-differs', case, first_diff(orig.out, cand.out))
        return 'fail'
    return 'ok'


def stmt_kinds(case):
    """set of statement kinds occurring in the case (for class histograms / non-triviality)"""
    from .model import walk_stmts
    kinds = set()

    def routine(r):
        for _, s in walk_stmts(r['body']):
            kinds.add(s[0])
            if s[0] == 'if1' and s[2][0] in ('exit', 'cycle'):
                kinds.add(s[2][0] + (':named' if len(s[2]) > 1 and s[2][1] else ''))
            if s[0] == 'select' and any(not b for _, b in s[2][:-1] if True) and len(s[2]) > 1:
                kinds.add('select:empty-nonlast-case')
            if s[0] == 'where' and any(not b for _, b in s[1]):
                kinds.add('where:empty-block')
            if s[0] == 'if' and any(not b for _, b in s[1]):
                kinds.add('if:empty-branch')
            if s[0] == 'do':
                kinds.add('do:' + s[6])
                if s[4] is not None and s[4][0] == 'u':
                    kinds.add('do:negstep')
        for c in r.get('contains') or []:
            kinds.add('internal-procedure')
            routine(c)
        if r['kind'] == 'function':
            kinds.add('function')

    for f in case['files']:
        for kind, u in f['units']:
            if kind == 'module':
                if u.get('types'):
                    kinds.add('derived-type')
                for r in u['routines']:
                    routine(r)
            elif kind == 'routine':
                routine(u)
    return kinds
