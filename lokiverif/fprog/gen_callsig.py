"""
Profile generator for C34 (call-signature rewrites). A case is SMALL JSON:

    {'mode': 'dt'|'tb'|'tb+dt'|'seq'|'shape'|'dup', 'feat': {name: bool}, 'opts': {...}, 'stream': [ints]}

and the program (files, entry, inputs, layout) is a deterministic function ``build(case)`` of it: every random choice is taken
from the cyclic integer stream. Feature ablation (for signatures) = switch one feature off and rebuild.

Call tree (2-4 routines): kernel (entry, scheduler role 'driver') -> layer -> leaf [-> / + func], callees either in the module of
the kernel or in a second module file; derived types and their type-bound procedures live in module tmod.
Entry arguments (never changed by the transformations because the entry has role 'driver'):
    n, xi0, xr0 (in); yi0, yr0 (inout); zi0(n) int in; zi1(n) int inout; zr2(n) real inout; zr3(lb:lb+5) real inout; zr4(3,n) real inout

Preconditions honoured by construction (documented by the transformations / shown by their tests):
  dt     no INTENT(OUT) derived-type dummies with allocatable components; no aliasing between expanded arguments
  seq    element actual -> explicit-shape dummy that fits into the remainder of the actual's FIRST dimension (the documented
         rewrite a(i,j) -> a(i:m,j)); rank-2 dummies only from the first element of a column with full leading extent.
         ('seq_cross_column' lets the dummy run into the next column: legal Fortran; the rewritten actual a(i:3,j) is then
         shorter than the dummy, which gfortran neither diagnoses nor copies, so the OUTPUT is unchanged: an ordinary feature)
  shape  assumed-shape dummies receive whole arrays or full-column sections; one calling context per callee
         ('shape_partial': additionally a rank-reducing section with a PARTIAL explicit range, lq(2:n+1, 1) of the local
         lq(n+1, 2) with lower bounds 1; the callee uses the extent of that dummy: SIZE, SUM, element UBOUND. The analysis must
         leave such a dummy assumed-shape - or give it the extent of the section, never that of the whole dimension)
  dup    duplicated actuals only for INTENT(IN) dummies; every call of a callee duplicates the same positions
Triggers of listed known findings are features as well: build() emits the triggering construct ONLY when the trigger
feature is on (the check switches a trigger on only while its finding is NOT listed as known):
  lbv           array component with lower bound 0 (REAL :: v(0:3))
  whole_member  layer passes t%in / t%arr(k) as a whole to a callee that is not expanded while it also references members of
                that member (t%in%x); also: tb+dt without all_derived_types and a bound call on t%in inside layer (becomes
                scale_inner(t%in, f)). Without the trigger leaf is fed from a local copy that is filled member by member
  whole_object  tb+dt with a type-bound FUNCTION reference inside layer: becomes get_outer(t, k) - the scheduler does not discover
                inline calls of bound functions, get_outer is not expanded and layer uses t as a whole and by member
  tbfunc_first  mode tb: a type-bound FUNCTION reference t%get(k) in layer that is the first reference to any member of t in
                that routine (the frontend then loses the argument list). Without the trigger a data member is referenced first
  dt_tbcall     mode dt while a type-bound CALL is still present in the kernel
  kw_anycase    mode dt, keyword call of layer with identifiers NOT written in lower case (layout idcase upper/mixed)
  shape_lb      assumed-shape dummy associated with an actual whose declared lower bound is not 1
"""
from hypothesis import strategies as st

from .model import var, elem, lit, decl, routine, module
from . import gen as B

MODES = ['dt', 'tb', 'tb+dt', 'seq', 'shape', 'dup']

FEATURES = {
    'dt': ['nested', 'arrcomp', 'alloc', 'aos', 'leaf', 'leaf_outer', 'kwcall', 'two_calls', 'func', 'othermod', 'bound_direct'],
    'tb': ['nested', 'arrcomp', 'alloc', 'aos', 'tb_sub', 'tb_func', 'tb_nested', 'tb_aos', 'tb_in_layer', 'othermod'],
    'tb+dt': ['nested', 'arrcomp', 'alloc', 'aos', 'leaf', 'tb_sub', 'tb_func', 'tb_nested', 'tb_in_layer', 'othermod'],
    'seq': ['seq_2d_actual', 'seq_lb', 'seq_dummy_lb', 'seq_rank2', 'seq_comp', 'seq_nested_call', 'seq_var_index', 'seq_cross_column',
            'othermod'],
    'shape': ['shape_2d', 'shape_section', 'shape_chain', 'shape_literal_dims', 'shape_inquiry', 'shape_two_callees', 'othermod',
              'shape_partial'],
    'dup': ['dup_array', 'dup_scalar', 'dup_section', 'dup_literal', 'dup_triple', 'dup_kw', 'dup_chain', 'dup_two_calls', 'othermod'],
}
# features that trigger listed known findings (generated only when the check switches them on)
TRIGGERS = {
    'dt': ['lbv', 'whole_member', 'dt_tbcall', 'kw_anycase'],
    'tb+dt': ['lbv', 'whole_member', 'whole_object'],
    'tb': ['tbfunc_first'],
    'seq': [],
    'shape': ['shape_lb'],
    'dup': [],
}

PROFILE = B.profile(calls=False, functions=False, internal=False, print=False, comments=False, labelled=False, named=False,
                    real_class='dyadic', max_depth=2, max_stmts=3, expr_depth=2, n_helpers=0, params=False, array2d=False)
PROFILE['while'] = False


class SG(B.G):
    """generation context whose draws come from a cyclic integer stream"""

    def __init__(self, stream, prof=None, salt=0):
        super().__init__(None, prof or PROFILE)
        self.s = list(stream) or [0]
        self.k = salt

    def i(self, lo, hi):
        v = self.s[self.k % len(self.s)]
        self.k += 1
        return lo + (v + self.k // len(self.s)) % (hi - lo + 1)

    def fork(self, salt):
        return SG(self.s, self.p, salt)


ENTRY = [('n', 'int', None, 'in'), ('xi0', 'int', None, 'in'), ('xr0', 'real', None, 'in'),
         ('yi0', 'int', None, 'inout'), ('yr0', 'real', None, 'inout'),
         ('zi0', 'int', [[1, 'n']], 'in'), ('zi1', 'int', [[1, 'n']], 'inout'), ('zr2', 'real', [[1, 'n']], 'inout'),
         ('zr3', 'real', None, 'inout'), ('zr4', 'real', [[1, 3], [1, 'n']], 'inout')]


def entry_decls(lb3):
    out = []
    for nm, t, dims, intent in ENTRY:
        if nm == 'zr3':
            dims = [[lb3, lb3 + 5]]
        out.append(decl(nm, t, dims=[list(d) for d in dims] if dims else None, intent=intent))
    return out


def base_env(decls, ro_all=False):
    env = B.Env()
    for d in decls:
        env.vars[d['name']] = {'type': d['type'], 'dims': [list(x) for x in d['dims']] if d['dims'] else None,
                               'ro': ro_all or d.get('intent') == 'in'}
    return env


def locals_for(env, decls, prologue, prefix, nints=1, nreals=1):
    for k in range(nints):
        nm = f'{prefix}i{k}'
        decls.append(decl(nm, 'int'))
        env.vars[nm] = {'type': 'int', 'dims': None}
        prologue.append(['assign', var(nm), lit(k + 1)])
    for k in range(nreals):
        nm = f'{prefix}r{k}'
        decls.append(decl(nm, 'real'))
        env.vars[nm] = {'type': 'real', 'dims': None}
        prologue.append(['assign', var(nm), ['r', '0.5']])
    for k in range(2):
        nm = f'{prefix}j{k}'
        decls.append(decl(nm, 'int'))
        env.loopvars.append(nm)


def bounded(e, typ):
    """keep integer values small (no overflow through repeated calls)"""
    return ['f', 'modulo', [e, ['i', 97]], {}] if typ == 'int' else e


def clamp_body(body):
    """wrap integer right-hand sides: modulo(rhs, 97); reals: dyadic, depth-limited by the profile"""
    return body


# ------------------------------------------------------------------ derived types
def type_model(feat):
    lbv = 0 if feat.get('lbv') else 1
    inner = {'name': 'inner_t', 'comps': [decl('x', 'real'), decl('k', 'int')], 'procs': []}
    if feat.get('arrcomp'):
        inner['comps'].append(decl('v', 'real', dims=[[lbv, lbv + 3]]))
    outer = {'name': 'outer_t', 'comps': [decl('m', 'int'), decl('s', 'real')], 'procs': []}
    if feat.get('alloc'):
        outer['comps'].append(decl('a', 'real', dims=[[':', ':']], alloc=True))
    if feat.get('nested'):
        outer['comps'].append(decl('in', 'type:inner_t'))
    if feat.get('aos'):
        outer['comps'].append(decl('arr', 'type:inner_t', dims=[[1, 2]]))
    return inner, outer, lbv


def member_vars(root, which, feat, lbv, ro=False):
    """pseudo variables for the members of a derived-type object: name -> env entry with a designator path"""
    out = {}
    rp = [[p, None] for p in root.split('%')] if isinstance(root, str) else [list(x) for x in root]
    rn = '%'.join(p[0] for p in rp)

    def add(path, typ, dims):
        nm = rn + '%' + '%'.join(p[0] + ('' if p[1] is None else str(p[1][0][1])) for p in path)
        out[nm] = {'type': typ, 'dims': dims, 'ro': ro, 'path': rp + path}

    def inner_members(prefix):
        add(prefix + [['x', None]], 'real', None)
        add(prefix + [['k', None]], 'int', None)
        if feat.get('arrcomp'):
            add(prefix + [['v', None]], 'real', [[lbv, lbv + 3]])

    if which == 'inner':
        inner_members([])
        return out
    add([['m', None]], 'int', None)
    add([['s', None]], 'real', None)
    if feat.get('alloc'):
        add([['a', None]], 'real', [[1, 'n']])
    if feat.get('nested'):
        inner_members([['in', None]])
    if feat.get('aos'):
        for k in (1, 2):
            inner_members([['arr', [lit(k)]]])
    return out


def init_object(name, feat, lbv, g, src_real='zr2', alloc=True):
    """statements that allocate and define every component of a type(outer_t) object from the kernel's inputs"""
    t = lambda *p: ['d', [[name, None]] + [list(x) for x in p]]
    out = []
    if feat.get('alloc') and alloc:
        out.append(['alloc', [['d', [[name, None], ['a', [var('n')]]]]]])
    out.append(['assign', t(['m', None]), ['f', 'modulo', [var('xi0'), ['i', 3]], {}]])
    out.append(['assign', t(['s', None]), ['b', '+', var('xr0'), ['r', g.pick(B.DYADIC)]]])
    if feat.get('alloc'):
        out.append(['assign', t(['a', None]), ['b', '*', var(src_real), ['r', g.pick(['0.5', '2.0', '1.5'])]]])
    def inner(prefix, salt):
        out.append(['assign', ['d', [[name, None]] + prefix + [['x', None]]], ['b', '+', var('yr0'), ['r', B.DYADIC[salt % len(B.DYADIC)]]]])
        out.append(['assign', ['d', [[name, None]] + prefix + [['k', None]]], lit(1 + salt % 3)])
        if feat.get('arrcomp'):
            out.append(['assign', ['d', [[name, None]] + prefix + [['v', None]]],
                        ['d', [['zr3', [['rng', lit(LB3[0]), lit(LB3[0] + 3), None]]]]]])
    if feat.get('nested'):
        inner([['in', None]], g.i(0, 9))
    if feat.get('aos'):
        for k in (1, 2):
            inner([['arr', [lit(k)]]], g.i(0, 9) + k)
    return out


LB3 = [1]   # lower bound of zr3 of the case being built (set by build())


def collect_object(name, feat, lbv):
    """statements that make every component observable through the kernel's outputs"""
    t = lambda *p: ['d', [[name, None]] + [list(x) for x in p]]
    out = [['assign', var('yi0'), ['f', 'modulo', [['b', '+', var('yi0'), t(['m', None])], ['i', 9973]], {}]],
           ['assign', var('yr0'), ['b', '+', var('yr0'), t(['s', None])]]]
    if feat.get('alloc'):
        out.append(['assign', var('zr2'), ['b', '+', var('zr2'), t(['a', None])]])
    def inner(prefix):
        out.append(['assign', var('yr0'), ['b', '+', var('yr0'), ['d', [[name, None]] + prefix + [['x', None]]]]])
        out.append(['assign', var('yi0'), ['b', '+', var('yi0'), ['d', [[name, None]] + prefix + [['k', None]]]]])
        if feat.get('arrcomp'):
            out.append(['assign', ['d', [['zr4', [['rng', None, None, None], lit(1)]]]],
                        ['b', '+', ['d', [['zr4', [['rng', None, None, None], lit(1)]]]],
                         ['d', [[name, None]] + prefix + [['v', [['rng', lit(lbv), lit(lbv + 2), None]]]]]]])
    if feat.get('nested'):
        inner([['in', None]])
    if feat.get('aos'):
        for k in (1, 2):
            inner([['arr', [lit(k)]]])
    if feat.get('alloc'):
        out.append(['dealloc', [t(['a', None])]])
    return out


def touch_members(name, feat, lbv, acc):
    """deterministic statements that read and write every member of a type(outer_t) dummy: the expansion always has work to
    do, and the first/last elements of the array members make shifted bounds observable"""
    t = lambda *p: ['d', [[name, None]] + [list(x) for x in p]]
    inc = lambda lhs, rhs: ['assign', lhs, ['b', '+', lhs, rhs]]
    out = [['assign', t(['m', None]), ['f', 'modulo', [['b', '+', t(['m', None]), lit(1)], ['i', 97]], {}]],
           inc(var(acc), t(['s', None]))]
    if feat.get('alloc'):
        out.append(inc(t(['a', [lit(1)]]), ['r', '0.5']))
        out.append(inc(t(['a', [var('n')]]), ['r', '0.25']))

    def inner(prefix):
        out.append(inc(t(*prefix, ['x', None]), ['r', '0.5']))
        out.append(['assign', t(*prefix, ['k', None]), ['f', 'modulo', [['b', '+', t(*prefix, ['k', None]), lit(2)], ['i', 97]], {}]])
        if feat.get('arrcomp'):
            out.append(inc(t(*prefix, ['v', [lit(lbv)]]), ['r', '0.25']))
            out.append(inc(t(*prefix, ['v', [lit(lbv + 3)]]), t(*prefix, ['x', None])))
    if feat.get('nested'):
        inner([['in', None]])
    if feat.get('aos'):
        for k in (1, 2):
            inner([['arr', [lit(k)]]])
    return out


def member_body(g, env, nst):
    return B.gen_body(g, env, 0, nst)


def build_types(case):
    mode, feat, opts = case['mode'], case['feat'], case.get('opts', {})
    g = SG(case['stream'], PROFILE)
    lb3 = g.pick([1, 1, 0, 2])
    LB3[0] = lb3
    inner, outer, lbv = type_model(feat)
    ent = entry_decls(lb3)
    tb = mode in ('tb', 'tb+dt') or feat.get('dt_tbcall') or feat.get('bound_direct')
    troutines = []
    # ---- type-bound procedures (module tmod)
    if tb:
        # bump: subroutine binding of outer_t
        d = [decl('this', 'class:outer_t', intent='inout'), decl('d', 'real', intent='in')]
        env = B.Env()
        env.vars['d'] = {'type': 'real', 'dims': None, 'ro': True}
        env.vars.update(member_vars('this', 'outer', feat, lbv))
        env.vars['n'] = {'type': 'int', 'dims': None, 'ro': True}
        pro = []
        dd = list(d) + [decl('n', 'int')]
        body = [['assign', var('n'), ['f', 'size', [['d', [['this', None], ['a', None]]]], {}] if feat.get('alloc') else lit(3)]]
        locals_for(env, dd, pro, 'b', 0, 1)
        gb = g.fork(101)
        body += pro + member_body(gb, env, 2) + [['assign', ['d', [['this', None], ['s', None]]],
                                                 ['b', '+', ['d', [['this', None], ['s', None]]], var('d')]]]
        troutines.append(routine('bump_outer', ['this', 'd'], dd, body))
        outer['procs'].append(['bump', 'bump_outer'])
        # get: function binding of outer_t
        d = [decl('this', 'class:outer_t', intent='in'), decl('k', 'int', intent='in'), decl('r', 'real')]
        env = B.Env()
        env.vars['k'] = {'type': 'int', 'dims': None, 'ro': True}
        env.vars.update(member_vars('this', 'outer', feat, lbv, ro=True))
        if feat.get('alloc'):
            env.vars.pop('this%a')          # extent unknown inside the function: use SIZE-free members only
        gb = g.fork(131)
        gp = SG(case['stream'], dict(PROFILE, sections=False, where=False, select=False, reductions=False), 131)
        body = [['assign', var('r'), B.real_expr(gp, env, 2)]]
        troutines.append(routine('get_outer', ['this', 'k'], d, body, kind='function', result='r'))
        outer['procs'].append(['get', 'get_outer'])
        # scale: subroutine binding of inner_t
        d = [decl('this', 'class:inner_t', intent='inout'), decl('f', 'real', intent='in')]
        env = B.Env()
        env.vars['f'] = {'type': 'real', 'dims': None, 'ro': True}
        env.vars.update(member_vars('this', 'inner', feat, lbv))
        pro = []
        dd = list(d)
        locals_for(env, dd, pro, 'c', 1, 0)
        gb = g.fork(151)
        body = pro + member_body(gb, env, 2) + [['assign', ['d', [['this', None], ['x', None]]],
                                                ['b', '*', ['d', [['this', None], ['x', None]]], var('f')]]]
        troutines.append(routine('scale_inner', ['this', 'f'], dd, body))
        inner['procs'].append(['scale', 'scale_inner'])
    tmod = module('tmod', routines=troutines, types=[inner, outer])
    return g, ent, inner, outer, lbv, tmod, lb3


def tb_calls(g, feat, obj, env_scalars_real):
    """type-bound call statements on object ``obj`` (a root name such as 't')"""
    out = []
    rp = [[obj, None]]
    if feat.get('tb_sub'):
        out.append(['call', ['d', rp + [['bump', None]]], [['r', g.pick(B.DYADIC)]], {}])
    if feat.get('tb_func'):
        out.append(['assign', var(env_scalars_real), ['b', '+', var(env_scalars_real),
                                                      ['f', obj + '%get', [lit(g.i(1, 3))], {}]]])
    if feat.get('tb_nested') and feat.get('nested'):
        out.append(['call', ['d', rp + [['in', None], ['scale', None]]], [['r', g.pick(['0.5', '2.0', '1.5'])]], {}])
    if feat.get('tb_aos') and feat.get('aos'):
        out.append(['call', ['d', rp + [['arr', [lit(g.i(1, 2))]], ['scale', None]]], [['r', g.pick(['0.5', '2.0'])]], {}])
    return out


def build_dt(case):
    mode, feat, opts = case['mode'], case['feat'], case.get('opts', {})
    g, ent, inner, outer, lbv, tmod, lb3 = build_types(case)
    callees = []
    # ---- leaf
    leaf_call = None
    if feat.get('leaf'):
        if feat.get('leaf_outer'):
            pd = decl('p', 'type:outer_t', intent='inout')
            env = B.Env()
            env.vars.update(member_vars('p', 'outer', feat, lbv))
        else:
            pd = decl('p', 'type:inner_t', intent=g.pick(['inout', 'in']))
            env = B.Env()
            env.vars.update(member_vars('p', 'inner', feat, lbv, ro=pd['intent'] == 'in'))
        dd = [decl('n', 'int', intent='in'), pd, decl('q', 'real', intent='inout')]
        env.vars['n'] = {'type': 'int', 'dims': None, 'ro': True}
        env.vars['q'] = {'type': 'real', 'dims': None}
        pro = []
        locals_for(env, dd, pro, 'e', 1, 0)
        body = pro + member_body(g.fork(211), env, 3)
        body.append(['assign', var('q'), ['b', '+', var('q'), ['d', [['p', None]] + ([['s', None]] if feat.get('leaf_outer') else [['x', None]])]]])
        callees.append(routine('leaf', ['n', 'p', 'q'], dd, body))
    # ---- layer
    dd = [decl('n', 'int', intent='in'), decl('t', 'type:outer_t', intent='inout'),
          decl('b', 'real', dims=[[1, 'n']], intent='inout'), decl('c', 'real', intent='inout')]
    env = B.Env()
    env.vars['n'] = {'type': 'int', 'dims': None, 'ro': True}
    env.vars['b'] = {'type': 'real', 'dims': [[1, 'n']]}
    env.vars['c'] = {'type': 'real', 'dims': None}
    env.vars.update(member_vars('t', 'outer', feat, lbv))
    pro = []
    locals_for(env, dd, pro, 'l', 1, 1)
    tbl = []
    if feat.get('tb_in_layer'):
        lf = dict(feat)
        if mode == 'tb+dt':
            # see the module docstring: these two constructs are the triggers 'whole_object' / 'whole_member'
            if not feat.get('whole_object'):
                lf['tb_func'] = False
            if not (opts.get('all_derived_types') or feat.get('whole_member')):
                lf['tb_nested'] = False
        tbl = tb_calls(g.fork(331), lf, 't', 'c')
    if tbl and feat.get('tbfunc_first'):
        # trigger: the bound calls are the FIRST references to members of t in layer
        body = pro + tbl + member_body(g.fork(311), env, 3)
    else:
        # a data member of t is referenced before any type-bound reference
        guard = [['assign', var('c'), ['b', '+', var('c'), ['d', [['t', None], ['s', None]]]]]] if tbl else []
        body = pro + member_body(g.fork(311), env, 3) + guard + tbl
    if feat.get('leaf'):
        if feat.get('leaf_outer'):
            body.append(['call', 'leaf', [var('n'), var('t'), var('c')], {}])
        else:
            src = None
            if feat.get('nested'):
                src = [['in', None]]
            elif feat.get('aos'):
                src = [['arr', [lit(g.i(1, 2))]]]
            if src is not None and feat.get('whole_member'):
                body.append(['call', 'leaf', [var('n'), ['d', [['t', None]] + src], var('c')], {}])
            else:
                # leaf works on a local object that is filled (and copied back) member by member
                dd.append(decl('lcopy', 'type:inner_t'))
                members = ['x', 'k'] + (['v'] if feat.get('arrcomp') else [])
                for m in members:
                    if src is not None:
                        rhs = ['d', [['t', None]] + src + [[m, None]]]
                    else:
                        rhs = {'x': var('c'), 'k': lit(2), 'v': ['r', '0.25']}[m]
                    body.append(['assign', ['d', [['lcopy', None], [m, None]]], rhs])
                body.append(['call', 'leaf', [var('n'), var('lcopy'), var('c')], {}])
                if src is not None:
                    for m in members:
                        body.append(['assign', ['d', [['t', None]] + src + [[m, None]]], ['d', [['lcopy', None], [m, None]]]])
    body += member_body(g.fork(351), env, 2)
    body += touch_members('t', feat, lbv, 'c')
    callees.append(routine('layer', ['n', 't', 'b', 'c'], dd, body))
    # ---- function callee
    if feat.get('func'):
        d = [decl('t', 'type:outer_t', intent='in'), decl('k', 'int', intent='in'), decl('r', 'real')]
        env = B.Env()
        env.vars['k'] = {'type': 'int', 'dims': None, 'ro': True}
        env.vars.update(member_vars('t', 'outer', feat, lbv, ro=True))
        env.vars.pop('t%a', None)
        gp = SG(case['stream'], dict(PROFILE, sections=False, where=False, select=False, reductions=False), 411)
        callees.append(routine('fred', ['t', 'k'], d, [['assign', var('r'), B.real_expr(gp, env, 2)]], kind='function', result='r'))
    # ---- kernel
    kd = list(ent) + [decl('t', 'type:outer_t')]
    kbody = init_object('t', feat, lbv, g.fork(511))
    two = feat.get('two_calls')
    if two:
        kd.append(decl('t2', 'type:outer_t'))
        kbody += init_object('t2', feat, lbv, g.fork(531), src_real='zr2')
    kd += [decl('kc', 'real')]
    kbody.append(['assign', var('kc'), var('xr0')])

    def call_layer(obj):
        if feat.get('kwcall'):
            return ['call', 'layer', [var('n')], {'t': var(obj), 'b': var('zr2'), 'c': var('kc')}]
        return ['call', 'layer', [var('n'), var(obj), var('zr2'), var('kc')], {}]
    kbody.append(call_layer('t'))
    if mode in ('tb', 'tb+dt') or feat.get('dt_tbcall'):
        kbody += tb_calls(g.fork(551), dict(feat, tb_sub=feat.get('tb_sub') or feat.get('dt_tbcall')), 't', 'kc')
    if feat.get('bound_direct'):
        kbody.append(['call', 'bump_outer', [var('t'), ['r', '0.5']], {}])
    if two:
        kbody.append(call_layer('t2'))
    if feat.get('func'):
        kbody.append(['assign', var('kc'), ['b', '+', var('kc'), ['f', 'fred', [var('t'), lit(g.i(1, 3))], {}]]])
    kbody.append(['assign', var('yr0'), ['b', '+', var('yr0'), var('kc')]])
    kbody += collect_object('t', feat, lbv)
    if two:
        kbody += collect_object('t2', feat, lbv)
    uses_t = [{'module': 'tmod', 'only': [['outer_t', None], ['inner_t', None]] +
               ([['bump_outer', None]] if feat.get('bound_direct') else [])}]
    kern = routine('kernel', [d['name'] for d in ent], kd, kbody)
    return assemble(case, g, ent, tmod, kern, callees, uses_t, lb3)


def assemble(case, g, ent, tmod, kern, callees, uses_t, lb3):
    feat = case['feat']
    files = []
    if tmod is not None:
        files.append({'name': 'tmod.f90', 'units': [['module', tmod]]})
    if feat.get('othermod') and callees:
        lmod = module('lmod', routines=callees, uses=uses_t)
        files.append({'name': 'lmod.f90', 'units': [['module', lmod]]})
        kmod = module('kmod', routines=[kern], uses=uses_t + [{'module': 'lmod', 'only': [[c['name'], None] for c in callees]}])
    else:
        kmod = module('kmod', routines=callees + [kern], uses=uses_t)
    files.append({'name': 'kmod.f90', 'units': [['module', kmod]]})
    gi = g.fork(901)
    inputs = B.gen_inputs(gi, ent, 4)
    idcase = g.fork(921).pick(['lower', 'lower', 'upper', 'mixed'])
    if case['mode'] == 'dt' and feat.get('kwcall') and not feat.get('kw_anycase'):
        idcase = 'lower'
    L = {'stream': [g.fork(911).i(0, 999) for _ in range(6)], 'indent': 2, 'cont': 0,
         'idcase': idcase, 'kwcase': g.fork(923).pick(['lower', 'upper'])}
    return {'files': files, 'entry': {'module': 'kmod', 'name': 'kernel', 'args': ent}, 'inputs': inputs, 'layout': L}


# ------------------------------------------------------------------ sequence association
def build_seq(case):
    feat = case['feat']
    g = SG(case['stream'], PROFILE)
    lb3 = g.pick([0, 2, -1]) if feat.get('seq_lb') else 1
    LB3[0] = lb3
    ent = entry_decls(lb3)
    callees = []
    tmod = None
    uses_t = []
    # callee sq(d, m): explicit-shape dummy d(m) or d(lo:lo+m-1)
    dlo = g.pick([0, 2]) if feat.get('seq_dummy_lb') else 1
    def mk_sq(name, rank2):
        if rank2:
            dd = [decl('m', 'int', intent='in'), decl('d', 'real', dims=[[1, 3], [1, 'm']], intent='inout')]
            env = B.Env()
            env.vars['d'] = {'type': 'real', 'dims': [[1, 3], [1, 1]]}
        else:
            dd = [decl('m', 'int', intent='in'),
                  decl('d', 'real', dims=[[dlo, 'm'] if dlo == 1 else [dlo, ['b', '+', var('m'), lit(dlo - 1)]]], intent='inout')]
            env = B.Env()
            env.vars['d'] = {'type': 'real', 'dims': [[dlo, dlo + 1]]}     # m >= 2 always
        env.vars['m'] = {'type': 'int', 'dims': None, 'ro': True}
        pro = []
        locals_for(env, dd, pro, 's', 1, 1)
        gb = SG(case['stream'], dict(PROFILE, sections=False, where=False, reductions=False, intrinsics=False), 211 + rank2)
        body = pro + B.gen_body(gb, env, 0, 3)
        # touch the LAST element of the dummy: sensitive to a wrong upper bound of the rewritten actual
        last = ['d', [['d', ([lit(3), var('m')] if rank2 else [['b', '+', var('m'), lit(dlo - 1)] if dlo != 1 else var('m')])]]]
        body.append(['assign', last, ['b', '+', last, ['r', '0.5']]])
        return routine(name, ['d', 'm'], dd, body)
    callees.append(mk_sq('sq', False))
    if feat.get('seq_rank2'):
        callees.append(mk_sq('sq2', True))
    kd = list(ent) + [decl('ki', 'int')]
    kbody = [['assign', var('ki'), ['b', '+', lit(1), ['f', 'modulo', [var('xi0'), ['i', 2]], {}]]]]     # 1 or 2
    calls = []
    # zr3(lb3:lb3+5): element k, length m with k+m-1 <= ub
    k = lb3 + g.i(0, 3)
    m = g.i(2, lb3 + 5 - k + 1) if lb3 + 5 - k + 1 >= 2 else 2
    calls.append(['call', 'sq', [elem('zr3', lit(k)), lit(m)], {}])
    if feat.get('seq_var_index'):
        calls.append(['call', 'sq', [elem('zr3', ['b', '+', var('ki'), lit(lb3)]), lit(2 + g.i(0, 1))], {}])
    if feat.get('seq_2d_actual'):
        # zr4(3,n): element (i, j) -> dummy d(m) inside column j: m <= 3-i+1
        i = g.i(1, 2)
        j = g.i(1, 3)
        mm = g.i(2, 3 - i + 1) if 3 - i + 1 >= 2 else 2
        if feat.get('seq_cross_column'):
            mm = 3 - i + 1 + g.i(1, 2)       # runs into the next column (legal Fortran; the rewritten actual is shorter)
            j = g.i(1, 2)
        calls.append(['call', 'sq', [elem('zr4', lit(i), lit(j)), lit(mm)], {}])
        if feat.get('seq_var_index'):
            calls.append(['call', 'sq', [elem('zr4', var('ki'), lit(g.i(1, 3))), lit(2)], {}])
    if feat.get('seq_rank2'):
        # rank-2 dummy d(3, m) from the first element of column j: columns j..j+m-1 <= 3 (n >= 3)
        j = g.i(1, 2)
        calls.append(['call', 'sq2', [elem('zr4', lit(1), lit(j)), lit(g.i(1, 3 - j + 1))], {}])
    if feat.get('seq_comp'):
        # array component of a derived-type object as the actual
        inner = {'name': 'box_t', 'comps': [decl('v', 'real', dims=[[1, 6]]), decl('w', 'real', dims=[[1, 3], [1, 4]])], 'procs': []}
        tmod = module('tmod', types=[inner])
        uses_t = [{'module': 'tmod', 'only': [['box_t', None]]}]
        kd.append(decl('bx', 'type:box_t'))
        kbody.append(['assign', ['d', [['bx', None], ['v', None]]], ['d', [['zr3', None]]]])
        kbody.append(['assign', ['d', [['bx', None], ['w', None]]], var('xr0')])
        kk = g.i(1, 4)
        calls.append(['call', 'sq', [['d', [['bx', None], ['v', [lit(kk)]]]], lit(g.i(2, 6 - kk + 1) if 6 - kk + 1 >= 2 else 2)], {}])
        calls.append(['call', 'sq', [['d', [['bx', None], ['w', [lit(2), lit(g.i(1, 4))]]]], lit(2)], {}])
    if feat.get('seq_nested_call'):
        # layer receives an array and passes an element on (the callee of the callee is rewritten as well)
        dd = [decl('n', 'int', intent='in'), decl('b', 'real', dims=[[1, 'n']], intent='inout')]
        lbody = [['call', 'sq', [elem('b', lit(g.i(1, 2))), lit(2)], {}]]
        callees.append(routine('layer', ['n', 'b'], dd, lbody))
        calls.append(['call', 'layer', [var('n'), var('zr2')], {}])
    # order of the calls from the stream
    for c in calls:
        kbody.append(c)
    if feat.get('seq_comp'):
        kbody.append(['assign', var('zr3'), ['d', [['bx', None], ['v', None]]]])
        kbody.append(['assign', var('yr0'), ['b', '+', var('yr0'), ['f', 'sum', [['d', [['bx', None], ['w', None]]]], {}]]])
    kern = routine('kernel', [d['name'] for d in ent], kd, kbody)
    return assemble(case, g, ent, tmod, kern, callees, uses_t, lb3)


# ------------------------------------------------------------------ assumed shape
def build_shape(case):
    feat = case['feat']
    g = SG(case['stream'], PROFILE)
    lb3 = g.pick([0, 2, -1]) if feat.get('shape_lb') else 1
    LB3[0] = lb3
    ent = entry_decls(lb3)
    callees = []

    def mk(name, ranks, salt, inner_call=None, extent_used=()):
        """callee with assumed-shape dummies x0.. of the given ranks (extents >= 3 in every dimension); extent_used: indices of
        rank-1 dummies whose SIZE and SUM are added to x0(1) (the whole extent of the dummy reaches the output)"""
        dd, args = [], []
        env = B.Env()
        for k, r in enumerate(ranks):
            nm = f'x{k}'
            dd.append(decl(nm, 'real', dims=[[':', ':']] * r, intent='inout'))
            args.append(nm)
            env.vars[nm] = {'type': 'real', 'dims': [[1, 3]] * r}
        pro = []
        locals_for(env, dd, pro, 'h', 1, 1)
        # no whole-array/section statements: the environment only knows a lower bound (3) of the true extents (n, 6, 3),
        # `x0(:) = x0(1:3)` would be a shape mismatch in the ORIGINAL
        gb = SG(case['stream'], dict(PROFILE, sections=False, where=False, intrinsics=bool(feat.get('shape_inquiry')),
                                     reductions=bool(feat.get('shape_inquiry'))), salt)
        body = pro + B.gen_body(gb, env, 0, 3)
        # the last element in every dimension and (optionally) the inquiry functions: sensitive to wrong bounds
        x0 = 'x0'
        r0 = ranks[0]
        last = ['d', [[x0, [['f', 'ubound', [var(x0), lit(k + 1)], {}] for k in range(r0)]]]]
        body.append(['assign', last, ['b', '+', last, ['r', '0.25']]])
        for k, r in enumerate(ranks):
            # element (1,..) of every dummy by literal index: sensitive to a changed lower bound
            e1 = ['d', [[f'x{k}', [lit(1)] * r]]]
            body.append(['assign', e1, ['b', '+', e1, ['r', B.DYADIC[k % len(B.DYADIC)]]]])
            if k > 0:
                # ... and its last element through UBOUND: sensitive to a wrong extent
                el = ['d', [[f'x{k}', [['f', 'ubound', [var(f'x{k}'), lit(j + 1)], {}] for j in range(r)]]]]
                body.append(['assign', el, ['b', '+', el, ['r', B.DYADIC[(k + 3) % len(B.DYADIC)]]]])
        if feat.get('shape_inquiry'):
            body.append(['assign', ['d', [[x0, [lit(1)] * r0]]],
                         ['b', '+', ['d', [[x0, [lit(1)] * r0]]],
                          ['f', 'real', [['b', '+', ['f', 'size', [var(x0)], {}], ['f', 'lbound', [var(x0), lit(1)], {}]], lit(8)], {}]]])
        for k in extent_used:
            e1 = ['d', [[x0, [lit(1)] * r0]]]
            body.append(['assign', e1, ['b', '+', e1, ['b', '+', ['f', 'sum', [var(f'x{k}')], {}],
                                                       ['f', 'real', [['f', 'size', [var(f'x{k}')], {}], lit(8)], {}]]]])
        if inner_call:
            body.append(inner_call)
        return routine(name, args, dd, body)

    kd = list(ent) + [decl('la', 'real', dims=[[1, 6]])]
    kbody = [['assign', var('la'), ['b', '*', var('zr3'), ['r', '0.5']]]]
    ranks = [1]
    actuals = [var('zr2')]
    if feat.get('shape_lb') or g.chance(50):
        ranks.append(1)
        actuals.append(var('zr3'))            # zr3(lb3:lb3+5)
    if feat.get('shape_2d'):
        ranks.append(2)
        actuals.append(var('zr4'))
    if feat.get('shape_literal_dims'):
        ranks.append(1)
        actuals.append(var('la'))
    if feat.get('shape_section'):
        ranks.append(1)
        actuals.append(['d', [['zr4', [['rng', None, None, None], lit(g.i(1, 3))]]]])
    extent_used = []
    if feat.get('shape_partial'):
        # rank-reducing section with a partial explicit range: extent n of a column of n+1 elements; what lies behind the
        # section (the second column) is not zero and is not part of the output sum of the first column
        np1 = ['b', '+', var('n'), lit(1)]
        kd.append(decl('lq', 'real', dims=[[1, np1], [1, 2]]))
        kbody.append(['assign', var('lq'), ['b', '+', var('xr0'), ['r', '0.0625']]])
        extent_used.append(len(ranks))
        ranks.append(1)
        actuals.append(['d', [['lq', [['rng', lit(2), np1, None], lit(1)]]]])
    inner = None
    if feat.get('shape_chain'):
        callees.append(mk('leaf', [ranks[0]], 211))
        inner = ['call', 'leaf', [var('x0')], {}]
    callees.append(mk('layer', ranks, 311, inner, extent_used=extent_used))
    kbody.append(['call', 'layer', actuals, {}])
    if feat.get('shape_partial'):
        col1 = ['d', [['lq', [['rng', None, None, None], lit(1)]]]]
        kbody.append(['assign', var('yr0'), ['b', '+', var('yr0'), ['f', 'sum', [col1], {}]]])
    if feat.get('shape_two_callees'):
        callees.append(mk('other', [1], 411))
        kbody.append(['call', 'other', [var('zr2')], {}])
    kbody.append(['assign', var('zr3'), ['b', '+', var('zr3'), var('la')]])
    kern = routine('kernel', [d['name'] for d in ent], kd, kbody)
    return assemble(case, g, ent, None, kern, callees, [], lb3)


# ------------------------------------------------------------------ duplicated actual arguments
def build_dup(case):
    feat = case['feat']
    g = SG(case['stream'], PROFILE)
    lb3 = 1
    LB3[0] = lb3
    ent = entry_decls(lb3)
    callees = []
    # callee dsub(n, a1.., out): several INTENT(IN) dummies; some receive the same actual
    dummies = []      # (name, type, dims)
    actual_of = {}
    groups = []
    if feat.get('dup_scalar'):
        groups.append([('p0', 'int', None), ('p1', 'int', None)] + ([('p2', 'int', None)] if feat.get('dup_triple') else []))
    if feat.get('dup_array'):
        groups.append([('q0', 'int', [[1, 'n']]), ('q1', 'int', [[1, 'n']])])
    if feat.get('dup_section'):
        groups.append([('s0', 'real', [[1, 3]]), ('s1', 'real', [[1, 3]])])
    if feat.get('dup_literal'):
        groups.append([('u0', 'real', None), ('u1', 'real', None)])
    if not groups:
        groups.append([('p0', 'int', None), ('p1', 'int', None)])
    group_actual = {'p': var('xi0'), 'q': var('zi0'), 's': ['d', [['zr4', [['rng', None, None, None], lit(g.i(1, 3))]]]],
                    'u': ['r', g.pick(B.DYADIC)]}
    # a non-duplicated dummy in between
    singles = [('w0', 'real', None)]
    order = []
    for grp in groups:
        order += grp
    order.insert(g.i(0, len(order)), singles[0])
    dd = [decl('n', 'int', intent='in')]
    env = B.Env()
    env.vars['n'] = {'type': 'int', 'dims': None, 'ro': True}
    for nm, t, dims in order:
        dd.append(decl(nm, t, dims=[list(x) for x in dims] if dims else None, intent='in'))
        env.vars[nm] = {'type': t, 'dims': [list(x) for x in dims] if dims else None, 'ro': True}
    dd.append(decl('o', 'real', intent='inout'))
    env.vars['o'] = {'type': 'real', 'dims': None}
    pro = []
    locals_for(env, dd, pro, 'g', 1, 1)
    gb = SG(case['stream'], dict(PROFILE, sections=False, where=False), 211)
    body = pro + B.gen_body(gb, env, 0, 3)
    # every dummy is read at least once, with a different weight (a removed/mis-mapped dummy changes the result)
    acc = var('o')
    for w, (nm, t, dims) in enumerate(order):
        ref = var(nm) if not dims else ['d', [[nm, [lit(1 + w % 3)]]]]
        term = ['b', '*', ref if t == 'real' else ['f', 'real', [ref, lit(8)], {}], ['r', B.DYADIC[w % len(B.DYADIC)]]]
        body.append(['assign', var('o'), ['b', '+', var('o'), term]])
    inner_args = None
    args = ['n'] + [nm for nm, _, _ in order] + ['o']
    if feat.get('dup_chain'):
        # dsub forwards its (duplicated) dummies to leaf, which reads both
        ld = [decl('a0', order[0][1], dims=order[0][2], intent='in'), decl('a1', order[1][1], dims=order[1][2], intent='in'),
              decl('o', 'real', intent='inout')]
        for d_ in ld[:2]:
            if d_['dims']:
                d_['dims'] = [list(x) for x in d_['dims']]
        refs = []
        for nm, (_, t, dims) in zip(('a0', 'a1'), order[:2]):
            ref = var(nm) if not dims else ['d', [[nm, [lit(2)]]]]
            refs.append(ref if t == 'real' else ['f', 'real', [ref, lit(8)], {}])
        lbody = [['assign', var('o'), ['b', '+', var('o'), ['b', '-', ['b', '*', refs[0], ['r', '2.0']], refs[1]]]]]
        need_n = any(dims and any(ub == 'n' for _, ub in dims) for _, _, dims in order[:2])
        if need_n:
            ld.insert(0, decl('n', 'int', intent='in'))
        callees.append(routine('leaf', (['n'] if need_n else []) + ['a0', 'a1', 'o'], ld, lbody))
        body.append(['call', 'leaf', ([var('n')] if need_n else []) + [var(order[0][0]), var(order[1][0]), var('o')], {}])
    callees.append(routine('dsub', args, dd, body))
    kd = list(ent) + [decl('ko', 'real')]
    kbody = [['assign', var('ko'), var('xr0')]]

    def mk_call():
        acts = []
        for nm, t, dims in order:
            if nm == 'w0':
                acts.append((nm, var('yr0')))
            else:
                acts.append((nm, group_actual[nm[0]]))
        if feat.get('dup_kw'):
            return ['call', 'dsub', [var('n')], dict([(nm, a) for nm, a in acts] + [('o', var('ko'))])]
        return ['call', 'dsub', [var('n')] + [a for _, a in acts] + [var('ko')], {}]
    kbody.append(mk_call())
    if feat.get('dup_two_calls'):
        kbody.append(['assign', var('ko'), ['b', '*', var('ko'), ['r', '0.5']]])
        kbody.append(mk_call())
    kbody.append(['assign', var('yr0'), ['b', '+', var('yr0'), var('ko')]])
    kern = routine('kernel', [d['name'] for d in ent], kd, kbody)
    return assemble(case, g, ent, None, kern, callees, [], lb3)


def build(case):
    mode = case['mode']
    if mode in ('dt', 'tb', 'tb+dt'):
        prog = build_dt(case)
    elif mode == 'seq':
        prog = build_seq(case)
    elif mode == 'shape':
        prog = build_shape(case)
    else:
        prog = build_dup(case)
    return prog


OPTS = {
    'dt': {'all_derived_types': [False, True]},
    'tb': {'duplicate_typebound_kernels': [False, True]},
    'tb+dt': {'all_derived_types': [False, True], 'duplicate_typebound_kernels': [False]},
    'seq': {},
    'shape': {},
    'dup': {'recurse_to_kernels': [True, False], 'rename_common': [False, True]},
}


@st.composite
def cases(draw, modes=None, triggers=None, rot=0, salt=0):
    """triggers: {feature: bool} - which known-finding triggers may be generated; rot rotates the option value lists (the
    minimal example of a shard then uses another option value than the shard with the same first mode); salt (the shard
    index) shifts the stream values: Hypothesis starts every shard with the same few simplest choice sequences (all-zero
    stream), which would otherwise be the same programs in every shard"""
    mode = draw(st.sampled_from(modes or MODES))
    # drawn as "switched off": Hypothesis' first (minimal) example of every shard then has all features ON instead of none
    feat = {f: not draw(st.booleans()) for f in FEATURES[mode]}
    opts = {k: draw(st.sampled_from(v[rot % len(v):] + v[:rot % len(v)])) for k, v in OPTS[mode].items()}
    stream = [(v + 131 * salt) % 1000 for v in draw(st.lists(st.integers(0, 999), min_size=8, max_size=40))]
    # a trigger is asked for by one draw in four; the request is read off the stream (a separate draw would map many
    # Hypothesis choice sequences to one and the same case, and Hypothesis then produces exact duplicates)
    avoided = []
    for i, t in enumerate(TRIGGERS[mode]):
        want = stream[-1 - i] % 4 == 0
        feat[t] = bool(want and (triggers or {}).get(t))
        if want and not feat[t]:
            avoided.append(t)
    return {'mode': mode, 'feat': feat, 'opts': opts, 'stream': stream, 'avoided': avoided}
