"""
FProg: a JSON-native mini-Fortran program model (ground truth for generated programs).

Everything is plain JSON data (lists / dicts / str / int / bool / None) so a case can be
stored as a replay file and re-rendered without Hypothesis.

Expressions (tagged lists)
    ['i', 5]                      integer literal (non-negative; negatives are ['u','-',...])
    ['r', '0.125']                real literal, decimal text without kind (REAL(8) in the program)
    ['l', True]                   logical literal
    ['s', 'text']                 character literal (value, unquoted)
    ['d', [[name, subs|None], ...]]   designator chain: x, a(i,j), t%c, t%arr(i)%x, a(2:n:2)
                                  a subscript is an expression or ['rng', lo|None, hi|None, step|None]
    ['u', '-', e] / ['u', '.not.', e]
    ['b', op, l, r]               op in + - * / ** // == /= < <= > >= .and. .or. .eqv. .neqv.
    ['p', e]                      explicit (redundant or not) parentheses
    ['f', name, [args], {kw: e}]  function reference (intrinsic or user function)

Declarations (dict)
    {'name', 'type': 'int'|'real'|'logical'|'char:<len>'|'type:<name>',
     'dims': None | [[lb, ub], ...]   (lb/ub: int | name of an integer variable | ':' assumed shape -> [lb, ':'])
     'intent': None|'in'|'out'|'inout', 'optional': bool, 'param': expr|None (PARAMETER value),
     'alloc': bool, 'save': bool, 'init': expr|None}

Statements (tagged lists)
    ['assign', lhs_designator, rhs]
    ['do', var, lo, hi, step|None, body, form]        form: 'plain' | 'label' | 'named'
    ['while', cond, body]
    ['if', [[cond, body], ...], else_body|None]        IF / ELSE IF / ELSE
    ['if1', cond, stmt]                                one-line IF
    ['select', expr, [[items, body], ...], default|None]   item: expr | ['rng', lo|None, hi|None, None]
    ['where', [[mask|None, body], ...]]                WHERE / ELSEWHERE(mask) / ELSEWHERE
    ['where1', mask, assign_stmt]
    ['assoc', [[name, expr], ...], body]
    ['call', name_or_designator, [args], {kw: e}]
    ['print', [items]]
    ['write', unit_expr, [items]] ; ['open', {spec: expr}] ; ['close', unit_expr] ; ['read', unit_expr, [designators]]
    ['alloc', [designator-with-bounds...]] ; ['dealloc', [designators]]
    ['comment', text] ; ['pragma', text]               text without the leading '!' / '!$'
    ['raw', text]                                       verbatim single-line statement (escape hatch)
    ['exit'] ; ['cycle'] ; ['return']                   ['exit'|'cycle', ['loop', var]] targets the enclosing *named* DO with that variable

Routine (dict)
    {'kind': 'subroutine'|'function', 'name', 'args': [names], 'decls': [decl...], 'body': [stmt...],
     'contains': [routine...], 'result': name|None, 'rtype': type|None, 'prefix': [..], 'uses': [use...],
     'stmtfuncs': [[name, [args], expr], ...], 'implicit_none': True}
Use (dict)      {'module', 'only': None|[[local, remote|None], ...]}
Typedef (dict)  {'name', 'comps': [decl...], 'procs': [[binding, target], ...]}
Module (dict)   {'name', 'uses': [...], 'decls': [decl...], 'types': [typedef...], 'routines': [routine...],
                 'access': None|'private'|'public'}
File (dict)     {'name': 'x.f90', 'units': [['module', module] | ['routine', routine], ...]}
"""

PREC = {
    '**': 10, '*': 9, '/': 9, '+': 7, '-': 7, '//': 6,
    '==': 5, '/=': 5, '<': 5, '<=': 5, '>': 5, '>=': 5,
    '.and.': 3, '.or.': 2, '.eqv.': 1, '.neqv.': 1,
}
REL_DOT = {'==': '.eq.', '/=': '.ne.', '<': '.lt.', '<=': '.le.', '>': '.gt.', '>=': '.ge.'}
ARITH = ('+', '-', '*', '/', '**')
RELOPS = ('==', '/=', '<', '<=', '>', '>=')
LOGOPS = ('.and.', '.or.', '.eqv.', '.neqv.')


def var(name):
    return ['d', [[name, None]]]


def elem(name, *subs):
    return ['d', [[name, list(subs)]]]


def lit(v):
    if isinstance(v, bool):
        return ['l', v]
    if isinstance(v, int):
        return ['i', v] if v >= 0 else ['u', '-', ['i', -v]]
    raise TypeError(v)


def decl(name, type_, dims=None, intent=None, param=None, **kw):
    d = {'name': name, 'type': type_, 'dims': dims, 'intent': intent, 'param': param,
         'optional': False, 'alloc': False, 'save': False, 'init': None}
    d.update(kw)
    return d


def routine(name, args=(), decls=(), body=(), kind='subroutine', **kw):
    r = {'kind': kind, 'name': name, 'args': list(args), 'decls': list(decls), 'body': list(body),
         'contains': [], 'result': None, 'rtype': None, 'prefix': [], 'uses': [], 'stmtfuncs': []}
    r.update(kw)
    return r


def module(name, routines=(), decls=(), types=(), uses=(), access=None):
    return {'name': name, 'uses': list(uses), 'decls': list(decls), 'types': list(types),
            'routines': list(routines), 'access': access}


def walk_stmts(body, path=()):
    """yield (path, stmt) in pre-order; path is a tuple of ints/strs addressing the statement"""
    for i, s in enumerate(body):
        p = path + (i,)
        yield p, s
        k = s[0]
        if k == 'do':
            yield from walk_stmts(s[5], p + ('b',))
        elif k == 'while':
            yield from walk_stmts(s[2], p + ('b',))
        elif k == 'if':
            for j, (_, b) in enumerate(s[1]):
                yield from walk_stmts(b, p + (f'c{j}',))
            if s[2] is not None:
                yield from walk_stmts(s[2], p + ('e',))
        elif k == 'if1':
            yield from walk_stmts([s[2]], p + ('s',))
        elif k == 'select':
            for j, (_, b) in enumerate(s[2]):
                yield from walk_stmts(b, p + (f'c{j}',))
            if s[3] is not None:
                yield from walk_stmts(s[3], p + ('e',))
        elif k == 'where':
            for j, (_, b) in enumerate(s[1]):
                yield from walk_stmts(b, p + (f'c{j}',))
        elif k == 'where1':
            yield from walk_stmts([s[2]], p + ('s',))
        elif k == 'assoc':
            yield from walk_stmts(s[2], p + ('b',))


def pathstr(p):
    return '.'.join(str(x) for x in p)
