"""
Shared machinery of C37 / C38: write a generated driver/kernel project (fprog/gen_scc.py) to a scratch directory, run a list of
loki transformations / pipelines over it with the Scheduler exactly as loki's own tests do, write the result with
FileWriteTransformation, build original and candidate with gfortran together with a PROGRAM that never passes through loki.
"""
import os
import shutil

os.environ.setdefault('LOKI_LOGGING', 'ERROR')      # before loki is imported: no per-transformation timing lines on stdout

from . import gen_scc
from .native import Native, FFLAGS, first_diff

CONFIG = {'default': {'mode': 'scc', 'role': 'kernel', 'expand': True, 'strict': True, 'enable_imports': True,
                      'ignore': ['parkind1']},
          'routines': {'driver': {'role': 'driver'}}}

FLAGS = list(FFLAGS) + ['-fcray-pointer']

_native = None
_counter = [0]


def native():
    global _native
    if _native is None:
        _native = Native()
    return _native


def dimensions(ns):
    from loki import Dimension
    horizontal = Dimension(name='horizontal', size=ns['nlon'], index=ns['jl'], bounds=(ns['start'], ns['end']),
                           aliases=(ns['knlon'],))
    vertical = Dimension(name='vertical', size=ns['nz'], index=ns['jk'], aliases=(ns['knz'],))
    blocking = Dimension(name='blocking', size=ns['nb'], index=ns['b'])
    return horizontal, vertical, blocking


def sources_of(case):
    """(files [(name, text)], main text): either rendered from case['model'] or given verbatim (hand-written replays)"""
    if 'text' in case:
        return [tuple(x) for x in case['text']['files']], case['text']['main']
    m = case['model']
    return gen_scc.render(m), gen_scc.main_program(m)


def one_file(files):
    return [('all.F90', '\n'.join(t if t.endswith('\n') else t + '\n' for _, t in files))]


def build_run(tag, files, main, flags=None):
    """modules and PROGRAM in ONE source file: one compiler process per build"""
    text = one_file(list(files) + [('main', main)])[0][1]
    return native().build_run(tag, [], text, flags=flags or FLAGS)


def temp_names(case):
    if 'model' not in case:
        return {}
    return {k['name']: [t['name'] for t in k['temps']] for k in case['model']['kernels']}


def apply(case, files, make_steps):
    """
    Run ``make_steps(horizontal, vertical, blocking)`` (a list of Transformation / Pipeline objects) through a Scheduler
    over the project. Returns (candidate files in the same order, info). loki exceptions propagate.
    """
    from loki import Scheduler, SchedulerConfig
    from loki.frontend import FP
    from loki.expression import symbols as sym
    from loki.transformations.build_system import FileWriteTransformation
    from loki import logging as llog
    llog.set_log_level(llog.ERROR)
    _counter[0] += 1
    root = os.path.join(os.environ.get('LOKIVERIF_SCRATCH') or '/tmp', f'sccproj{os.getpid()}_{_counter[0]}')
    src, out = os.path.join(root, 'src'), os.path.join(root, 'out')
    os.makedirs(src)
    os.makedirs(out)
    os.makedirs(os.path.join(root, 'xmods'))
    try:
        for name, text in files:
            with open(os.path.join(src, name), 'w') as f:
                f.write(text)
        sch = Scheduler(paths=[src], config=SchedulerConfig.from_dict(CONFIG), seed_routines=['driver'], frontend=FP,
                        xmods=[os.path.join(root, 'xmods')], output_dir=out)
        ns = case['ns'] if 'ns' in case else case['model']['ns']
        for step in make_steps(*dimensions(ns)):
            sch.process(step)
        sch.process(transformation=FileWriteTransformation())
        info = {'demoted': 0, 'hoisted': 0, 'removed': 0, 'kept': 0}
        temps = temp_names(case)
        for it in sch.items:
            r = getattr(it, 'ir', None)
            if r is None or not hasattr(r, 'variable_map') or it.local_name not in temps:
                continue
            vmap = r.variable_map
            argn = [str(a.name).lower() for a in r.arguments]
            for t in temps[it.local_name]:
                v = vmap.get(t)
                if v is None:
                    info['removed'] += 1
                elif t in argn:
                    info['hoisted'] += 1
                elif not isinstance(v, sym.Array):
                    info['demoted'] += 1
                else:
                    info['kept'] += 1
        cand = []
        for name, text in files:
            stem, ext = os.path.splitext(name)
            p = os.path.join(out, f'{stem}.scc{ext}')
            if os.path.exists(p):
                with open(p) as f:
                    cand.append((name, f.read()))
            else:
                cand.append((name, text))
        info['written'] = sorted(os.listdir(out))
        return cand, info
    finally:
        shutil.rmtree(root, ignore_errors=True)


def compare(orig, cand):
    """None if the candidate run equals the original run, else (kind, detail)"""
    if cand.stage.startswith('compile'):
        return 'candidate-does-not-compile', cand.err[-1500:]
    if not cand.ok:
        return 'wrong-result', 'candidate traps at run time: ' + cand.brief()
    if cand.out != orig.out:
        return 'wrong-result', 'output differs: ' + first_diff(orig.out, cand.out)
    return None


def generator_selfcheck(case, orig):
    """
    Called before a failure is reported: the ORIGINAL program must print the same when every temporary, INTENT(OUT) dummy and
    private scalar starts with either of two different poison values. If it does not, the generator produced a read of an
    undefined variable: that is a defect of the generator (harness error), never a finding about loki.
    """
    from .harness import GeneratorBug
    if 'model' not in case:
        return
    m = case['model']
    main = gen_scc.main_program(m)
    for k in (0, 1):
        res = build_run('poison', gen_scc.render(m, poison=k), main, flags=[f for f in FLAGS if not f.startswith('-ffpe-trap')])
        if not res.ok or res.out != orig.out:
            raise GeneratorBug('generated ORIGINAL program reads an undefined temporary (output depends on poison value):\n' +
                               '\n'.join(t for _, t in gen_scc.render(m)[1:]))


_orig_cache = {}


def original(case):
    """(files, main, RunResult of the original); one build per distinct program (the variants of a group share it)"""
    from ..core import case_hash
    from .harness import GeneratorBug
    files, main = sources_of(case)
    key = case_hash([files, main])
    if key not in _orig_cache:
        _orig_cache.clear()
        res = build_run('orig', files, main)
        if res.stage.startswith('compile'):
            raise GeneratorBug('original program does not compile:\n' + res.err[-1500:] + '\n---\n' + '\n'.join(t for _, t in files))
        _orig_cache[key] = res
    return files, main, _orig_cache[key]


def raised_inside_loki(exc):
    import traceback
    return any('/loki/' in fr.filename.replace('\\', '/') for fr in traceback.extract_tb(exc.__traceback__))
