"""
Profile generator for C28 (inlining) and the machinery shared by the transformation
profiles (C28 / C33 / C39): *spec-driven* program generation.

A case is ``{'spec': spec}``; the program is a pure function ``build(spec)`` of the spec:

    spec = {'ep': entry point name, 'opts': {...},            what is applied
            'flags': {feature: bool},                        which generated features are on
            'n': {'callees', 'funs', 'sites', 'fill', ...},  sizes
            's': {component: [ints]}}                        choice streams (one per component)

Hypothesis only draws the spec. All structural choices inside ``build`` are taken from the
per-component choice streams through ``SG`` (same interface as ``gen.G``), so that
  * switching one feature flag off re-generates "the same case without that feature"
    (other components keep their streams) -> feature-ablation reducer ``reduce_spec``;
  * a replay file is self-contained JSON and does not depend on Hypothesis.
The program blocks (typed expressions, in-bounds subscripts, definite assignment, bounded
loops) come from ``fprog/gen.py``.
"""
from hypothesis import strategies as st

from . import gen
from .model import var, lit, decl, routine, module


# --------------------------------------------------------------------------- shared machinery
class SG:
    """choice-stream driven stand-in for gen.G (deterministic function of the stream)"""

    def __init__(self, stream, prof):
        self.s = [int(x) for x in (stream or [0])] or [0]
        self.k = 0
        self.p = prof
        self.counter = 0

    def i(self, lo, hi):
        if hi <= lo:
            return lo
        n = len(self.s)
        v = self.s[self.k % n] + 7919 * (self.k // n)
        self.k += 1
        return lo + v % (hi - lo + 1)

    def pick(self, seq):
        seq = list(seq)
        return seq[self.i(0, len(seq) - 1)] if len(seq) > 1 else seq[0]

    def chance(self, pct):
        return self.i(0, 99) < pct

    def fresh(self, prefix):
        self.counter += 1
        return f'{prefix}{self.counter}'

    def sub(self, **kw):
        """same stream position, modified profile"""
        p = dict(self.p)
        p.update(kw)
        g = SG(self.s, p)
        g.k = self.k
        return g


def _expand(seed, label, n, mod):
    """n pseudo-random integers in [0, mod) as a pure function of (seed, label): sha256 in counter mode"""
    import hashlib
    out = []
    ctr = 0
    while len(out) < n:
        h = hashlib.sha256(f'{seed}/{label}/{ctr}'.encode()).digest()
        for j in range(0, 32, 4):
            out.append(int.from_bytes(h[j:j + 4], 'big') % mod)
        ctr += 1
    return out[:n]


def expand_spec(seed, eps, flags, streams, sizes, opts=None, flag_pct=50, stream_len=24):
    """
    The explicit spec (flags, sizes, choice streams, options) derived from ONE Hypothesis-drawn integer.
    Hypothesis' own integer/boolean draws are strongly biased towards small values and duplicates, which
    starves feature combinations; expanding a drawn seed gives independent, uniform feature flags, while the
    case stays explicit JSON that the ablation reducer edits field by field.
    """
    eps = list(eps)
    fl = {f: v < flag_pct for f, v in zip(flags, _expand(seed, 'flags', len(flags), 100))}
    nn = {}
    for (k, (lo, hi)), v in zip(sorted(sizes.items()), _expand(seed, 'sizes', len(sizes), 1 << 16)):
        nn[k] = lo + v % (hi - lo + 1)
    oo = {}
    for (k, vals), v in zip(sorted((opts or {}).items()), _expand(seed, 'opts', len(opts or {}), 1 << 16)):
        vals = list(vals)
        oo[k] = vals[v % len(vals)]
    return {'ep': eps[_expand(seed, 'ep', 1, 1 << 16)[0] % len(eps)], 'flags': fl, 'n': nn,
            's': {k: _expand(seed, 's:' + k, stream_len, 9973) for k in streams}, 'opts': oo, 'seed': seed}


def spec_strategy(eps, flags, streams, sizes, opts=None, flag_pct=50):
    return st.integers(0, (1 << 48) - 1).map(
        lambda seed: expand_spec(seed, eps, flags, streams, sizes, opts, flag_pct))


def on_flags(spec):
    return sorted(f for f, v in spec['flags'].items() if v)


def with_flag(spec, flag, value):
    s = dict(spec)
    s['flags'] = dict(spec['flags'])
    s['flags'][flag] = value
    return s


def with_size(spec, key, value):
    s = dict(spec)
    s['n'] = dict(spec['n'])
    s['n'][key] = value
    return s


def reduce_spec(spec, still_fails, flag_order=None, size_min=None, max_evals=40):
    """
    Feature-ablation reducer (big steps first, every step kept only while ``still_fails(variant)``):
    all sizes to their minimum (then one by one), all choice streams to the all-zero stream = simplest choices
    (then one by one), then delta debugging over the ON flags (halves, quarters, ..., single flags).
    Returns (minimal spec, evals). Every flag left ON is necessary for the failure (given the rest of the spec).
    """
    evals = [0]
    cur = [spec]

    def attempt(cand):
        if evals[0] >= max_evals:
            return False
        evals[0] += 1
        if still_fails(cand):
            cur[0] = cand
            return True
        return False

    def set_sizes(keys):
        c = dict(cur[0])
        c['n'] = dict(c['n'])
        for k in keys:
            c['n'][k] = (size_min or {}).get(k, c['n'][k])
        return c

    def zero_streams(keys):
        c = dict(cur[0])
        c['s'] = dict(c['s'])
        for k in keys:
            c['s'][k] = [0]
        return c

    def flags_off(fl):
        c = dict(cur[0])
        c['flags'] = dict(c['flags'])
        for f in fl:
            c['flags'][f] = False
        return c

    def ddmin_flags():
        order = [f for f in (flag_order or sorted(cur[0]['flags'])) if cur[0]['flags'].get(f)]
        n = 2
        while order and evals[0] < max_evals:
            size = max(1, len(order) // n)
            chunks = [order[i:i + size] for i in range(0, len(order), size)]
            removed = False
            for ch in chunks:
                if attempt(flags_off(ch)):
                    order = [f for f in order if f not in ch]
                    n = max(2, n - 1)
                    removed = True
                    break
            if not removed:
                if size == 1:
                    break
                n = min(len(order), n * 2)

    big = [k for k in sorted(size_min or {}) if cur[0]['n'].get(k, 0) > size_min[k]]
    if big and not attempt(set_sizes(big)):
        for k in big:
            attempt(set_sizes([k]))
    ddmin_flags()
    nz = [k for k in sorted(cur[0]['s']) if any(cur[0]['s'][k])]
    if nz:
        if attempt(zero_streams(nz)):
            ddmin_flags()
        else:
            ch = False
            for k in nz:
                ch = attempt(zero_streams([k])) or ch
            if ch:
                ddmin_flags()
    return cur[0], evals[0]


def apply_exclusions(spec, rules):
    """
    rules: list of (eps|None, [flags that must all be on], flag to switch off, reason).
    Returns (spec', [reasons]) with the triggers of listed known findings switched off.
    """
    reasons = []
    cur = spec
    for eps, need, off, reason in rules:
        if eps is not None and cur['ep'] not in eps:
            continue
        if all(cur['flags'].get(f) for f in need):
            cur = with_flag(cur, off, False)
            reasons.append(reason)
    return cur, reasons


def mentions(e, names):
    """does expression / statement JSON mention one of the variable names"""
    if isinstance(e, list):
        if e and e[0] == 'd' and isinstance(e[1], list):
            if e[1] and e[1][0][0] in names:
                return True
            return any(mentions(x, names) for part in e[1] for x in (part[1] or []))
        return any(mentions(x, names) for x in e)
    if isinstance(e, dict):
        return any(mentions(x, names) for x in e.values())
    return False


def default_of(t):
    return lit(1) if t == 'int' else (['r', '1.5'] if t == 'real' else ['l', True])


BASE_PROF = gen.profile(real_class='dyadic', functions=False, calls=False, print=False, where=False,
                        select=False, comments=False, labelled=False, named=False, intrinsics=True,
                        reductions=True, logic=True, if1=True, sections=True, negstep=True,
                        max_depth=2, max_stmts=4, expr_depth=2, array2d=False)
BASE_PROF['while'] = False

SAFE_LAYOUT_KEYS = ('kwcase', 'idcase', 'indent', 'relop', 'endjoin', 'cont', 'contlead', 'dimattr',
                    'realfmt', 'spaces', 'maxlen', 'dcolon')


def layout_from(g):
    """layout without decoy comments / blank lines / ';' joins (pragmas must stay attached)"""
    L = gen.gen_layout(g, 'full')
    L.update(semi=False, blank=False, comments=False, trailing=False)
    return L


# --------------------------------------------------------------------------- fast pair build
class PairBuild:
    """
    Build + run the ORIGINAL files with the driver in the background (so that the loki step overlaps with
    gfortran), then build the CANDIDATE files and link them against the driver object compiled for the original
    (the driver calls the entry routine positionally; its interface is not changed by the transformations).
    ``stdins``: one run per entry (None = no stdin). A candidate that fails on this fast path is re-checked by
    the caller with a regular full build, so the shortcut is only ever used to say "outputs equal".
    """
    RUN_TIMEOUT = 6

    def __init__(self, files, driver, tag='pair', flags=None, stdins=(None,)):
        import os
        import subprocess
        from .native import FFLAGS
        from . import harness
        self.flags = list(FFLAGS if flags is None else flags)
        self.stdins = list(stdins)
        self.dir = harness.native().workdir(tag)
        self.o = os.path.join(self.dir, 'o')
        self.c = os.path.join(self.dir, 'c')
        os.makedirs(self.o)
        os.makedirs(self.c)
        self.names = [n for n, _ in files]
        for n, t in files:
            with open(os.path.join(self.o, n), 'w') as f:
                f.write(t)
        with open(os.path.join(self.o, 'main_driver.f90'), 'w') as f:
            f.write(driver)
        for d in (self.o, self.c):
            for i, sin in enumerate(self.stdins):
                with open(os.path.join(d, f'in{i}'), 'w') as f:
                    f.write(sin or '')
        fl = ' '.join(self.flags)
        objs = ' '.join(os.path.splitext(n)[0] + '.o' for n in self.names)
        script = (f"gfortran {fl} -c {' '.join(self.names)} main_driver.f90 2> cerr && "
                  f"gfortran -o prog.x {objs} main_driver.o 2>> cerr && echo ok > built; " + self._runs())
        self.p = subprocess.Popen(['sh', '-c', script], cwd=self.o)
        self._orig = None

    def _runs(self):
        parts = []
        for i in range(len(self.stdins)):
            parts.append(f"timeout {self.RUN_TIMEOUT} ./prog.x < in{i} > out{i} 2> err{i}; echo $? > rc{i}")
        return "if [ -f built ]; then " + '; '.join(parts) + "; fi"

    def _results(self, d):
        import os
        from .native import RunResult

        def rd(n):
            try:
                with open(os.path.join(d, n), errors='replace') as f:
                    return f.read()
            except OSError:
                return ''
        if not os.path.exists(os.path.join(d, 'built')):
            return [RunResult('compile', 1, '', rd('cerr'))]
        out = []
        for i in range(len(self.stdins)):
            rc = rd(f'rc{i}').strip()
            rc = int(rc) if rc.lstrip('-').isdigit() else -1
            if rc == 124:
                out.append(RunResult('run-timeout', -1, rd(f'out{i}'), 'run timeout'))
            else:
                out.append(RunResult('run', rc, rd(f'out{i}'), rd(f'err{i}')))
        return out

    def original(self):
        if self._orig is None:
            try:
                self.p.wait(timeout=300)
            except Exception:  # noqa
                self.p.kill()
            self._orig = self._results(self.o)
        return self._orig

    def candidate(self, files):
        import os
        import subprocess
        names = [n for n, _ in files]
        for n, t in files:
            with open(os.path.join(self.c, n), 'w') as f:
                f.write(t)
        fl = ' '.join(self.flags)
        objs = ' '.join(os.path.splitext(n)[0] + '.o' for n in names)
        p = subprocess.Popen(['sh', '-c', f"gfortran {fl} -c {' '.join(names)} 2> cerr && echo ok > compiled"], cwd=self.c)
        self.original()
        try:
            p.wait(timeout=300)
        except Exception:  # noqa
            p.kill()
        if os.path.exists(os.path.join(self.c, 'compiled')) and os.path.exists(os.path.join(self.o, 'main_driver.o')):
            script = f"gfortran -o prog.x {objs} ../o/main_driver.o 2>> cerr && echo ok > built; " + self._runs()
            try:
                subprocess.run(['sh', '-c', script], cwd=self.c, timeout=300)
            except Exception:  # noqa
                pass
        return self._results(self.c)

    def close(self):
        import shutil
        try:
            if self.p.poll() is None:
                self.p.kill()
        except Exception:  # noqa
            pass
        shutil.rmtree(self.dir, ignore_errors=True)


class XCheck:
    """
    Differential check of one Fortran->Fortran transformation family over spec-built programs
    (shared by C28 / C33 / C39): evaluate, reduce (feature ablation), sign, report.

    genmod      : module with build(spec), FLAGS, SIZE_MIN
    apply_fn    : (spec, rendered, meta) -> (candidate files [(name, text)], ir_changed)     [calls loki]
    executes_fn : (spec, case) -> bool   a construct that the entry point rewrites executes unconditionally
    ep_opts / opt_baseline : options that matter per entry point and the value the reducer tries to restore
    """

    def __init__(self, pid, genmod, apply_fn, executes_fn, ep_opts, opt_baseline, exclude_rules, rule_hook=None):
        self.pid = pid
        self.gen = genmod
        self.apply_fn = apply_fn
        self.executes_fn = executes_fn
        self.ep_opts = ep_opts
        self.opt_baseline = opt_baseline
        self.exclude_rules = exclude_rules
        self.opt_candidates = {}     # option -> values ordered from simplest; the reducer takes the first that still fails

    # ---- hooks (C39 overrides) -------------------------------------------------------------
    def driver_and_stdins(self, case):
        from .native import make_driver
        return make_driver(case), (None,)

    def compare(self, case, origs, cands):
        """None when the candidate behaves as required, else (coarse, detail)"""
        from .native import same_output, first_diff
        o, c = origs[0], cands[0]
        if c.stage.startswith('compile'):
            from .harness import gfortran_error_class
            return 'candidate-does-not-compile:' + gfortran_error_class(c.err), c.err[-1200:]
        if not c.ok:
            return 'candidate-runtime-error', c.brief()
        if not same_output(o.out, c.out):
            return 'output-differs', first_diff(o.out, c.out)
        return None

    def original_ok(self, case, origs):
        return all(o.ok for o in origs)

    def confirm(self, case, rendered, cand_files, driver, stdins, origs):
        """full build of the candidate (driver compiled against the candidate modules)"""
        from . import harness
        res = []
        for sin in stdins:
            res.append(harness.native().build_run('cand', cand_files, driver, stdin=sin, timeout=self_timeout()))
            if res[-1].stage.startswith('compile'):
                res = [res[-1]] * len(stdins)
                break
        return self.compare(case, origs, res)

    # ---- evaluation -------------------------------------------------------------------------
    def evaluate(self, spec, known_text=None):
        """dict(status in ok|ub|reject|fail|same, coarse, detail, nontrivial, classes, case, rendered, exc, candidate)"""
        from . import harness
        from ..core import exc_bucket
        case = self.gen.build(spec)
        rendered = harness.render_case(case)
        alltext = '\n'.join(r['text'] for r in rendered)
        out = {'case': case, 'rendered': rendered, 'text': alltext,
               'classes': ['ep:' + spec['ep']] + ['f:' + f for f in case['meta']['features']]}
        if known_text is not None and alltext == known_text:
            out.update(status='same', coarse=None, detail='', nontrivial=False)
            return out
        driver, stdins = self.driver_and_stdins(case)
        files = [(r['name'], r['text']) for r in rendered]
        pb = PairBuild(files, driver, stdins=stdins)
        try:
            exc = None
            cand_files, changed = None, False
            try:
                cand_files, changed = self.apply_fn(spec, rendered, case['meta'])
            except Exception as e:  # noqa: loki raised on a generated input -> rejected bucket
                exc = e
            origs = pb.original()
            if origs[0].stage.startswith('compile'):
                raise harness.GeneratorBug('original program does not compile:\n' + origs[0].err[-1500:] + '\n---\n' + alltext)
            if not self.original_ok(case, origs):
                out.update(status='ub', coarse=None, detail=origs[0].brief(), nontrivial=False)
                return out
            if exc is not None:
                out.update(status='reject', coarse='loki-raises:' + exc_bucket(exc), detail=repr(exc)[:400],
                           nontrivial=False, exc=exc)
                return out
            vecs = origs[0].out.split('vector ')
            varied = len(set(v.split('\n', 1)[1] if '\n' in v else v for v in vecs[1:])) > 1 or \
                len(set(o.out for o in origs)) > 1
            executes = self.executes_fn(spec, case)
            out['nontrivial'] = bool(changed and executes and varied)
            out['classes'] += ['ir-changed' if changed else 'ir-unchanged'] + (['changed-site-executes'] if executes else []) + \
                ['site:%s/%s/%s' % (s.get('kind'), s.get('form'), s.get('where')) for s in case['meta'].get('sites', ())
                 if s.get('form')]
            out['candidate'] = '\n'.join(t for _, t in cand_files)
            cands = pb.candidate(cand_files)
            bad = self.compare(case, origs, cands)
            if bad is None:
                out.update(status='ok', coarse=None, detail='')
                return out
        finally:
            pb.close()
        bad = self.confirm(case, rendered, cand_files, driver, stdins, origs)
        if bad is None:
            out.update(status='ok', coarse=None, detail='')
            return out
        out.update(status='fail', coarse=bad[0], detail=bad[1])
        return out

    def compile_only(self, spec):
        from . import harness
        case = self.gen.build(spec)
        rendered = harness.render_case(case)
        alltext = '\n'.join(r['text'] for r in rendered)
        try:
            cand_files, _ = self.apply_fn(spec, rendered, case['meta'])
        except Exception:  # noqa
            return alltext, None
        res = harness.native().build_run('cc', cand_files, None, run=False)
        if res.stage.startswith('compile'):
            return alltext, 'candidate-does-not-compile:' + harness.gfortran_error_class(res.err)
        return alltext, None

    def reduce_failure(self, spec, coarse):
        from . import harness
        state = {'text': '\n'.join(r['text'] for r in harness.render_case(self.gen.build(spec)))}
        conly = coarse.startswith('candidate-does-not-compile')

        def still(variant):
            same_xf = variant['ep'] == spec['ep'] and variant['opts'] == spec['opts']
            if conly:
                text = '\n'.join(r['text'] for r in harness.render_case(self.gen.build(variant)))
                if same_xf and text == state['text']:
                    return True
                text, cls = self.compile_only(variant)
                good = cls == coarse
            else:
                r = self.evaluate(variant, known_text=state['text'] if same_xf else None)
                if r['status'] == 'same':    # the step did not change the program: take it without running anything
                    return True
                text = r['text']
                good = r['status'] == 'fail' and r['coarse'] == coarse
            if good and same_xf:
                state['text'] = text
            return good
        cur, _ = reduce_spec(spec, still, flag_order=self.gen.FLAGS, size_min=self.gen.SIZE_MIN, max_evals=60)
        for k in self.ep_opts.get(cur['ep'], ()):
            if cur['opts'].get(k) != self.opt_baseline[k]:
                cand = dict(cur, opts=dict(cur['opts'], **{k: self.opt_baseline[k]}))
                if still(cand):
                    cur = cand
        for k, values in self.opt_candidates.items():
            for v in values:
                if v == cur['opts'].get(k):
                    break
                cand = dict(cur, opts=dict(cur['opts'], **{k: v}))
                if still(cand):
                    cur = cand
                    break
        return cur

    def signature(self, spec, coarse):
        parts = [f for f in self.gen.FLAGS if spec['flags'].get(f)]
        ep = spec['ep']
        nb = [f'{k}={spec["opts"].get(k)}' for k in tuple(self.ep_opts.get(ep, ())) + tuple(self.opt_candidates)
              if spec['opts'].get(k) != self.opt_baseline[k]]
        if nb:
            ep += '(' + ','.join(nb) + ')'
        return f'{self.pid}:{ep}:{coarse}:{"+".join(parts) or "core"}'

    def check_spec(self, spec, ctx, reduce=True):
        r = self.evaluate(spec)
        case = {'spec': spec}
        ctx.case(case, r['nontrivial'], r['classes'] + ([] if r['status'] == 'ok' else ['status:' + r['status']]))
        if r['status'] == 'ub':
            ctx.exclude('original-traps-at-runtime(UB)')
            return
        if r['status'] == 'reject':
            ctx.reject(r['exc'], case)
            return
        if len(ctx.samples) < 2:
            ctx.sample({'ep': spec['ep'], 'features': r['case']['meta']['features'], 'source': r['text'][:3500]})
        if r['status'] != 'fail':
            return
        small = self.reduce_failure(spec, r['coarse']) if reduce else spec
        detail = r['detail']
        if small is not spec:
            rs = self.evaluate(small)
            if rs['status'] == 'fail':
                detail = rs['detail']
            else:
                small = spec
        ctx.fail(self.signature(small, r['coarse']), {'spec': small}, detail)

    def check_case(self, seedspec, ctx):
        spec, reasons = apply_exclusions(seedspec, self.exclude_rules)
        for why in reasons:
            ctx.exclude(why)
        if ctx.out_of_time():
            return
        self.check_spec(spec, ctx)

    def replay(self, case, ctx):
        # stored specs are already reduced: sign them as they are (one evaluation per replay)
        self.check_spec(case['spec'], ctx, reduce=False)
        return [(s, e['detail']) for s, e in ctx.failures.items()]


def self_timeout():
    return PairBuild.RUN_TIMEOUT


# --------------------------------------------------------------------------- C28 profile
EPS = ['internal', 'marked', 'stmtfunc', 'elemental', 'functions', 'constants', 'trafo']

# feature flags (DESIGN C28 feature profile); each one names ONE generated feature
FLAGS = [
    # actual-argument forms at inlined call sites
    'act_section',      # contiguous section a(lo:hi) as actual for an array dummy
    'act_stride',       # strided section a(lo:hi:2)
    'act_open',         # open-ended section a(lo:)
    'act_2d',           # rank-reducing section m(:, j) of a 2-D array
    'act_larger',       # whole array larger than the explicit-shape dummy
    'act_elem',         # array element as actual for a scalar dummy
    'act_expr',         # expression as actual for an intent(in) scalar dummy
    'kw',               # keyword arguments (order differs from dummy order)
    'opt',              # callee has an OPTIONAL dummy (always present unless opt_absent)
    'opt_absent',       # some call omits the optional argument
    # dummy-argument forms
    'dummy_lb',         # explicit-shape dummy with lower bound /= 1
    'dummy_assumed',    # assumed-shape dummy a(:) / a(0:)
    'dummy_dimn',       # explicit-shape dummy a(kd) sized by another dummy
    'caller_lb',        # caller arrays with lower bound /= 1
    'local_dimn',       # callee local array sized by a dummy
    # names
    'clash_local',      # callee locals named like caller locals
    'clash_dummy',      # callee dummies named like caller locals (actual is something else)
    # structure
    'nested',           # callee calls another callee (inline depth 2)
    'multi_site',       # the same callee is called more than once
    'site_in_loop',     # call site inside a DO loop, loop variable used in the actuals
    'site_in_if',       # call site inside an IF block
    'callee_return',    # callee body contains a conditional RETURN
    'callee_whole',     # callee body uses whole-array operations on its array dummy
    'unmarked_mix',     # a second call to a marked callee is left without pragma
    'routine_use',      # kernel imports the callees by a routine-level USE (not module-level)
    # functions
    'fn_in_expr', 'fn_nested', 'fn_twice', 'fn_as_arg', 'fn_in_cond', 'fn_in_if1', 'fn_in_while',
    'fn_in_bound', 'fn_in_elseif', 'fn_result_clause', 'fn_calls_fn', 'fn_multi_stmt', 'fn_kw',
    'elem_array',       # elemental function applied to array arguments
    # statement functions
    'sf_nested', 'sf_expr_args', 'sf_in_cond', 'sf_uses_local',
    # parameters
    'param_neg', 'param_expr', 'param_local', 'param_in_dims', 'param_real',
    # internal procedures
    'int_host_read', 'int_host_write', 'int_host_array', 'int_fun',
    'clash_actual',     # (with clash_dummy) an actual argument mentions a caller variable named like a dummy of the callee
    # layout / shapes that are triggers of listed findings (see props/c28.py EXCLUDE_FLAGS)
    'mixed_case',       # identifiers are spelled in varying letter case (layout idcase = mixed)
    'const_elseif',     # an ELSE IF branch may have a compile-time constant condition
    'site_if1_call',    # one-line IF whose statement is a CALL to an internal subroutine
    'lb_inquiry',       # LBOUND / UBOUND inquiry on an array dummy whose lower bound is not 1
    'act_lower_zero',   # section actual whose lower bound is the literal 0
    'assumed_caller_lb',  # assumed-shape dummy a(:) associated with (a section of) a caller array whose lower bound is not 1
    'act_muldiv',       # actual argument expression with * or / as top-level operator (otherwise written in parentheses)
    'member_uses_param',  # an internal procedure references a PARAMETER of the host (imported or local)
    'int_uncalled',     # an internal subroutine that is never called stays in the program
    'callee_stride',    # the callee references a strided section of its array dummy
    'callee_zero_bound',  # the callee references a section of its array dummy with the literal bound 0
]
# probability (percent) of a flag being on; default FLAG_PCT
FLAG_PCT = 45
FLAG_PCTS = {'int_fun': 15, 'fn_in_elseif': 12, 'opt_absent': 30, 'mixed_case': 30, 'routine_use': 30, 'unmarked_mix': 30}
SIZES = {'subs': (1, 3), 'funs': (1, 2), 'sites': (0, 3), 'fill': (0, 2), 'ints': (1, 2), 'sfs': (1, 2), 'params': (1, 3)}
SIZE_MIN = {'subs': 1, 'funs': 1, 'sites': 0, 'fill': 0, 'ints': 1, 'sfs': 1, 'params': 1}
STREAMS = ['kernel', 'sites', 'sub0', 'sub1', 'sub2', 'fun0', 'fun1', 'int0', 'int1', 'sf', 'par', 'inputs', 'layout']
OPTS = {
    'external_only': [True, False], 'adjust_imports': [True, False],
    'inline_constants': [False, True], 'inline_elementals': [True, False], 'inline_stmt_funcs': [False, True],
    'inline_internals': [False, True], 'inline_marked': [True, False], 'remove_dead_code': [True, False],
    'member_alias': [False, True],
}


def program_spec(seed):
    """
    the explicit spec of ONE program (flags, sizes, choice streams) plus one drawn option set, as a pure
    function of a Hypothesis-drawn integer; the program does not depend on 'ep' / 'opts' (which entry point
    is applied is decided by the variant list of props/c28.py)
    """
    spec = expand_spec(seed, EPS, FLAGS, STREAMS, SIZES, OPTS, flag_pct=FLAG_PCT)
    draws = _expand(seed, 'flags', len(FLAGS), 100)
    spec['flags'] = {f: v < FLAG_PCTS.get(f, FLAG_PCT) for f, v in zip(FLAGS, draws)}
    return spec


def specs():
    return st.integers(0, (1 << 48) - 1).map(program_spec)


class B:
    """builder state for one spec"""

    def __init__(self, spec):
        self.spec = spec
        self.fl = spec['flags']
        self.ep = spec['ep']
        self.n = spec['n']
        self.features = set()     # features that really occur in the built program
        self.sites = []           # meta per generated site

    def F(self, name):
        return bool(self.fl.get(name))

    def g(self, comp, **kw):
        p = dict(BASE_PROF)
        p.update(kw)
        return SG(self.spec['s'].get(comp) or [0], p)

    def use(self, feat):
        self.features.add(feat)


def what_applies(spec):
    """which constructs the entry point of this spec rewrites"""
    ep, o = spec['ep'], spec.get('opts', {})
    if ep == 'trafo':
        return {'marked': bool(o.get('inline_marked')), 'internal': bool(o.get('inline_internals')),
                'stmtfunc': bool(o.get('inline_stmt_funcs')), 'elemental': bool(o.get('inline_elementals')),
                'functions': False, 'constants': bool(o.get('inline_constants'))}
    return {'marked': ep == 'marked', 'internal': ep == 'internal', 'stmtfunc': ep == 'stmtfunc',
            'elemental': ep == 'elemental', 'functions': ep == 'functions', 'constants': ep == 'constants'}


# ---- callee generators ------------------------------------------------------------------
def make_sub(b, g, name, idx, earlier_subs, funs, host=None, internal=False):
    """
    a callee subroutine. Returns (routine, sig); sig = {'name', 'dummies': [dict(name,type,dims,intent,optional,
    form,E,role)], 'internal', 'hread': set, 'hwrite': set}
    """
    F = b.F
    env = gen.Env()
    env.funcs = []
    decls, dummies, prologue = [], [], []
    clash_d = F('clash_dummy')
    used_names = set()

    def dname(k, t):
        if clash_d:
            # named like kernel locals; type taken from the draw, not from the kernel local of that name
            cand = ['li0', 'lr0', 'li1', 'lr1', 'lb0', 'lia0'][k % 6]
            b.use('clash_dummy')
        else:
            cand = f'p{"zyxwvu"[k % 6]}{idx}'
        used_names.add(cand)
        return cand

    k = 0
    # scalar intent(in)
    for _ in range(g.i(1, 2)):
        t = g.pick(['int', 'real', 'int'])
        nm = dname(k, t)
        k += 1
        dummies.append(dict(name=nm, type=t, dims=None, intent='in', optional=False, role='in'))
        decls.append(decl(nm, t, intent='in'))
        env.vars[nm] = {'type': t, 'dims': None, 'ro': True}
    # scalar inout / out
    t = g.pick(['int', 'real'])
    intent = g.pick(['inout', 'inout', 'out'])
    nm = dname(k, t)
    k += 1
    dummies.append(dict(name=nm, type=t, dims=None, intent=intent, optional=False, role='res'))
    decls.append(decl(nm, t, intent=intent))
    env.vars[nm] = {'type': t, 'dims': None}
    if intent == 'out':
        prologue.append(['assign', var(nm), gen.init_value(g, t)])
    res_name = nm
    # array dummy
    arr = None
    if g.chance(75):
        at = g.pick(['real', 'int', 'real'])
        E = g.pick([3, 4]) if at == 'real' else g.pick([3, 4])
        forms = ['explicit']
        if F('dummy_lb'):
            forms += ['lb', 'lb']
        if F('dummy_assumed'):
            forms += ['assumed', 'assumed0']
        if F('dummy_dimn'):
            forms += ['dimn', 'dimn']
        form = g.pick(forms)
        # sections of a dummy with lower bound <= 0 cannot avoid the bound 0 (see _dummy_sections)
        pos_only = 'callee_zero_bound' in b.fl and F('callee_whole') and not F('callee_zero_bound')
        if pos_only and form == 'assumed0':
            form = 'assumed'
        nm = dname(k, at)
        k += 1
        aint = g.pick(['inout', 'inout', 'in'])
        kd = None
        if form == 'explicit':
            ddims, edims = [[1, E]], [[1, E]]
        elif form == 'lb':
            lb = g.pick([0, 2, -1])
            if pos_only:
                lb = 2
            ddims, edims = [[lb, lb + E - 1]], [[lb, lb + E - 1]]
            b.use('dummy_lb')
        elif form == 'assumed':
            ddims, edims = [[None, ':']], [[1, E]]
            b.use('dummy_assumed')
        elif form == 'assumed0':
            ddims, edims = [[0, ':']], [[0, E - 1]]
            b.use('dummy_assumed')
        else:
            kd = f'kd{idx}'
            ddims, edims = [[1, kd]], [[1, E]]
            b.use('dummy_dimn')
        if kd:
            dummies.append(dict(name=kd, type='int', dims=None, intent='in', optional=False, role='kd', E=E))
            decls.append(decl(kd, 'int', intent='in'))
            env.vars[kd] = {'type': 'int', 'dims': None, 'ro': True}
        dummies.append(dict(name=nm, type=at, dims=ddims, intent=aint, optional=False, role='arr', form=form, E=E))
        decls.append(decl(nm, at, dims=ddims, intent=aint))
        env.vars[nm] = {'type': at, 'dims': edims, 'ro': aint == 'in'}
        arr = (nm, at, E, aint, kd)
    # optional scalar intent(in), last dummy
    opt = None
    if F('opt'):
        t = g.pick(['int', 'real'])
        nm = f'po{idx}'
        dummies.append(dict(name=nm, type=t, dims=None, intent='in', optional=True, role='opt'))
        decls.append(decl(nm, t, intent='in', optional=True))
        opt = (nm, t)
        b.use('opt')
    # host-associated variables (internal procedures)
    hread, hwrite = set(), set()
    if internal and host is not None:
        locals_prefix = 'l' if F('clash_local') else f't{idx}'
        shadowed = set()
        if F('clash_local'):
            shadowed = {n for n in host.vars if n.startswith('l')}
        cand = [n for n, v in host.vars.items() if n not in shadowed and n not in used_names and not v.get('fuel')
                and n != 'n' and not (v.get('param') and not F('member_uses_param'))]
        if F('int_host_read'):
            for n in cand:
                v = host.vars[n]
                if not v['dims'] and g.chance(45) and len(hread) < 3:
                    env.vars[n] = dict(v, ro=True)
                    hread.add(n)
            if hread:
                b.use('int_host_read')
        if F('int_host_array'):
            ac = [n for n in cand if host.vars[n]['dims'] and len(host.vars[n]['dims']) == 1]
            if ac:
                n = g.pick(ac)
                env.vars[n] = dict(host.vars[n], ro=True)
                hread.add(n)
                b.use('int_host_array')
        if F('int_host_write'):
            wc = [n for n in cand if not host.vars[n]['dims'] and not host.vars[n].get('ro') and n not in hread
                  and host.vars[n]['type'] in ('int', 'real')]
            if wc:
                n = g.pick(wc)
                env.vars[n] = dict(host.vars[n])
                hwrite.add(n)
                b.use('int_host_write')
    if host is not None and any(host.vars[n].get('param') for n in hread):
        b.use('member_uses_param')
    # locals
    prefix = 'l' if F('clash_local') else f't{idx}'
    if F('clash_local'):
        b.use('clash_local')
    ldecls, lpro = [], []
    lenv = gen.Env()
    gen.declare_locals(g, lenv, ldecls, lpro, nscal=(1, 2), narr=(0, 1), prefix=prefix)
    taken = set(env.vars) | used_names
    decls += [d for d in ldecls if d['name'] not in taken]
    prologue += [s_ for s_ in lpro if s_[1][1][0][0] not in taken]
    for nm_, v_ in lenv.vars.items():
        if nm_ not in taken:
            env.vars[nm_] = v_
    env.loopvars += [x for x in lenv.loopvars if x not in taken]
    if F('local_dimn') and arr and arr[4]:
        ln = f'{prefix}dn'
        decls.append(decl(ln, arr[1], dims=[[1, arr[4]]]))
        env.vars[ln] = {'type': arr[1], 'dims': [[1, arr[2]]]}
        prologue.append(['assign', var(ln), gen.init_value(g, arr[1])])
        b.use('local_dimn')
    # body
    gb = g.sub(sections=F('callee_whole'), reductions=F('callee_whole'))
    body = list(prologue)
    body += gen.gen_body(gb, env, 1, 3)
    if F('callee_return') and g.chance(50):
        body.append(['if1', gen.log_expr(gb, env, 1), ['return']])
    # make every dummy matter
    rt = env.vars[res_name]['type']
    ins = [d for d in dummies if d['role'] == 'in']
    acc = var(res_name)
    for d in ins:
        term = var(d['name']) if d['type'] == rt else (
            ['f', 'real', [var(d['name']), ['i', 8]], {}] if rt == 'real' else ['f', 'int', [var(d['name'])], {}])
        if rt == 'int' and d['type'] == 'real':
            term = ['f', 'int', [['b', '*', var(d['name']), ['r', '2.0']]], {}]
        acc = ['b', '+', acc, term]
    body.append(['assign', var(res_name), acc])
    if arr:
        an, at, E, aint, kd = arr
        lb = env.vars[an]['dims'][0][0]
        lv = env.loopvars[0]
        if aint != 'in':
            src = var(ins[0]['name'])
            if ins[0]['type'] != at:
                src = ['f', 'real', [src, ['i', 8]], {}] if at == 'real' else ['f', 'int', [src], {}]
            if F('callee_whole') and g.chance(50):
                body.append(['assign', var(an), ['b', '+', var(an), src]])
                b.use('callee_whole')
            else:
                body.append(['do', lv, lit(lb), lit(lb + E - 1), None,
                             [['assign', ['d', [[an, [var(lv)]]]], ['b', '+', ['d', [[an, [var(lv)]]]], src]]], 'plain'])
            body.append(['assign', ['d', [[an, [lit(lb + 1)]]]],
                         ['b', '-', ['d', [[an, [lit(lb)]]]], ['d', [[an, [lit(lb + E - 1)]]]]]])
        elt = ['d', [[an, [lit(lb + g.i(0, E - 1))]]]]
        if F('callee_whole') and g.chance(60):
            elt = ['f', g.pick(['sum', 'maxval']), [var(an)], {}]
            b.use('callee_whole')
            if g.chance(30):
                elt = ['b', '+', elt, ['f', g.pick(['size', 'ubound', 'lbound']),
                                        [var(an)] + ([] if False else [['i', 1]]), {}]] if at == 'int' else elt
        if rt != at:
            elt = ['f', 'real', [elt, ['i', 8]], {}] if rt == 'real' else ['f', 'int', [elt], {}]
        body.append(['assign', var(res_name), ['b', '+', var(res_name), elt]])
        if kd:
            body.append(['assign', var(res_name), ['b', '+', var(res_name),
                                                   var(kd) if rt == 'int' else ['f', 'real', [var(kd), ['i', 8]], {}]]])
            if F('local_dimn'):
                ln = f'{prefix}dn'
                s = ['f', 'sum', [var(ln)], {}]
                if rt != at:
                    s = ['f', 'real', [s, ['i', 8]], {}] if rt == 'real' else ['f', 'int', [s], {}]
                body.append(['assign', var(res_name), ['b', '+', var(res_name), s]])
    if opt:
        on, ot = opt
        term = var(on)
        if ot != rt:
            term = ['f', 'real', [term, ['i', 8]], {}] if rt == 'real' else ['f', 'int', [term], {}]
        if g.chance(50):
            body.append(['if', [[['f', 'present', [var(on)], {}],
                                 [['assign', var(res_name), ['b', '+', var(res_name), term]]]]],
                         [['assign', var(res_name), ['b', '-', var(res_name), default_of(rt)]]] if g.chance(50) else None])
        else:
            body.append(['if1', ['f', 'present', [var(on)], {}], ['assign', var(res_name), ['b', '+', var(res_name), term]]])
    for hw in sorted(hwrite):
        t = env.vars[hw]['type']
        body.append(['assign', var(hw), ['b', '+', var(hw), gen.expr_of(gb, env, t, 1)]])
    for hr in sorted(hread):
        v = env.vars[hr]
        if v['dims']:
            e = ['d', [[hr, [lit(v['dims'][0][0] + 1)]]]]
        else:
            e = var(hr)
        if v['type'] == 'logical':
            e = ['f', 'merge', [lit(1), lit(0), e], {}]
            vt = 'int'
        else:
            vt = v['type']
        if vt != rt:
            e = ['f', 'real', [e, ['i', 8]], {}] if rt == 'real' else ['f', 'int', [e], {}]
        body.append(['assign', var(res_name), ['b', '+', var(res_name), e]])
    # nested call (depth 2)
    nested_sig = None
    if F('nested') and earlier_subs and not internal:
        tgt = earlier_subs[g.i(0, len(earlier_subs) - 1)]
        call = make_call(b, g, env, tgt, marked=True, allow_absent=True)
        if call is not None:
            body += call
            nested_sig = tgt['name']
            b.use('nested')
    if F('callee_return'):
        # a plain RETURN as last statement: legal, no effect in the callee, and always executed
        body.append(['return'])
        b.use('callee_return')
    if arr and env.vars[arr[0]]['dims'][0][0] != 1 and 'lb_inquiry' in b.fl:
        lo_, hi_ = env.vars[arr[0]]['dims'][0]
        if F('lb_inquiry'):
            if _bound_inquiries(body, arr[0], None)[0]:
                b.use('lb_inquiry')
        else:
            # the same program with the inquiry folded to its value
            body = _bound_inquiries(body, arr[0], (lo_, hi_))[1]
    if arr and 'callee_stride' in b.fl:
        lo_, hi_ = env.vars[arr[0]]['dims'][0]
        seen = {}
        body = _dummy_sections(body, arr[0], lo_, hi_, not F('callee_stride'), not F('callee_zero_bound'), seen)
        for k_ in ('callee_stride', 'callee_zero_bound'):
            if seen.get(k_):
                b.use(k_)
    r = routine(name, [d['name'] for d in dummies], decls, body)
    sig = {'name': name, 'dummies': dummies, 'internal': internal, 'hread': sorted(hread), 'hwrite': sorted(hwrite),
           'calls': nested_sig, 'kind': 'sub'}
    return r, sig


def _litval(e):
    if e is None:
        return None
    if e[0] == 'i':
        return e[1]
    if e[0] == 'u' and e[1] == '-' and e[2][0] == 'i':
        return -e[2][1]
    return None


def _dummy_sections(e, name, lb, ub, nostride, nozero, seen):
    """
    rewrite the sections name(lo:hi[:step]) of the 1-D array dummy inside statement / expression JSON: without the
    stride (same number of elements, contiguous from lo) and / or moved to a window of the same extent whose bounds are
    not the literal 0 (the whole array if only the full range is left); what remains is recorded in ``seen``
    """
    if isinstance(e, dict):
        return {k: _dummy_sections(x, name, lb, ub, nostride, nozero, seen) for k, x in e.items()}
    if not isinstance(e, list):
        return e
    if len(e) == 2 and e[0] == 'd' and isinstance(e[1], list) and len(e[1]) == 1 and e[1][0][0] == name and e[1][0][1] \
            and len(e[1][0][1]) == 1 and isinstance(e[1][0][1][0], list) and e[1][0][1][0][:1] == ['rng']:
        _, lo, hi, st = e[1][0][1][0]
        lo_v = lb if lo is None else _litval(lo)
        hi_v = ub if hi is None else _litval(hi)
        st_v = 1 if st is None else _litval(st)
        if lo_v is None or hi_v is None or st_v is None or st_v < 1:
            return e
        count = (hi_v - lo_v) // st_v + 1
        if st_v != 1 and nostride:
            st_v, hi_v, hi, st = 1, lo_v + count - 1, 1, None
            lo = lit(lo_v)
        if nozero and ((lo is not None and lo_v == 0) or (hi is not None and hi_v == 0)) and st_v == 1:
            wins = [w for w in range(lb, ub - count + 2) if w != 0 and w + count - 1 != 0]
            if wins:
                lo_v = min(wins, key=lambda w: (abs(w - lo_v), w))
                hi_v = lo_v + count - 1
            elif count == ub - lb + 1:
                return var(name)
        if st_v != 1:
            seen['callee_stride'] = True
        if (lo is not None and lo_v == 0) or (hi is not None and hi_v == 0):
            seen['callee_zero_bound'] = True
        return ['d', [[name, [['rng', None if lo is None and lo_v == lb else lit(lo_v),
                               None if hi is None and hi_v == ub else lit(hi_v), None if st_v == 1 else lit(st_v)]]]]]
    return [_dummy_sections(x, name, lb, ub, nostride, nozero, seen) for x in e]


def _bound_inquiries(e, name, fold):
    """(found, e') for LBOUND/UBOUND(name[, 1]) inside statement/expression JSON; fold=(lb, ub) replaces them by literals"""
    if isinstance(e, list):
        if len(e) == 4 and e[0] == 'f' and e[1] in ('lbound', 'ubound') and e[2] and e[2][0] == var(name):
            return True, (e if fold is None else lit(fold[0] if e[1] == 'lbound' else fold[1]))
        found, out = False, []
        for x in e:
            f_, y = _bound_inquiries(x, name, fold)
            found = found or f_
            out.append(y)
        return found, out
    if isinstance(e, dict):
        found, out = False, {}
        for k, x in e.items():
            f_, y = _bound_inquiries(x, name, fold)
            found = found or f_
            out[k] = y
        return found, out
    return False, e


def make_fun(b, g, name, idx, earlier_funs, elemental=False, host=None, internal=False):
    """a side-effect free function of scalar arguments"""
    F = b.F
    env = gen.Env()
    rtype = g.pick(['int', 'real'])
    args, decls, argtypes = [], [], []
    for k in range(g.i(1, 3)):
        t = g.pick(['int', 'real'])
        nm = (['li0', 'lr0', 'li1'][k] if F('clash_dummy') else f'q{"zyx"[k]}{idx}')
        if F('clash_dummy'):
            b.use('clash_dummy')
        args.append(nm)
        decls.append(decl(nm, t, intent='in'))
        env.vars[nm] = {'type': t, 'dims': None, 'ro': True}
        argtypes.append(t)
    hread = set()
    if internal and host is not None and F('int_host_read'):
        for n, v in host.vars.items():
            if not v['dims'] and v['type'] in ('int', 'real') and n not in args and not v.get('fuel') and n != 'n' \
                    and not (v.get('param') and not F('member_uses_param')) \
                    and not (F('clash_local') and n.startswith('l')) and g.chance(40) and len(hread) < 2:
                env.vars[n] = dict(v, ro=True)
                hread.add(n)
        if hread:
            b.use('int_host_read')
        if any(host.vars[n].get('param') for n in hread):
            b.use('member_uses_param')
    res = f'rs{idx}' if F('fn_result_clause') else None
    if res:
        b.use('fn_result_clause')
    rname = res or name
    decls.append(decl(rname, rtype))
    tname = 'lr0' if (F('clash_local') and rtype == 'real') else ('li0' if F('clash_local') else f'ft{idx}')
    if tname in args:
        tname = f'ft{idx}'
    elif F('clash_local'):
        b.use('clash_local')
    decls.append(decl(tname, rtype))
    g2 = g.sub(sections=False, reductions=False, if1=False)
    if earlier_funs and F('fn_calls_fn'):
        env.funcs = [f for f in earlier_funs if not f.get('internal')][:1]
        g2.p['functions'] = True
        if env.funcs:
            b.use('fn_calls_fn')
    body = []
    if F('fn_multi_stmt'):
        body.append(['assign', var(tname), gen.expr_of(g2, env, rtype, 2)])
        env.vars[tname] = {'type': rtype, 'dims': None}
        if g.chance(50):
            body.append(['if', [[gen.log_expr(g2, env, 1), [['assign', var(tname), gen.expr_of(g2, env, rtype, 1)]]]], None])
        body.append(['assign', var(rname), ['b', '+', gen.expr_of(g2, env, rtype, 1), var(tname)]])
        b.use('fn_multi_stmt')
    else:
        body.append(['assign', var(rname), gen.expr_of(g2, env, rtype, 2)])
    # every argument (and host variable) matters
    terms = []
    for a, t in zip(args, argtypes):
        terms.append(conv(var(a), t, rtype))
    for hr in sorted(hread):
        terms.append(conv(var(hr), env.vars[hr]['type'], rtype))
    if F('fn_multi_stmt'):
        acc = var(rname)
        for term in terms:
            acc = ['b', '+', acc, term]
        body.append(['assign', var(rname), acc])
    else:
        e = body[-1][2]
        for term in terms:
            e = ['b', '+', e, term]
        body = [['assign', var(rname), e]]
    r = routine(name, args, decls, body, kind='function', result=res)
    if elemental:
        r['prefix'] = ['elemental']
    elif g.chance(30):
        r['prefix'] = ['pure']
    sig = {'name': name, 'args': argtypes, 'argnames': args, 'rtype': rtype, 'elemental': elemental,
           'internal': internal, 'hread': sorted(hread), 'kind': 'fun'}
    return r, sig


# ---- call construction --------------------------------------------------------------------
def _array_actual(b, g, env, d, used_w, banned_w, banned_r):
    """actual argument for array dummy d (extent E) from env; returns expr or None"""
    F = b.F
    E, t, form = d['E'], d['type'], d.get('form')
    writable = d['intent'] != 'in'
    cands = []
    lb1_only = form == 'assumed' and 'assumed_caller_lb' in b.fl and not F('assumed_caller_lb')
    nozero = 'act_lower_zero' in b.fl and not F('act_lower_zero')
    for a in env.arrays(t, writable=writable):
        v = env.vars[a]
        if a in used_w or v.get('path'):
            continue
        if writable and (a in banned_w):
            continue
        if not writable and a in banned_r:
            continue
        if any(not isinstance(x[1], int) for x in v['dims']):
            continue
        if lb1_only and any(x[0] != 1 for x in v['dims']):
            continue
        cands.append(a)
    opts = []
    for a in cands:
        dims = env.vars[a]['dims']
        if len(dims) == 1:
            lb, ub = dims[0]
            ext = ub - lb + 1
            if ext == E:
                opts.append(('whole', a))
            if ext >= E and F('act_section'):
                opts += [('section', a)] * 2
            if ext >= 2 * E - 1 and F('act_stride'):
                opts += [('stride', a)] * 2
            if ext >= E and F('act_open'):
                opts += [('open', a)] * 2
            if ext > E and F('act_larger') and form in ('explicit', 'lb', 'dimn'):
                opts += [('larger', a)] * 2
        elif len(dims) == 2 and F('act_2d'):
            if dims[0][1] - dims[0][0] + 1 == E:
                opts += [('col', a)] * 2
            if dims[1][1] - dims[1][0] + 1 == E:
                opts += [('row', a)]
    if not opts:
        # fall back to a contiguous section when no exact-extent array exists
        for a in cands:
            dims = env.vars[a]['dims']
            if len(dims) == 1 and dims[0][1] - dims[0][0] + 1 >= E:
                opts.append(('section!', a))
    if not opts:
        return None, None
    kind, a = g.pick(opts)
    dims = env.vars[a]['dims']
    lb, ub = dims[0]
    if kind == 'whole':
        e = var(a) if g.chance(70) else ['d', [[a, [['rng', None, None, None]]]]]
    elif kind in ('section', 'section!'):
        lo = lb + g.i(0, (ub - lb + 1) - E)
        if lo == 0 and nozero:
            lo = 1 if 1 + E - 1 <= ub else None
        if lo is None:
            return None, None
        e = ['d', [[a, [['rng', lit(lo), lit(lo + E - 1), None]]]]]
        if kind == 'section':
            b.use('act_section')
        if lo == 0:
            b.use('act_lower_zero')
    elif kind == 'stride':
        lo = lb + g.i(0, (ub - lb + 1) - (2 * E - 1))
        if lo == 0 and nozero:
            lo = 1 if 1 + 2 * (E - 1) <= ub else None
        if lo is None:
            return None, None
        e = ['d', [[a, [['rng', lit(lo), lit(lo + 2 * (E - 1)), lit(2)]]]]]
        b.use('act_stride')
        if lo == 0:
            b.use('act_lower_zero')
    elif kind == 'open':
        lo = ub - E + 1
        if lo == 0 and nozero:
            return None, None
        e = ['d', [[a, [['rng', lit(lo), None, None]]]]]
        b.use('act_open')
        if lo == 0:
            b.use('act_lower_zero')
    elif kind == 'larger':
        e = var(a)
        b.use('act_larger')
    elif kind == 'col':
        j = g.i(dims[1][0], dims[1][1])
        e = ['d', [[a, [['rng', None, None, None], lit(j)]]]]
        b.use('act_2d')
    else:
        j = g.i(dims[0][0], dims[0][1])
        e = ['d', [[a, [lit(j), ['rng', None, None, None]]]]]
        b.use('act_2d')
    if form == 'assumed' and any(x[0] != 1 for x in dims):
        b.use('assumed_caller_lb')
    return e, a


def safe_actual(b, e):
    """an actual argument expression; without act_muldiv a top-level product / quotient is written in parentheses"""
    top = e
    while isinstance(top, list) and len(top) == 3 and top[0] == 'u' and top[1] == '-':
        top = top[2]        # a sign in front of a product / quotient: -n/4
    if isinstance(top, list) and top and top[0] == 'b' and top[1] in ('*', '/') and 'act_muldiv' in b.fl:
        if b.F('act_muldiv'):
            b.use('act_muldiv')
            return e
        return ['p', e]
    return e


def env_without(env, names):
    """shallow copy of env in which the variables ``names`` do not exist (for expressions that must not mention them)"""
    e = gen.Env(env.parent)
    e.__dict__.update(env.__dict__)
    e.vars = {k: v for k, v in env.vars.items() if k not in names}
    e.active_loops = {k: v for k, v in env.active_loops.items() if k not in names}
    e.loopvars = [x for x in env.loopvars if x not in names]
    return e


def actuals_env(b, env, dummy_names):
    """
    environment for the expressions passed as actual arguments: with clash_dummy (callee dummies named like caller
    variables) and without clash_actual, no actual mentions a caller variable that is named like a dummy of the callee
    """
    if b.F('clash_dummy') and not b.F('clash_actual'):
        return env_without(env, set(dummy_names))
    if b.F('clash_dummy') and b.F('clash_actual'):
        b.use('clash_actual')
    return env


def make_call(b, g, env, sig, marked, allow_absent=True, banned_w=(), banned_r=()):
    """
    CALL statement (list of statements incl. the pragma) to subroutine ``sig`` with actuals from ``env``
    that respect the aliasing rules: every written actual is a distinct variable, intent(in) actuals do not
    mention written variables, host-accessed variables of an internal callee are not passed.
    """
    F = b.F
    banned_w = set(banned_w) | set(sig.get('hread', ())) | set(sig.get('hwrite', ()))
    banned_r = set(banned_r) | set(sig.get('hwrite', ()))
    used_w = set()
    actuals = {}
    order = sorted(sig['dummies'], key=lambda d: 0 if d['intent'] != 'in' else 1)
    full_env = env
    env = actuals_env(b, env, [d['name'] for d in sig['dummies']])
    for d in order:
        nm, t = d['name'], d['type']
        if d['role'] == 'kd':
            actuals[nm] = lit(d['E'])
            continue
        if d['role'] == 'arr':
            e, a = _array_actual(b, g, env, d, used_w, banned_w, banned_r)
            if e is None:
                return None
            if d['intent'] != 'in':
                used_w.add(a)
            actuals[nm] = e
            continue
        if d['role'] == 'opt':
            if allow_absent and F('opt_absent') and g.chance(60):
                b.use('opt_absent')
                continue
            actuals[nm] = safe_actual(b, gen.expr_of(g, env, t, 1))
            continue
        if d['intent'] == 'in':
            if F('act_expr'):
                actuals[nm] = safe_actual(b, gen.expr_of(g, env, t, 2))
            elif F('act_elem') and env.arrays(t) and g.chance(50):
                actuals[nm] = gen.element(g, env, g.pick(env.arrays(t)), 0)
            else:
                sc = env.scalars(t) + list(env.active_loops if t == 'int' else [])
                if sc and g.chance(80):
                    a = g.pick(sc)
                    actuals[nm] = gen.designator_for(env, a) if a in env.vars else var(a)
                else:
                    actuals[nm] = default_of(t)
            continue
        # scalar inout / out
        sc = [a for a in env.scalars(t, writable=True) if a not in used_w and a not in banned_w
              and not env.vars[a].get('fuel') and not env.vars[a].get('path')]
        ar = [a for a in env.arrays(t, writable=True) if a not in used_w and a not in banned_w
              and not env.vars[a].get('path')]
        if F('act_elem') and ar and (g.chance(50) or not sc):
            a = g.pick(ar)
            actuals[nm] = gen.element(g, env, a, 0)
            used_w.add(a)
            b.use('act_elem')
        elif sc:
            a = g.pick(sc)
            actuals[nm] = var(a)
            used_w.add(a)
        else:
            return None
    # intent(in) actuals must not mention written variables or host-written variables
    bad = used_w | set(sig.get('hwrite', ()))
    for d in sig['dummies']:
        nm = d['name']
        if nm in actuals and d['intent'] == 'in' and d['role'] != 'kd' and mentions(actuals[nm], bad):
            if d['role'] == 'arr':
                return None
            actuals[nm] = default_of(d['type'])
    for d in sig['dummies']:
        nm = d['name']
        if d['role'] == 'in' and nm in actuals:
            if actuals[nm][0] not in ('d', 'i', 'r', 'l') and not (actuals[nm][0] == 'u' and actuals[nm][2][0] in ('i', 'r')):
                b.use('act_expr')
            elif actuals[nm][0] == 'd' and actuals[nm][1][0][1]:
                b.use('act_elem')
    names = [d['name'] for d in sig['dummies']]
    present = [n for n in names if n in actuals]
    missing_before = False
    pos, kws = [], {}
    use_kw = F('kw') and g.chance(70)
    split = g.i(0, len(present) - 1) if use_kw else len(names)
    for i, n in enumerate(names):
        if n not in actuals:
            missing_before = True
            continue
        if missing_before or (use_kw and len(pos) >= split):
            kws[n] = actuals[n]
        else:
            pos.append(actuals[n])
    if kws and use_kw:
        b.use('kw')
    out = []
    if marked:
        out.append(['pragma', 'loki inline'])
    out.append(['call', sig['name'], pos, kws])
    return out


def make_fcall(b, g, env, fsig, depth=1, nest_pool=()):
    args = []
    if fsig.get('argnames') and not fsig.get('stmt'):
        env = actuals_env(b, env, fsig['argnames'])
    for t in fsig['args']:
        inner = [f for f in nest_pool if f['rtype'] == t and f is not fsig]
        if inner and b.F('fn_nested') and depth > 0 and g.chance(60):
            args.append(make_fcall(b, g, env, g.pick(inner), depth - 1, ()))
            b.use('fn_nested')
        else:
            args.append(safe_actual(b, gen.expr_of(g, env, t, 1)))
    if b.F('fn_kw') and fsig.get('argnames') and len(args) > 1 and not fsig.get('stmt') and g.chance(50):
        k = g.i(0, len(args) - 1)
        kws = {fsig['argnames'][j]: args[j] for j in range(k, len(args))}
        b.use('fn_kw')
        return ['f', fsig['name'], args[:k], kws]
    return ['f', fsig['name'], args, {}]


def conv(e, src, dst):
    if src == dst:
        return e
    return ['f', 'real', [e, ['i', 8]], {}] if dst == 'real' else ['f', 'int', [e], {}]


def fn_site(b, g, env, pool, prefix, subs_in=()):
    """statement(s) using function(s) from ``pool`` in a context chosen by the fn_* flags"""
    F = b.F
    f = g.pick(pool)
    rt = f['rtype']
    tg = [a for a in env.scalars(rt, writable=True) if not env.vars[a].get('fuel')]
    if not tg:
        return None, None
    lhs = g.pick(tg)
    call = make_fcall(b, g, env, f, 1, pool)
    forms = ['plain']
    P = prefix
    if F(P + '_in_expr') or P == 'sf':
        forms += ['expr'] * 2
    if F(P + '_twice') if P == 'fn' else False:
        forms += ['twice'] * 2
    if F(P + '_in_cond'):
        forms += ['cond'] * 2
    if P == 'fn':
        if F('fn_in_if1'):
            forms += ['if1'] * 2
        if F('fn_in_while'):
            forms += ['while'] * 2
        if F('fn_in_bound') and rt == 'int':
            forms += ['bound'] * 2
        if F('fn_in_elseif'):
            forms += ['elseif'] * 2
        if F('fn_as_arg') and subs_in:
            forms += ['arg'] * 2
        if F('elem_array') and f.get('elemental'):
            forms += ['earr'] * 3
    form = g.pick(forms)
    zero = lit(0) if rt == 'int' else ['r', '0.0']
    if form == 'plain':
        return [['assign', var(lhs), call]], form
    if form == 'expr':
        b.use(P + '_in_expr')
        e = ['b', g.pick(['+', '-']), gen.expr_of(g, env, rt, 1), ['b', '*', call, gen.expr_of(g, env, rt, 0)]]
        return [['assign', var(lhs), e]], form
    if form == 'twice':
        b.use('fn_twice')
        call2 = make_fcall(b, g, env, f, 0, ())
        return [['assign', var(lhs), ['b', '-', call, ['b', '*', call2, (lit(2) if rt == 'int' else ['r', '2.0'])]]]], form
    if form == 'cond':
        b.use(P + '_in_cond')
        body = [['assign', var(lhs), ['b', '+', var(lhs), gen.expr_of(g, env, rt, 1)]]]
        els = [['assign', var(lhs), ['b', '-', var(lhs), (lit(1) if rt == 'int' else ['r', '1.0'])]]]
        return [['if', [[['b', g.pick(['>', '<=']), call, zero], body]], els]], form
    if form == 'if1':
        b.use('fn_in_if1')
        return [['if1', gen.log_expr(g, env, 1), ['assign', var(lhs), call]]], form
    if form == 'elseif':
        b.use('fn_in_elseif')
        b1 = [['assign', var(lhs), gen.expr_of(g, env, rt, 1)]]
        b2 = [['assign', var(lhs), ['b', '+', var(lhs), (lit(2) if rt == 'int' else ['r', '2.0'])]]]
        return [['if', [[gen.log_expr(g, env, 1), b1], [['b', '>', call, zero], b2]], None]], form
    if form == 'while':
        fuel = [n for n in env.scalars('int', writable=True) if env.vars[n].get('fuel') and not env.vars[n].get('busy')]
        if not fuel:
            return [['assign', var(lhs), call]], 'plain'
        w = fuel[0]
        b.use('fn_in_while')
        # the function argument depends on the fuel counter, so the condition changes between iterations
        wcall = ['f', f['name'], [conv(var(w), 'int', t) if j == 0 else safe_actual(b, gen.expr_of(g, env, t, 0))
                                  for j, t in enumerate(f['args'])], {}]
        cond = ['b', '.and.', ['b', '>', var(w), lit(0)], ['b', g.pick(['>', '<', '/=']), wcall, conv(var(w), 'int', rt)]]
        body = [['assign', var(lhs), ['b', '+', var(lhs), conv(var(w), 'int', rt)]],
                ['assign', var(w), ['b', '-', var(w), lit(1)]]]
        return [['assign', var(w), lit(g.i(2, 4))], ['while', cond, body]], form
    if form == 'bound':
        lv = gen.free_loopvar(env)
        ti = [a for a in env.scalars('int', writable=True) if not env.vars[a].get('fuel')]
        if lv is None or not ti:
            return [['assign', var(lhs), call]], 'plain'
        b.use('fn_in_bound')
        hi = ['b', '+', ['f', 'modulo', [call, lit(3)], {}], lit(1)]
        x = g.pick(ti)
        return [['do', lv, lit(1), hi, None, [['assign', var(x), ['b', '+', var(x), var(lv)]]], 'plain']], form
    if form == 'arg':
        cands = [s for s in subs_in if any(d['role'] == 'in' and d['type'] == rt for d in s['dummies'])]
        if not cands:
            return [['assign', var(lhs), call]], 'plain'
        s = g.pick(cands)
        st_ = make_call(b, g, env, s, marked=s.get('marked', False))
        if st_ is None:
            return [['assign', var(lhs), call]], 'plain'
        c = st_[-1]
        dn = [d for d in s['dummies'] if d['role'] == 'in' and d['type'] == rt][0]['name']
        names = [d['name'] for d in s['dummies']]
        # which written variables does the call have? the function arguments must not mention them
        written = set()
        for d in s['dummies']:
            if d['intent'] != 'in':
                a = c[3].get(d['name']) if d['name'] in c[3] else None
                if a is None:
                    idx = names.index(d['name'])
                    a = c[2][idx] if idx < len(c[2]) else None
                if a is not None and a[0] == 'd':
                    written.add(a[1][0][0])
        if mentions(call, written | set(s.get('hwrite', ()))):
            return [['assign', var(lhs), call]], 'plain'
        if b.F('clash_dummy') and not b.F('clash_actual') and mentions(call, {d['name'] for d in s['dummies']}):
            return [['assign', var(lhs), call]], 'plain'
        if dn in c[3]:
            c[3][dn] = call
        else:
            idx = names.index(dn)
            if idx >= len(c[2]):
                return [['assign', var(lhs), call]], 'plain'
            c[2][idx] = call
        b.use('fn_as_arg')
        return st_, form
    if form == 'earr':
        # elemental function on array sections: lhs section = f(sections / scalars)
        arrs = [a for a in env.arrays(rt, writable=True) if len(env.vars[a]['dims']) == 1 and not env.vars[a].get('path')]
        if not arrs:
            return [['assign', var(lhs), call]], 'plain'
        a = g.pick(arrs)
        ext = g.i(2, 3)
        lsec = gen.section_of(g, env, a, [ext], allow_stride=False)
        if lsec is None:
            return [['assign', var(lhs), call]], 'plain'
        args = []
        anyarr = False
        for t in f['args']:
            src = [x for x in env.arrays(t) if len(env.vars[x]['dims']) == 1 and x != a]
            sec = gen.section_of(g, env, g.pick(src), [ext], allow_stride=False) if src and g.chance(70) else None
            if sec is not None:
                args.append(sec)
                anyarr = True
            else:
                args.append(safe_actual(b, gen.expr_of(g, env, t, 0)))
        if not anyarr:
            return [['assign', var(lhs), call]], 'plain'
        b.use('elem_array')
        return [['assign', lsec, ['f', f['name'], args, {}]]], form
    return [['assign', var(lhs), call]], 'plain'


def witnesses(stmts, env):
    """
    statements that fold every variable a site may have defined (assignment targets, designators passed to a CALL)
    into the accumulators lacci / laccr right behind the site, so that a later site overwriting the same variable
    does not hide a wrong value
    """
    from .model import walk_stmts
    names = []

    def base(d):
        if isinstance(d, list) and d and d[0] == 'd':
            n = d[1][0][0]
            if n not in names:
                names.append(n)
    for _, s in walk_stmts(stmts):
        if s[0] == 'assign':
            base(s[1])
        elif s[0] == 'call':
            for a in list(s[2]) + [s[3][k] for k in sorted(s[3])]:
                base(a)
    out = []
    for n in names:
        v = env.vars.get(n)
        if v is None or v.get('fuel') or v.get('path') or n in env.loopvars or v['type'] not in ('int', 'real'):
            continue
        e = ['f', 'sum', [var(n)], {}] if v['dims'] else var(n)
        acc = 'lacci' if v['type'] == 'int' else 'laccr'
        out.append(['assign', var(acc), ['b', '+', var(acc), e]])
    return out


def _is_const(e):
    """expression JSON without any variable / function reference"""
    if isinstance(e, list):
        if e and e[0] in ('d', 'f'):
            return False
        return all(_is_const(x) for x in e)
    return True


def has_constant_elseif(body):
    from .model import walk_stmts
    return any(s[0] == 'if' and any(_is_const(c) for c, _ in s[1][1:]) for _, s in walk_stmts(body))


def no_constant_elseif(body, name):
    """replace compile-time constant ELSE IF conditions by `<name> > 0` (a scalar intent(in) number)"""
    from .model import walk_stmts
    for _, s in walk_stmts(body):
        if s[0] == 'if':
            for br in s[1][1:]:
                if _is_const(br[0]):
                    br[0] = ['b', '>', var(name), lit(0)]


# ---- the program ----------------------------------------------------------------------------
def build(spec):
    """spec -> case dict {files, entry, inputs, layout, meta}"""
    b = B(spec)
    F = b.F
    gk = b.g('kernel')
    # ---- parameters module
    gp = b.g('par')
    params = []          # (name, type, value expr)
    pdecls = []
    penv = {}
    for k in range(b.n.get('params', 1)):
        if F('param_real') and k == 1:
            v = ['r', gp.pick(['1.5', '0.5', '2.0', '0.25'])]
            if F('param_neg') and gp.chance(60):
                v = ['u', '-', v]
                b.use('param_neg')
            nm, t = f'rp{k}', 'real'
            b.use('param_real')
        else:
            val = gp.i(1, 4)
            v = lit(val)
            if F('param_expr') and gp.chance(50):
                a_ = gp.i(1, 3)
                v = ['b', gp.pick(['+', '-']), lit(val + 3), lit(a_)]
                b.use('param_expr')
            elif F('param_neg') and gp.chance(50):
                v = lit(-val)
                b.use('param_neg')
            nm, t = f'kp{k}', 'int'
        params.append((nm, t, v))
        pdecls.append(decl(nm, t, param=v))
        penv[nm] = {'type': t, 'dims': None, 'ro': True, 'param': True}
    cmod = module('cmod', decls=pdecls)

    # ---- callee module
    funs_r, funs = [], []
    for k in range(b.n.get('funs', 1)):
        g = b.g(f'fun{k}')
        elemental = (k == 0) or g.chance(40)
        r, sig = make_fun(b, g, f'hfun{k}', k, funs, elemental=elemental)
        funs_r.append(r)
        funs.append(sig)
    subs_r, subs = [], []
    for k in range(b.n.get('subs', 1)):
        g = b.g(f'sub{k}')
        r, sig = make_sub(b, g, f'hsub{k}', k, list(subs), funs)
        sig['marked'] = True
        subs_r.append(r)
        subs.append(sig)
    hmod = module('hmod', routines=funs_r + subs_r)

    # ---- kernel
    env = gen.Env()
    args = ['n']
    decls = [decl('n', 'int', intent='in')]
    entry_args = [decl('n', 'int', intent='in')]
    env.vars['n'] = {'type': 'int', 'dims': None, 'ro': True}
    prologue = []

    def add_arg(nm, t, dims=None, intent='in'):
        d = decl(nm, t, dims=dims, intent=intent)
        args.append(nm)
        decls.append(d)
        entry_args.append(d)
        env.vars[nm] = {'type': t, 'dims': dims, 'ro': intent == 'in'}

    add_arg('xi0', 'int')
    add_arg('xi1', 'int')
    add_arg('xr0', 'real')
    add_arg('yi0', 'int', intent='inout')
    add_arg('yr0', 'real', intent='inout')
    add_arg('yr1', 'real', intent='inout')
    clb = gk.pick([0, 2, -1]) if F('caller_lb') else 1
    if F('caller_lb'):
        b.use('caller_lb')
    add_arg('zi0', 'int', dims=[[1, 4]], intent='inout')
    add_arg('zr1', 'real', dims=[[1, 3]], intent='inout')
    add_arg('zr2', 'real', dims=[[clb, clb + 6]], intent='inout')
    add_arg('zi3', 'int', dims=[[clb, clb + 6]], intent='inout')
    add_arg('zm', 'real', dims=[[1, 3], [1, 2]], intent='inout')
    # locals (names li*, lr*, lb*, lia*/lra*, lj*, lw)
    gl = gk.sub()
    gl.p['while'] = True
    gen.declare_locals(gl, env, decls, prologue, nscal=(2, 3), narr=(0, 0), prefix='l')
    gk.k = gl.k
    for nm, t, dims in (('lia0', 'int', [[1, 3]]), ('lra0', 'real', [[1, 4]]), ('lra1', 'real', [[clb, clb + 3]])):
        decls.append(decl(nm, t, dims=dims))
        env.vars[nm] = {'type': t, 'dims': dims}
        prologue.append(['assign', var(nm), gen.init_value(gk, t)])
    if F('param_in_dims') and any(t == 'int' and v[0] == 'i' for _, t, v in params):
        pn = [nm for nm, t, v in params if t == 'int' and v[0] == 'i'][0]
        pv = [v[1] for nm, t, v in params if nm == pn][0]
        decls.append(decl('lpa', 'int', dims=[[1, pn]]))
        env.vars['lpa'] = {'type': 'int', 'dims': [[1, pv]]}
        prologue.append(['assign', var('lpa'), gen.init_value(gk, 'int')])
        b.use('param_in_dims')
    # local PARAMETERs
    if F('param_local'):
        v = lit(gk.i(2, 5))
        if F('param_expr'):
            v = ['b', '-', lit(gk.i(4, 6)), lit(1)]
        if F('param_neg') and gk.chance(40):
            v = lit(-gk.i(1, 3))
        decls.insert(len(args), decl('lp0', 'int', param=v))
        env.vars['lp0'] = {'type': 'int', 'dims': None, 'ro': True, 'param': True}
        b.use('param_local')
    env.vars.update({k: dict(v) for k, v in penv.items()})

    # statement functions
    sfs, sf_defs, sf_decls = [], [], []
    gs = b.g('sf')
    for k in range(b.n.get('sfs', 1)):
        rt = gs.pick(['int', 'real'])
        nargs = gs.i(1, 2)
        senv = gen.Env()
        an, at = [], []
        for j in range(nargs):
            t = gs.pick(['int', 'real'])
            nm = f'sa{k}{j}'
            an.append(nm)
            at.append(t)
            senv.vars[nm] = {'type': t, 'dims': None, 'ro': True}
            sf_decls.append(decl(nm, t))
        if F('sf_uses_local'):
            for hn in ('xi0', 'xr0'):
                senv.vars[hn] = dict(env.vars[hn])
            for nm, t, v in params:
                senv.vars[nm] = dict(penv[nm])
            b.use('sf_uses_local')
        g2 = gs.sub(sections=False, reductions=False, logic=False)
        g2.k = gs.k
        if F('sf_nested') and sfs:
            senv.funcs = [sfs[-1]]
            g2.p['functions'] = True
        e = gen.expr_of(g2, senv, rt, 2)
        for nm, t in zip(an, at):
            e = ['b', g2.pick(['+', '*']) if rt == t else '+', e, conv(var(nm), t, rt)]
        if F('sf_nested') and sfs:
            inner = sfs[-1]
            e = ['b', '-', e, conv(['f', inner['name'], [conv(var(an[0]), at[0], t) for t in inner['args']], {}],
                                   inner['rtype'], rt)]
            b.use('sf_nested')
        gs.k = g2.k
        name = f'sfn{k}'
        sf_decls.append(decl(name, rt))
        sf_defs.append([name, an, e])
        sfs.append({'name': name, 'args': at, 'argnames': an, 'rtype': rt, 'stmt': True, 'kind': 'sf'})

    # internal procedures
    ints_r, int_subs, int_funs = [], [], []
    for k in range(b.n.get('ints', 1)):
        g = b.g(f'int{k}')
        if F('int_fun') and k == 1:
            # inline_internal_procedures documents internal FUNCTIONS as unsupported: programs with one are context
            # for the other entry points only (props/c28.py does not apply the internal-procedure variants to them)
            r, sig = make_fun(b, g, f'ifun{k}', 7 + k, [], elemental=False, host=env, internal=True)
            int_funs.append(sig)
            b.use('int_fun')
        else:
            r, sig = make_sub(b, g, f'isub{k}', 4 + k, [], funs, host=env, internal=True)
            sig['marked'] = False
            int_subs.append(sig)
        ints_r.append(r)

    # ---- sites + filler
    gsite = b.g('sites')
    body = list(prologue)
    # accumulators that only the witness statements touch (not in env: never a target, an actual or a host variable)
    body += [['assign', var('lacci'), lit(0)], ['assign', var('laccr'), ['r', '0.0']]]
    # every program has one unconditional top-level site of every kind (in a drawn order), so that every entry
    # point has something to rewrite that executes; further sites are drawn and may sit in loops / IF blocks
    kinds = ['msub', 'isub', 'fun', 'efun', 'sf', 'const'] + (['ifun'] if int_funs else [])
    first = list(kinds)
    order_ = []
    while first:
        order_.append(first.pop(gsite.i(0, len(first) - 1)))
    if F('unmarked_mix'):
        # a second, unmarked call to a callee that is also called with the pragma
        order_.insert(order_.index('msub') + 1 + gsite.i(0, len(order_) - order_.index('msub') - 1), 'umsub')
    nfirst = len(order_)
    nsites = nfirst + b.n.get('sites', 0)
    callee_uses = {}
    meta_sites = []
    gfill = gk.sub()
    gfill.p['while'] = True

    def filler(nmax):
        out = []
        for _ in range(gfill.i(0, nmax)):
            out += gen.gen_stmt(gfill, env, 1, 3)
        return out

    for si in range(nsites):
        kind = order_[si] if si < nfirst else gsite.pick(kinds)
        uncond = si < nfirst
        elem_only = kind == 'efun'
        if elem_only:
            kind = 'fun'
        again = kind == 'umsub'
        if again:
            kind = 'msub'
        in_loop = (not uncond) and F('site_in_loop') and gsite.chance(45) and gen.free_loopvar(env) is not None
        lv = None
        if in_loop:
            lv = gen.free_loopvar(env)
            lo = gsite.i(1, 2)
            hi = lo + gsite.i(1, 2)
            env.active_loops[lv] = (lo, hi)
        stmts, form = None, None
        if kind == 'msub' and subs:
            if (F('multi_site') or again) and callee_uses:
                cand = [s for s in subs if s['name'] in callee_uses] or subs
            else:
                cand = [s for s in subs if s['name'] not in callee_uses] or (subs if F('multi_site') else [])
            if cand:
                s = gsite.pick(cand)
                marked = True
                if marked and F('unmarked_mix') and callee_uses.get(s['name']):
                    marked = False
                    b.use('unmarked_mix')
                stmts = make_call(b, gsite, env, s, marked=marked)
                if stmts is not None:
                    if callee_uses.get(s['name']):
                        b.use('multi_site')
                    callee_uses[s['name']] = callee_uses.get(s['name'], 0) + 1
                    form = 'call'
        elif kind == 'isub' and int_subs:
            if F('multi_site') and any(s['name'] in callee_uses for s in int_subs):
                cand = [s for s in int_subs if s['name'] in callee_uses]
            else:
                cand = [s for s in int_subs if s['name'] not in callee_uses] or (int_subs if F('multi_site') else [])
            if cand:
                s = gsite.pick(cand)
                stmts = make_call(b, gsite, env, s, marked=False)
                if stmts is not None:
                    if callee_uses.get(s['name']):
                        b.use('multi_site')
                    callee_uses[s['name']] = callee_uses.get(s['name'], 0) + 1
                    form = 'call'
                    if F('site_if1_call') and not uncond and not in_loop and gsite.chance(50):
                        stmts = [['if1', gen.log_expr(gsite, env, 1), stmts[-1]]]
                        form = 'if1call'
                        b.use('site_if1_call')
        elif kind == 'ifun' and int_funs:
            stmts, form = fn_site(b, gsite, env, int_funs, 'fn')
        elif kind == 'fun' and funs:
            pool = funs
            if elem_only:
                pool = [f for f in funs if f['elemental']] or funs
            msubs = [dict(s, marked=True) for s in subs]
            stmts, form = fn_site(b, gsite, env, pool, 'fn', subs_in=msubs)
        elif kind == 'sf' and sfs:
            stmts, form = fn_site(b, gsite, env, sfs, 'sf')
        elif kind == 'const' and params:
            # statements whose expressions use the parameters in positions where precedence matters
            nm, t, v = gsite.pick(params)
            tg = [a for a in env.scalars(t, writable=True) if not env.vars[a].get('fuel')]
            if tg:
                lhs = gsite.pick(tg)
                x = gen.expr_of(gsite, env, t, 1)
                one = lit(2) if t == 'int' else ['r', '2.0']
                forms = [['b', '-', x, var(nm)], ['b', '*', var(nm), ['b', '+', x, var(nm)]],
                         ['b', '-', ['b', '*', one, var(nm)], ['b', '*', x, var(nm)]],
                         ['b', '+', ['u', '-', var(nm)], x],
                         ['b', '**', var(nm), lit(2)], ['b', '-', x, ['b', '**', var(nm), lit(2)]]]
                if t == 'int':
                    forms += [['b', '/', ['b', '+', x, lit(7)], ['f', 'max', [lit(1), ['f', 'abs', [var(nm)], {}]], {}]],
                              ['f', 'modulo', [x, ['b', '+', ['f', 'abs', [var(nm)], {}], lit(1)]], {}]]
                stmts = [['assign', var(lhs), gsite.pick(forms)]]
                if 'lpa' in env.vars and gsite.chance(40):
                    stmts.append(['assign', var(lhs) if t == 'int' else var('yi0'),
                                  ['b', '+', ['f', 'sum', [var('lpa')], {}], ['f', 'size', [var('lpa')], {}]]])
                if 'lp0' in env.vars and gsite.chance(60):
                    stmts.append(['assign', var('yi0'), ['b', '-', ['b', '*', var('yi0'), lit(2)], var('lp0')]])
                form = 'const'
        if in_loop:
            del env.active_loops[lv]
        if stmts is None:
            # fall back: plain filler statement
            body += filler(1)
            meta_sites.append({'kind': kind, 'form': None})
            continue
        if kind == 'fun' and all(f['elemental'] for f in pool):
            kind = 'efun'      # (meta only) every function of the pool is elemental
        where = 'top'
        if in_loop:
            lo, hi = lo, hi
            stmts = [['do', lv, lit(lo), lit(hi), None, stmts, 'plain']]
            where = 'loop'
            b.use('site_in_loop')
        elif not uncond and F('site_in_if') and gsite.chance(35):
            stmts = [['if', [[gen.log_expr(gsite, env, 1), stmts]], None]]
            where = 'if'
            b.use('site_in_if')
        body += filler(b.n.get('fill', 1))
        body += stmts
        body += witnesses(stmts, env)
        meta_sites.append({'kind': kind, 'form': form, 'where': where})
    if 'int_uncalled' in b.fl:
        unc = [s['name'] for s in int_subs if s['name'] not in callee_uses]
        if unc and F('int_uncalled'):
            b.use('int_uncalled')
        elif unc:
            ints_r = [r_ for r_ in ints_r if r_['name'] not in unc]
    body += filler(b.n.get('fill', 1))
    body.append(['assign', var('yi0'), ['b', '+', var('yi0'), var('lacci')]])
    body.append(['assign', var('yr0'), ['b', '+', var('yr0'), var('laccr')]])
    # epilogue: make every local observable through the outputs
    for nm, v in env.vars.items():
        if nm in args or v.get('ro') or v.get('fuel') or nm in penv:
            continue
        if v['dims']:
            e = ['f', 'sum', [var(nm)], {}]
        else:
            e = var(nm)
        if v['type'] == 'int':
            body.append(['assign', var('yi0'), ['b', '+', var('yi0'), e]])
        elif v['type'] == 'real':
            body.append(['assign', var('yr0'), ['b', '+', var('yr0'), e]])
        else:
            body.append(['if1', e, ['assign', var('yi0'), ['b', '+', var('yi0'), lit(1)]]])

    used_fun = sorted({f['name'] for f in funs})
    used_sub = sorted({s['name'] for s in subs})
    huse = {'module': 'hmod', 'only': [[n, None] for n in used_fun + used_sub]}
    cuse = {'module': 'cmod', 'only': [[nm, None] for nm, _, _ in params]}
    decls += [decl('lacci', 'int'), decl('laccr', 'real')]
    kdecls = decls[:len(args)] + [d for d in decls[len(args):] if d.get('param') is not None] + \
        [d for d in decls[len(args):] if d.get('param') is None] + sf_decls
    kern = routine('kernel', args, kdecls, body, contains=ints_r, stmtfuncs=sf_defs)
    kuses, muses = [], []
    if F('routine_use'):
        kuses = [huse, cuse]
        b.use('routine_use')
    else:
        muses = [huse, cuse]
    kern['uses'] = kuses
    kmod = module('kmod', routines=[kern], uses=muses)
    hmod['uses'] = []
    f = {'name': 'kmod.f90', 'units': [['module', cmod], ['module', hmod], ['module', kmod]]}
    gi = b.g('inputs')
    inputs = gen.gen_inputs(gi, entry_args, 4)
    layout = layout_from(b.g('layout'))
    if layout.get('idcase') == 'mixed':
        if F('mixed_case'):
            b.use('mixed_case')
        else:
            layout['idcase'] = 'lower'
    if not F('const_elseif'):
        for r_ in funs_r + subs_r:
            no_constant_elseif(r_['body'], r_['args'][0])
        for r_ in ints_r + [kern]:
            no_constant_elseif(r_['body'], 'xi0')
    elif any(has_constant_elseif(r_['body']) for r_ in funs_r + subs_r + ints_r + [kern]):
        b.use('const_elseif')
    order = [s['name'] for s in subs]
    return {'files': [f], 'entry': {'module': 'kmod', 'name': 'kernel', 'args': entry_args},
            'inputs': inputs, 'layout': layout,
            'meta': {'features': sorted(b.features), 'sites': meta_sites, 'hmod_order': [f_['name'] for f_ in funs] + order,
                     'first_site_unconditional': True}}
