"""
Profile generator for C32 (constant propagation, dead-code removal, unused variables / dummy arguments).

Fixed schema of the kernel (module kmod, helpers hsub0/hfun0 in 'rm' mode):
    n, xi0, xr0 (in); yi0, yr0 (inout); za(5) int inout; zr(4) real inout
    ck0..ck2 int, cr0 real, cb0 logical   "constant candidates": only ever assigned literal/foldable expressions
    li0 li1 int, lr0 real                 "dynamic" variables: every assignment is <input-dependent variable> op <expr>
    la(4) int local array, lw int (DO WHILE fuel), lj0..lj2 loop variables
    module PARAMETER kp0, routine PARAMETER lp0, optionally an initialised (never assigned) local lq0 = <literal>
mode 'cp' (do_constant_propagation +- unroll_loops, do_remove_dead_code +- use_simplify, and the pipeline of both):
    constants and input-dependent values mixed; IF/ELSE IF/ELSE and one-line IF with decidable (1 == 1, .true., comparisons of
    constant candidates / PARAMETERs) and undecidable conditions; constant candidates assigned at top level and in IF branches;
    counted loops with literal / constant-candidate / n bounds (incl. zero-trip) whose bodies update dynamic variables and array
    elements and read constants; SELECT CASE and DO WHILE that do not assign constant candidates; array elements with
    constant indices; integer division between constants (folded); calls that pass constants by value.
mode 'rm' (do_remove_unused_vars +- remove_only_arrays; find_unused_dummy_args_and_vars + do_remove_unused_dummy_args +
    do_remove_unused_call_args): unused locals (scalars, arrays with literal / PARAMETER / n bounds), PARAMETERs used only in
    dimensions, helper subroutine and function with unused dummies at any position, positional and keyword actuals.
numeric class 'dyadic' (exact) or 'general' (non-dyadic REAL(8), rtol 1e-12; at most one real literal per expression).

Known-finding triggers (never in the main stream; one dedicated sub-stream each; see known_findings.d/C32.txt):
  call-modifies-tracked   a tracked constant is passed to an intent(inout) dummy and read afterwards
  loop-carried-update     'k = k + c' in a loop on a variable that holds a known constant at loop entry
  zero-trip-loop          constant-bounds loop with zero iterations assigns a constant candidate
  loop-use-before-redef   loop body reads a constant that a later statement of the body redefines
  while-loop              DO WHILE whose body redefines a tracked constant
  select-case             SELECT CASE branch assigns a constant candidate
  real-literal-kind       folding of non-dyadic REAL(8) literals (the folded literal loses its kind)
  int-division-of-sum     '(x + c)/d' with input-dependent x (simplify distributes the integer quotient; root cause owned by C08)
  symbol-only-in-declaration  PARAMETER referenced only by a kind / initialisation expression (do_remove_unused_vars)
  loop-variable           any DO loop under do_remove_unused_vars(remove_only_arrays=False): the declaration of the loop
                          variable is removed (programs for that option are therefore generated without DO loops)
Not generated (loki raises -> would only fill rejected_by_loki): REAL division with a literal operand under
do_constant_propagation (AttributeError in div_literals).
"""
from hypothesis import strategies as st

from .model import var, lit, decl, routine, module, elem
from . import gen as B
from .gen_assoc import checksum_epilogue, kernel_of, copy_case, mentioned_names

CP_HAZARDS = ['call-modifies-tracked', 'loop-carried-update', 'zero-trip-loop', 'loop-use-before-redef', 'while-loop',
              'select-case', 'real-literal-kind', 'int-division-of-sum']
HAZARDS = CP_HAZARDS + ['symbol-only-in-declaration', 'loop-variable']

CK = ['ck0', 'ck1', 'ck2']
DYN_I = ['li0', 'li1']
IN_I = ['xi0', 'n']


class S:
    def __init__(self, mode, numeric):
        self.mode = mode
        self.numeric = numeric
        self.feats = set()
        self.avoided = []
        self.certain = True
        self.ncertain = 0
        self.in_loop = 0
        self.loopvars = []
        self.has_lq = False
        self.loopfree = False


# ------------------------------------------------------------------ expressions
def c_int(g, s, d):
    """foldable integer expression: literals, constant candidates, PARAMETERs; + - * / ** mod"""
    if d <= 0 or g.chance(30):
        c = g.pick(['lit', 'lit', 'ck', 'ck', 'ck', 'par'])
        if c == 'lit':
            return ['i', g.i(0, 9)]
        if c == 'ck':
            return var(g.pick(CK))
        return var(g.pick(['kp0', 'lp0'] + (['lq0'] if s.has_lq else [])))
    c = g.pick(['+', '+', '-', '*', '/', '/', 'pow', 'mod', 'par'])
    if c in ('+', '-', '*'):
        return ['b', c, c_int(g, s, d - 1), c_int(g, s, d - 1)]
    if c == '/':
        # numerator is a single constant leaf: a *sum* divided by a literal is the int-division-of-sum trigger whenever the
        # candidate happens not to be tracked at that point
        s.feats.add('const-integer-division')
        return ['b', '/', c_int(g, s, 0), ['i', g.i(1, 5)]]
    if c == 'pow':
        return ['b', '**', ['i', g.i(1, 3)] if g.chance(50) else var(g.pick(CK)), ['i', g.i(0, 2)]]
    if c == 'mod':
        return ['f', 'mod', [c_int(g, s, d - 1), ['i', g.i(2, 5)]], {}]
    return ['p', c_int(g, s, d - 1)]


def d_int(g, s, env, d):
    """input-dependent integer expression without division of non-constant numerators"""
    if d <= 0 or g.chance(25):
        c = g.pick(['dyn', 'dyn', 'in', 'ck', 'lit', 'elem', 'loop'])
        if c == 'dyn':
            return var(g.pick(DYN_I))
        if c == 'in':
            return var(g.pick(IN_I))
        if c == 'ck':
            return var(g.pick(CK + ['kp0', 'lp0']))
        if c == 'elem':
            arr = g.pick(['za', 'la'])
            hi = 5 if arr == 'za' else 4
            if g.chance(40):
                return elem(arr, ['b', '+', ['i', 1], ['f', 'modulo', [var(g.pick(CK)), ['i', hi]], {}]])
            return elem(arr, ['i', g.i(1, hi)])
        if c == 'loop' and env.active_loops:
            return var(g.pick(list(env.active_loops)))
        return ['i', g.i(0, 9)]
    c = g.pick(['+', '+', '-', '*', 'neg', 'abs', 'minmax', 'mod', 'cdiv', 'merge'])
    if c in ('+', '-'):
        return ['b', c, d_int(g, s, env, d - 1), d_int(g, s, env, d - 1)]
    if c == '*':
        return ['b', '*', d_int(g, s, env, d - 1), ['i', g.i(0, 4)] if g.chance(50) else var(g.pick(CK))]
    if c == 'neg':
        return ['u', '-', d_int(g, s, env, d - 1)]
    if c == 'abs':
        return ['f', 'abs', [d_int(g, s, env, d - 1)], {}]
    if c == 'minmax':
        return ['f', g.pick(['min', 'max']), [d_int(g, s, env, d - 1), d_int(g, s, env, d - 1)], {}]
    if c == 'mod':
        return ['f', g.pick(['mod', 'modulo']), [d_int(g, s, env, d - 1), ['i', g.i(2, 6)]], {}]
    if c == 'cdiv':
        return ['p', c_int(g, s, 2)]
    return ['f', 'merge', [d_int(g, s, env, d - 1), d_int(g, s, env, d - 1), u_cond(g, s, env, 0)], {}]


def r_lit(g, s):
    return ['r', g.pick(B.DYADIC if s.numeric == 'dyadic' else B.GENERAL)]


def c_real(g, s, d):
    """foldable real expression (dyadic literals, cr0); + - *"""
    if d <= 0 or g.chance(35):
        return ['r', g.pick(B.DYADIC)] if g.chance(70) else var('cr0')
    return ['b', g.pick(['+', '-', '*']), c_real(g, s, d - 1), c_real(g, s, d - 1)]


def d_real(g, s, env, d, lits=None):
    """input-dependent real expression without division; numeric class 'general': at most one literal"""
    lits = lits if lits is not None else [1 if s.numeric == 'general' else 99]
    if d <= 0 or g.chance(30):
        c = g.pick(['dyn', 'in', 'lit', 'elem', 'fromint', 'cr'])
        if c == 'lit' and lits[0] > 0:
            lits[0] -= 1
            return r_lit(g, s)
        if c == 'elem':
            return elem('zr', ['i', g.i(1, 4)])
        if c == 'fromint':
            return ['f', 'real', [var(g.pick(DYN_I + CK)), ['i', 8]], {}]
        if c == 'cr' and s.numeric == 'dyadic':
            return var('cr0')
        return var(g.pick(['lr0', 'xr0', 'yr0']))
    c = g.pick(['+', '-', '*', 'neg', 'abs', 'minmax'])
    if c in ('+', '-', '*'):
        return ['b', c, d_real(g, s, env, d - 1, lits), d_real(g, s, env, d - 1, lits)]
    if c == 'neg':
        return ['u', '-', d_real(g, s, env, d - 1, lits)]
    if c == 'abs':
        return ['f', 'abs', [d_real(g, s, env, d - 1, lits)], {}]
    return ['f', g.pick(['min', 'max']), [d_real(g, s, env, d - 1, lits), d_real(g, s, env, d - 1, lits)], {}]


def d_cond(g, s, d):
    """decidable condition"""
    c = g.pick(['lit', 'cmp-lit', 'cmp-ck', 'cmp-ck', 'cb', 'and', 'not', 'par'])
    if d <= 0 and c in ('and', 'not'):
        c = 'cmp-ck'
    if c == 'lit':
        return ['l', g.chance(50)]
    if c == 'cmp-lit':
        v = g.i(0, 3)
        return ['b', g.pick(['==', '/=', '<', '>=']), ['i', v], ['i', v if g.chance(50) else g.i(0, 3)]]
    if c == 'cmp-ck':
        return ['b', g.pick(['==', '/=', '<', '<=', '>', '>=']), c_int(g, s, 1), c_int(g, s, 1)]
    if c == 'par':
        return ['b', g.pick(['==', '<', '>']), var(g.pick(['kp0', 'lp0'])), ['i', g.i(1, 6)]]
    if c == 'cb':
        return var('cb0')
    if c == 'and':
        return ['b', g.pick(['.and.', '.or.']), d_cond(g, s, d - 1), d_cond(g, s, d - 1)]
    return ['u', '.not.', ['p', d_cond(g, s, d - 1)]]


def u_cond(g, s, env, d):
    """undecidable (input-dependent) condition"""
    c = g.pick(['cmpi', 'cmpi', 'cmpr', 'mix', 'xb'])
    if c == 'cmpr':
        return ['b', g.pick(['<', '>', '<=', '>=']), d_real(g, s, env, 1), d_real(g, s, env, 0)]
    if c == 'mix' and d > 0:
        return ['b', g.pick(['.and.', '.or.']), u_cond(g, s, env, d - 1), d_cond(g, s, 0)]
    lhs = ['b', '+', var(g.pick(DYN_I + IN_I)), d_int(g, s, env, 1)] if g.chance(50) else var(g.pick(DYN_I + IN_I))
    return ['b', g.pick(['==', '/=', '<', '<=', '>', '>=']), lhs, c_int(g, s, 1) if g.chance(50) else d_int(g, s, env, 1)]


# ------------------------------------------------------------------ statements (mode cp)
def st_const(g, s):
    """assignment to a constant candidate"""
    s.feats.add('const-assign' + ('-under-if' if not s.certain else ''))
    c = g.pick(['int', 'int', 'int', 'real', 'log'])
    if c == 'real' and s.numeric == 'dyadic':
        return ['assign', var('cr0'), c_real(g, s, 2)]
    if c == 'log':
        return ['assign', var('cb0'), d_cond(g, s, 1)]
    return ['assign', var(g.pick(CK)), c_int(g, s, 2)]


def st_dyn(g, s, env):
    """assignment to a dynamic variable / array element / output; RHS is never a foldable constant"""
    c = g.pick(['int', 'int', 'real', 'elem', 'out', 'relem'])
    if c == 'int':
        v = g.pick(DYN_I)
        base = var(v) if g.chance(60) else var(g.pick(DYN_I + IN_I))
        return ['assign', var(v), ['b', g.pick(['+', '-']), base, d_int(g, s, env, 2)]]
    if c == 'real':
        return ['assign', var('lr0'), ['b', g.pick(['+', '-', '*']), var(g.pick(['lr0', 'xr0'])), d_real(g, s, env, 2)]]
    if c == 'out':
        if g.chance(50):
            return ['assign', var('yi0'), ['b', '+', var('yi0'), d_int(g, s, env, 2)]]
        return ['assign', var('yr0'), ['b', '+', var('yr0'), d_real(g, s, env, 2)]]
    if c == 'relem':
        return ['assign', elem('zr', ['i', g.i(1, 4)]), ['b', '+', var('xr0'), d_real(g, s, env, 1)]]
    arr = g.pick(['za', 'la'])
    hi = 5 if arr == 'za' else 4
    if env.active_loops and g.chance(50):
        lv = g.pick(list(env.active_loops))
        idx = ['b', '+', ['i', 1], ['f', 'modulo', [var(lv), ['i', hi]], {}]]
    elif g.chance(50):
        s.feats.add('array-constant-candidate-index')
        idx = ['b', '+', ['i', 1], ['f', 'modulo', [var(g.pick(CK)), ['i', hi]], {}]]
    else:
        idx = ['i', g.i(1, hi)]
    return ['assign', elem(arr, idx), ['b', '+', var(g.pick(IN_I + DYN_I)), d_int(g, s, env, 1)]]


def st_if(g, s, env, depth, nst):
    was = s.certain
    s.certain = False
    nbr = g.i(1, 3)
    br = []
    kinds = set()
    for _ in range(nbr):
        dec = g.chance(55)
        kinds.add('decidable' if dec else 'undecidable')
        br.append([d_cond(g, s, 1) if dec else u_cond(g, s, env, 1), body(g, s, env, depth + 1, max(1, nst // 2))])
    els = body(g, s, env, depth + 1, max(1, nst // 2)) if g.chance(55) else None
    s.certain = was
    for k in kinds:
        s.feats.add('if-' + k)
    if nbr > 1:
        s.feats.add('else-if')
    if s.certain:
        s.ncertain += 1
    return ['if', br, els]


def st_loop(g, s, env, depth, nst):
    lv = B.free_loopvar(env)
    if lv is None or depth >= 3:
        return None
    lo = g.i(1, 2)
    form = g.pick(['lit', 'lit', 'ck', 'n', 'zero'])
    if form == 'n':
        hi_e, hi = var('n'), 'n'
        lo = 1
    elif form == 'ck':
        hi_e, hi = ['b', '+', ['i', 1], ['f', 'modulo', [var(g.pick(CK)), ['i', 3]], {}]], 3
        lo = 1
        s.feats.add('loop-bound-constant-candidate')
    elif form == 'zero':
        hi = lo - 1
        hi_e = lit(hi)
        s.feats.add('zero-trip-loop(dynamic body)')
    else:
        hi = lo + g.i(0, 3)
        hi_e = lit(hi)
    step = None
    if form == 'lit' and g.chance(25):
        step = g.pick([2, -1])
        if step == -1:
            lo, hi = hi, lo
            hi_e = lit(hi)
            s.feats.add('negative-step')
    env.active_loops[lv] = (1, 'n') if hi == 'n' else (min(lo, hi), max(lo, hi))
    s.in_loop += 1
    was = s.certain
    if form == 'zero':
        s.certain = False
    b = body(g, s, env, depth + 1, max(1, nst - 1))
    s.certain = was
    s.in_loop -= 1
    del env.active_loops[lv]
    s.feats.add('loop-const-bounds' if form in ('lit', 'zero', 'ck') else 'loop-n-bounds')
    return ['do', lv, lit(lo), hi_e, lit(step) if step else None, b, g.pick(['plain', 'plain', 'named'])]


def st_select(g, s, env, depth):
    was = s.certain
    s.certain = False
    dec = g.chance(50)
    sel = c_int(g, s, 1) if dec else ['f', 'modulo', [d_int(g, s, env, 1), ['i', 5]], {}]
    used, cases = set(), []
    for _ in range(g.i(1, 3)):
        v = g.i(0, 6)
        if v in used or v + 1 in used:
            continue
        if g.chance(25):
            used.update((v, v + 1))
            items = [['rng', lit(v), lit(v + 1), None]]
        else:
            used.add(v)
            items = [lit(v)]
        s.in_loop += 1          # constant candidates must not be assigned inside SELECT branches
        cases.append([items, body(g, s, env, depth + 1, 2)])
        s.in_loop -= 1
    if not cases:
        s.certain = was
        return None
    s.in_loop += 1
    default = body(g, s, env, depth + 1, 1) if g.chance(60) else None
    s.in_loop -= 1
    s.certain = was
    s.feats.add('select-' + ('decidable' if dec else 'undecidable'))
    return ['select', sel, cases, default]


def st_while(g, s, env, depth):
    if s.in_loop or 'lw' in s.loopvars:
        return None
    s.loopvars.append('lw')
    s.in_loop += 1
    b = body(g, s, env, depth + 1, 2)
    s.in_loop -= 1
    s.loopvars.remove('lw')
    b.append(['assign', var('lw'), ['b', '-', var('lw'), ['i', 1]]])
    s.feats.add('do-while')
    return [['assign', var('lw'), ['f', 'min', [var('n'), ['i', g.i(1, 3)]], {}]],
            ['while', ['b', '>', var('lw'), ['i', 0]], b]]


def st_call(g, s, env):
    """call hsub0(<by-value int>, <inout dynamic int>): constants are only passed by value"""
    s.feats.add('call-constant-by-value')
    return ['call', 'hsub0', [c_int(g, s, 1) if g.chance(60) else d_int(g, s, env, 1), var(g.pick(DYN_I))], {}]


def stmt(g, s, env, depth, nst):
    kinds = ['dyn'] * 5 + ['if'] * 3 + ['call']
    if not s.loopfree:
        kinds += ['loop'] * 2
    else:
        s.avoided.append('loop-variable')
    if not s.in_loop:
        kinds += ['const'] * 5 + ([] if s.loopfree else ['while'])
    if depth < 2:
        kinds += ['select']
    c = g.pick(kinds)
    r = None
    if c == 'const':
        r = st_const(g, s)
        if s.certain:
            s.ncertain += 1
    elif c == 'if' and depth < 3:
        r = st_if(g, s, env, depth, nst)
    elif c == 'loop':
        r = st_loop(g, s, env, depth, nst)
    elif c == 'select':
        r = st_select(g, s, env, depth)
    elif c == 'while':
        r = st_while(g, s, env, depth)
        if r is not None:
            return r
    elif c == 'call':
        r = st_call(g, s, env)
    if r is None:
        r = st_dyn(g, s, env)
    return [r]


def body(g, s, env, depth, nst):
    out = []
    for _ in range(g.i(1, max(1, nst))):
        out += stmt(g, s, env, depth, nst)
    return out


# ------------------------------------------------------------------ hazard templates (mode cp)
def hazard_stmts(g, s, env, tag):
    k = g.pick(CK)
    v = g.i(1, 6)
    use = ['assign', var('yi0'), ['b', '+', var('yi0'), ['b', '*', ['i', 3], var(k)]]]
    if tag == 'call-modifies-tracked':
        return [['assign', var(k), lit(v)], ['call', 'hsub0', [lit(g.i(1, 4)) if g.chance(50) else var('xi0'), var(k)], {}], use]
    if tag == 'loop-carried-update':
        loop = ['do', 'lj0', lit(1), lit(g.i(2, 4)) if g.chance(60) else var('n'), None,
                [['assign', var(k), ['b', '+', var(k), lit(g.i(1, 3)) if g.chance(50) else var('xi0')]]], 'plain']
        return [['assign', var(k), lit(v)], loop, use]
    if tag == 'zero-trip-loop':
        lo = g.i(2, 4)
        loop = ['do', 'lj0', lit(lo), lit(lo - 1 - g.i(0, 1)), None, [['assign', var(k), lit(v + 7)]], 'plain']
        return [['assign', var(k), lit(v)], loop, use]
    if tag == 'loop-use-before-redef':
        loop = ['do', 'lj0', lit(1), lit(g.i(2, 4)), None,
                [['assign', elem('la', var('lj0')), ['b', '+', var(k), ['i', g.i(0, 2)]] if g.chance(50) else var(k)],
                 ['assign', var(k), lit(v + 7)]], 'plain']
        return [['assign', var(k), lit(v)], loop]
    if tag == 'while-loop':
        loop = ['while', ['b', '<', var(k), lit(v + g.i(2, 3))],
                [['assign', var('yi0'), ['b', '+', var('yi0'), var(k)]], ['assign', var(k), ['b', '+', var(k), ['i', 1]]]]]
        return [['assign', var(k), lit(v)], loop, use]
    if tag == 'select-case':
        sel = ['select', ['f', 'modulo', [var('xi0'), ['i', 3]], {}],
               [[[lit(0)], [['assign', var(k), lit(v + 7)]]], [[lit(1)], [['assign', var('yi0'), ['b', '+', var('yi0'), var(k)]]]]],
               [['assign', var('yi0'), ['b', '-', var('yi0'), var(k)]]]]
        return [['assign', var(k), lit(v)], sel, use]
    if tag == 'real-literal-kind':
        a, b = g.pick(['0.1', '0.3', '1.7', '0.7', '1.1']), g.pick(['0.3', '3.14', '2.6', '0.7'])
        return [['assign', var('cr0'), ['b', g.pick(['+', '*']), ['r', a], ['r', b]]],
                ['assign', var('yr0'), ['b', '+', var('yr0'), var('cr0')]]]
    if tag == 'int-division-of-sum':
        d = g.i(2, 4)
        return [['assign', var(k), lit(v)],
                ['assign', var('yi0'), ['b', '+', var('yi0'), ['b', '/', ['p', ['b', '+', var('xi0'), var(k)]], lit(d)]]]]
    raise ValueError(tag)


# ------------------------------------------------------------------ mode rm
def rm_program(g, s, hazard):
    """returns (module decls, helper routines, kernel extra decls, kernel statements, feats)"""
    # helper subroutine: hsub1(p, u1, q, ua, u2) with u1, ua, u2 possibly unused
    unused = {nm: g.chance(60) for nm in ('u1', 'ua', 'u2')}
    hdecls = [decl('p', 'int', intent='in'), decl('u1', 'int', intent='in'), decl('q', 'int', intent='inout'),
              decl('ua', 'int', dims=[[1, 3]], intent='in'), decl('u2', 'real', intent='in'), decl('ht', 'int')]
    hb = [['assign', var('ht'), ['b', '*', var('p'), ['i', 2]]]]
    if not unused['u1']:
        hb.append(['assign', var('ht'), ['b', '+', var('ht'), var('u1')]])
    if not unused['ua']:
        hb.append(['assign', var('ht'), ['b', '+', var('ht'), elem('ua', ['i', g.i(1, 3)])]])
    if not unused['u2']:
        hb.append(['assign', var('ht'), ['b', '+', var('ht'), ['f', 'int', [var('u2')], {}]]])
    hb.append(['assign', var('q'), ['b', '+', var('q'), var('ht')]])
    hsub = routine('hsub1', ['p', 'u1', 'q', 'ua', 'u2'], hdecls, hb)
    # helper function hfun1(a, ub) with ub possibly unused
    fun_unused = g.chance(60)
    fb = [['assign', var('fres'), ['b', '+', ['b', '*', var('a'), ['i', 3]], ['i', 1]]]]
    if not fun_unused:
        fb.append(['assign', var('fres'), ['b', '-', var('fres'), var('ub')]])
    hfun = routine('hfun1', ['a', 'ub'], [decl('a', 'int', intent='in'), decl('ub', 'int', intent='in'), decl('fres', 'int')],
                   fb, kind='function', result='fres')
    for nm, u in list(unused.items()) + [('ub', fun_unused)]:
        if u:
            s.feats.add('unused-dummy:' + nm)
    return [hsub, hfun]


def rm_kernel_parts(g, s, env):
    decls, stmts = [], []
    # unused locals of several shapes; PARAMETERs used only in dimensions
    decls.append(decl('lp1', 'int', param=lit(g.i(2, 4))))
    decls.append(decl('lp2', 'int', param=lit(g.i(2, 3))))
    cands = [decl('lu0', 'int'), decl('lu1', 'real'), decl('lu2', 'int', dims=[[1, 3]]), decl('lu3', 'real', dims=[[1, 'lp1']]),
             decl('lu4', 'int', dims=[[0, 'n']]), decl('lu5', 'logical'), decl('lu6', 'real', dims=[[1, 2], [1, 'lp2']])]
    for d in cands:
        if g.chance(65):
            decls.append(d)
            s.feats.add('unused-local:' + ('array' if d['dims'] else 'scalar'))
    used = decl('lx0', 'int', dims=[[1, 'lp1']])
    decls.append(used)
    stmts.append(['assign', var('lx0'), ['b', '+', var('xi0'), ['i', 1]]])
    stmts.append(['assign', var('yi0'), ['b', '+', var('yi0'), elem('lx0', ['i', 2])]])
    s.feats.add('parameter-used-only-in-dimension')
    return decls, stmts


def rm_calls(g, s, env):
    out = []
    for _ in range(g.i(1, 3)):
        u1 = d_int(g, s, env, 1)
        ua = var('la') if False else elem('za', ['rng', lit(1), lit(3), None])
        u2 = d_real(g, s, env, 1)
        p = d_int(g, s, env, 1)
        q = var(g.pick(DYN_I))
        form = g.pick(['pos', 'pos', 'kw', 'kw-all'])
        if form == 'pos':
            out.append(['call', 'hsub1', [p, u1, q, ua, u2], {}])
        elif form == 'kw':
            out.append(['call', 'hsub1', [p, u1, q], {'ua': ua, 'u2': u2}])
            s.feats.add('keyword-actuals')
        else:
            out.append(['call', 'hsub1', [p], {'u1': u1, 'q': q, 'ua': ua, 'u2': u2}])
            s.feats.add('keyword-actuals')
        if g.chance(60):
            out.append(['assign', var('yi0'), ['b', '+', var('yi0'), ['f', 'hfun1', [d_int(g, s, env, 1), d_int(g, s, env, 1)], {}]]])
            s.feats.add('function-call')
    return out


# ------------------------------------------------------------------ transformations
def gen_xforms(g, mode, hazard, numeric):
    if hazard in CP_HAZARDS:
        if hazard == 'int-division-of-sum':
            return [{'entry': 'do_constant_propagation', 'unroll_loops': False}]
        return [{'entry': 'do_constant_propagation', 'unroll_loops': False}]
    if hazard in ('symbol-only-in-declaration', 'loop-variable'):
        return [{'entry': 'do_remove_unused_vars', 'remove_only_arrays': False}]
    if mode == 'cp':
        pool = [
            {'entry': 'do_constant_propagation', 'unroll_loops': False},
            {'entry': 'do_constant_propagation', 'unroll_loops': True},
            {'entry': 'do_remove_dead_code', 'use_simplify': True},
            {'entry': 'do_remove_dead_code', 'use_simplify': False},
            {'entry': 'do_constant_propagation+do_remove_dead_code', 'unroll_loops': g.chance(40), 'use_simplify': g.chance(60)},
            {'entry': 'do_constant_propagation+do_remove_dead_code', 'unroll_loops': False, 'use_simplify': True},
        ]
    else:
        pool = [
            {'entry': 'do_remove_unused_vars', 'remove_only_arrays': True},
            {'entry': 'do_remove_unused_vars', 'remove_only_arrays': False},
            {'entry': 'remove_unused_dummy_args'},
            {'entry': 'remove_unused_dummy_args'},
            {'entry': 'remove_unused_dummy_args+do_remove_unused_vars', 'remove_only_arrays': g.chance(50)},
            {'entry': 'do_remove_dead_code+do_remove_unused_vars', 'use_simplify': True, 'remove_only_arrays': False},
        ]
    out = []
    for _ in range(3):
        x = g.pick(pool)
        if x not in out:
            out.append(x)
    return out


@st.composite
def cases(draw, hazard=None, numeric=None, nvec=4, minimal=False):
    g = B.G(draw, B.profile())
    if hazard in CP_HAZARDS:
        mode = 'cp'
    elif hazard:
        mode = 'rm'
    else:
        mode = g.pick(['cp', 'cp', 'cp', 'rm'])
    if hazard == 'real-literal-kind':
        numeric = 'general'
    numeric = numeric or ('dyadic' if hazard else g.pick(['dyadic', 'dyadic', 'general']))
    s = S(mode, numeric)
    xforms = gen_xforms(g, mode, hazard, numeric)
    s.loopfree = any(x.get('remove_only_arrays') is False for x in xforms) and hazard != 'loop-variable'
    env = B.Env()
    args = ['n', 'xi0', 'xr0', 'yi0', 'yr0', 'za', 'zr']
    entry_args = [decl('n', 'int', intent='in'), decl('xi0', 'int', intent='in'), decl('xr0', 'real', intent='in'),
                  decl('yi0', 'int', intent='inout'), decl('yr0', 'real', intent='inout'),
                  decl('za', 'int', dims=[[1, 5]], intent='inout'), decl('zr', 'real', dims=[[1, 4]], intent='inout')]
    decls = [dict(d) for d in entry_args]
    for d in entry_args:
        env.vars[d['name']] = {'type': d['type'], 'dims': d['dims'], 'ro': d['intent'] == 'in'}
    s.has_lq = g.chance(40)
    decls.append(decl('lp0', 'int', param=lit(g.i(1, 6))))
    if s.has_lq:
        decls.append(decl('lq0', 'int', init=lit(g.i(1, 6))))
        s.feats.add('initialised-local(read-only)')
    prologue = []
    for nm in CK:
        decls.append(decl(nm, 'int'))
        env.vars[nm] = {'type': 'int', 'dims': None}
        prologue.append(['assign', var(nm), ['i', g.i(0, 6)]])
    decls += [decl('cr0', 'real'), decl('cb0', 'logical')]
    env.vars['cr0'] = {'type': 'real', 'dims': None}
    env.vars['cb0'] = {'type': 'logical', 'dims': None}
    prologue += [['assign', var('cr0'), ['r', g.pick(B.DYADIC)]], ['assign', var('cb0'), ['l', g.chance(50)]]]
    for nm in DYN_I:
        decls.append(decl(nm, 'int'))
        env.vars[nm] = {'type': 'int', 'dims': None}
        prologue.append(['assign', var(nm), ['b', '+', var(g.pick(IN_I)), ['i', g.i(0, 5)]]])
    decls += [decl('lr0', 'real'), decl('la', 'int', dims=[[1, 4]]), decl('lw', 'int')]
    env.vars['lr0'] = {'type': 'real', 'dims': None}
    env.vars['la'] = {'type': 'int', 'dims': [[1, 4]]}
    prologue += [['assign', var('lr0'), ['b', '*', var('xr0'), ['r', '0.5']]], ['assign', var('la'), var('xi0')],
                 ['assign', var('lw'), ['i', 0]]]
    for k in range(3):
        decls.append(decl(f'lj{k}', 'int'))
        env.loopvars.append(f'lj{k}')
    decls += [decl('lk0', 'int')]
    helpers = [routine('hsub0', ['hv', 'hq'], [decl('hv', 'int', intent='in'), decl('hq', 'int', intent='inout')],
                       [['assign', var('hq'), ['b', '+', ['b', '*', var('hq'), ['i', 2]], var('hv')]]])]
    main = []
    if minimal:
        pass
    elif mode == 'cp':
        for _ in range(g.i(5, 9)):
            main += stmt(g, s, env, 0, 3)
        if s.ncertain == 0:
            main.append(st_const(g, s))
            main.append(['assign', var('yi0'), ['b', '+', var('yi0'), var(g.pick(CK))]])
            s.ncertain += 1
    else:
        helpers += rm_program(g, s, hazard)
        d2, st2 = rm_kernel_parts(g, s, env)
        decls += d2
        main += st2
        for _ in range(g.i(2, 4)):
            main += stmt(g, s, env, 0, 2)
        main += rm_calls(g, s, env)
        s.ncertain += 1
    hz_paths = []
    if hazard:
        if hazard == 'loop-variable':
            hz = [['do', 'lj0', lit(1), lit(g.i(2, 4)), None, [['assign', var('yi0'), ['b', '+', var('yi0'), var('lj0')]]], 'plain']]
        elif hazard == 'symbol-only-in-declaration':
            form = g.pick(['kind', 'init'])
            if form == 'kind':
                decls += [decl('lp8', 'int', param=lit(8)), decl('lv8', 'raw:real(kind=lp8)')]
                hz = [['assign', var('lv8'), ['b', '*', var('xr0'), ['r', '0.5']]],
                      ['assign', var('yr0'), ['b', '+', var('yr0'), var('lv8')]]]
            else:
                decls += [decl('lp8', 'int', param=lit(g.i(2, 3))), decl('lp9', 'int', param=['b', '+', var('lp8'), ['i', 1]]),
                          decl('lv9', 'int', dims=[[1, 'lp9']])]
                hz = [['assign', var('lv9'), var('xi0')], ['assign', var('yi0'), ['b', '+', var('yi0'), elem('lv9', ['i', 2])]]]
        else:
            hz = hazard_stmts(g, s, env, hazard)
        pos = g.i(0, len(main))
        hz_paths = [len(prologue) + pos + i for i in range(len(hz))]
        main = main[:pos] + hz + main[pos:]
        s.ncertain += 1
    epi_env = B.Env()
    epi_env.vars = {k: v for k, v in env.vars.items() if k not in ('n', 'xi0', 'xr0', 'yi0', 'yr0')}
    if minimal:
        used = mentioned_names(main) | {'n', 'xi0', 'xr0', 'yi0', 'yr0'}
        epi_env.vars = {k: v for k, v in epi_env.vars.items() if k in used}
        prologue = [st_ for st_ in prologue if st_[1][1][0][0] in used]
        hz_paths = [len(prologue) + i for i in range(len(main))]
        if 'hsub0' not in used:
            helpers = []
    epi = checksum_epilogue(epi_env, ['lk0'], loops=not s.loopfree)
    if minimal:
        used |= mentioned_names(epi)
        keep_always = {d['name'] for d in entry_args}
        decls = [d for d in decls if d['name'] in used or d['name'] in keep_always or d['name'] in ('lp8', 'lp9', 'lv8', 'lv9')]
    kern = routine('kernel', args, decls, prologue + main + epi)
    mod = module('kmod', routines=helpers + [kern], decls=[decl('kp0', 'int', param=lit(g.i(1, 6)))])
    f = {'name': 'kmod.f90', 'units': [['module', mod]]}
    inputs = B.gen_inputs(g, entry_args, nvec)
    layout = B.gen_layout(g, g.pick(['plain', 'plain', 'light'])) if not minimal else {'stream': [0], 'indent': 2}
    if numeric == 'general':
        layout['realfmt'] = 'kind'
    return {'files': [f], 'entry': {'module': 'kmod', 'name': 'kernel', 'args': entry_args},
            'inputs': inputs, 'layout': layout, 'mode': mode, 'numeric': numeric,
            'xforms': xforms, 'hazards': [hazard] if hazard else [], 'hz_paths': hz_paths,
            'avoided': sorted(set(s.avoided)), 'feats': sorted(s.feats), 'certain': s.ncertain}


# ------------------------------------------------------------------ ablation
def stmt_features(stmt):
    from .model import walk_stmts
    feats = set()
    for p, t in walk_stmts([stmt]):
        k = t[0]
        if k == 'assign' and t[1][1][0][0] in CK + ['cr0', 'cb0']:
            feats.add('constant-candidate-assignment')
            if len(p) > 1:
                feats.add('constant-candidate-assignment-inside-construct')
        if k in ('if', 'if1'):
            feats.add('if')
        if k == 'do':
            feats.add('do-loop')
        if k == 'while':
            feats.add('do-while')
        if k == 'select':
            feats.add('select-case')
        if k == 'call':
            feats.add('call')
        if k == 'assign' and "'/'" in repr(t[2]):
            feats.add('division')
        if k == 'assign' and t[1][1][0][0] in ('cr0', 'lr0', 'yr0', 'zr'):
            feats.add('real-assignment')
    return feats


def ablations(case):
    k = kernel_of(case)
    per = [stmt_features(x) for x in k['body']]
    allf = sorted(set().union(*per)) if per else []
    out = []
    for f in allf:
        c = copy_case(case)
        kb = kernel_of(c)['body']
        for i, fs in enumerate(per):
            if f in fs:
                kb[i] = ['comment', ' ablated']
        out.append((f, c))
    return out


def ablate_hazard(case):
    c = copy_case(case)
    kb = kernel_of(c)['body']
    for i in case.get('hz_paths') or []:
        if i < len(kb):
            kb[i] = ['comment', ' ablated']
    return c
