"""
Profile generator for C33 (region outlining / internal-procedure extraction): spec -> program.
Same spec machinery as gen_inline (SG choice streams, feature flags, ablation reducer).

Program shape:
    module tmod   : derived type ``tp`` (scalar + array components)
    module hmod   : callee subroutines/functions (called inside regions / internal procedures)
    module kmod   : kernel(n, ...) with ``!$loki outline`` regions and internal procedures  [module profile]
  or free-standing ``subroutine kernel`` in the file (ExtractTransformation.transform_file) [file profile]
"""
from . import gen
from . import gen_inline as GI
from .gen_inline import SG, BASE_PROF, conv, default_of, mentions
from .model import var, lit, decl, routine, module

EPS = ['outline', 'extract', 'trafo_module', 'trafo_file']

FLAGS = [
    # outline regions
    'reg_named',        # name(...) given in the pragma
    'reg_over_in',      # in(...) override listing a read-only variable
    'reg_over_inout',   # inout(...) override listing a variable of the region
    'reg_call',         # call to a module subroutine inside the region
    'reg_fun',          # function references inside the region
    'reg_loop',         # a DO loop inside the region (loop variable local to the region)
    'reg_in_loop',      # the region sits inside an enclosing DO loop and uses its loop variable
    'reg_in_if',        # the region sits inside an IF block
    'reg_cond_write',   # a scalar that is live after the region is written only conditionally inside it
    'reg_partial',      # an array that is live after the region is written only partially inside it
    'reg_array_whole',  # whole-array / section operations inside the region
    'reg_lb',           # arrays with lower bounds /= 1 are used in the region
    'reg_dimvar',       # an array whose declared extent is a dummy variable is used in the region
    'reg_dimvar_implicit',  # ... and that extent variable (also the PARAMETER of reg_param_dim) need not be referenced by the region
    'reg_2d',           # a 2-D array is used in the region
    'reg_param',        # a local PARAMETER is used in the region
    'reg_param_dim',    # a local array whose declared extent is a local PARAMETER is used in the region
    'reg_modparam',     # an imported module PARAMETER is used in the region
    'reg_dtype',        # derived-type components are read and written in the region
    'reg_multi',        # two regions in the kernel
    'reg_logical',      # logical variables in the region
    'reg_temp',         # a variable used only inside the region (region-local temporary)
    'reg_inquiry_only',  # an array may appear in the region ONLY as argument of SIZE / LBOUND / UBOUND
    'routine_use',      # the kernel imports by routine-level USE (replicated into the new routine)
    'mixed_case',       # the layout may spell one identifier with different letter case from occurrence to occurrence
    # internal procedures
    'int_host_read', 'int_host_write', 'int_host_array', 'int_host_dtype', 'int_host_param', 'int_host_dimvar',
    'int_host_loopvar',  # internal procedure reads the host's DO variable while being called inside that loop
    'int_host_multiref',  # a host array may be referenced in several forms (a(1), a(i), a) by one internal procedure
    'int_fun',           # an internal function (referenced inside an expression)
    'int_pure_host',     # an internal function that reads host variables may be PURE
    'int_multi',         # two internal procedures
    'int_calls_int',     # one internal procedure calls the other
    'int_kw',            # existing calls already use keyword arguments
    'int_in_region',     # (module profile) no effect; reserved
    'clash_local',       # locals of the internal procedure shadow host locals
    'opt', 'opt_absent', 'kw', 'act_section', 'act_elem', 'act_expr', 'dummy_lb', 'dummy_assumed',
    'callee_whole', 'callee_return', 'site_in_loop', 'site_in_if', 'multi_site',
    # (appended: expand_spec draws the flags by position, so the earlier flags keep their values per seed)
    'reg_over_out',     # out(...) override listing variables that the region writes unconditionally before any read
    'reg_out_incomplete',  # ... and the out(...) list (still non-empty) omits one such variable that is read after the region
]
SIZES = {'subs': (1, 2), 'funs': (1, 2), 'sites': (1, 3), 'fill': (0, 3), 'regstmts': (1, 4)}
SIZE_MIN = {'subs': 1, 'funs': 1, 'sites': 1, 'fill': 0, 'regstmts': 1}
STREAMS = ['kernel', 'sites', 'reg0', 'reg1', 'sub0', 'sub1', 'fun0', 'fun1', 'int0', 'int1', 'inputs', 'layout']
OPTS = {'extract_internals': [True, False], 'outline_regions': [True, False]}


def specs(eps=None, flag_pct=45):
    return GI.spec_strategy(eps or EPS, FLAGS, STREAMS, SIZES, OPTS, flag_pct=flag_pct)


def what_applies(spec):
    ep, o = spec['ep'], spec.get('opts', {})
    if ep == 'outline':
        return {'outline': True, 'extract': False}
    if ep == 'extract':
        return {'outline': False, 'extract': True}
    return {'outline': bool(o.get('outline_regions')), 'extract': bool(o.get('extract_internals'))}


def designators_of(e, name, out):
    """collect the distinct designator forms of variable ``name`` in statement / expression JSON"""
    if isinstance(e, list):
        if e and e[0] == 'd' and isinstance(e[1], list) and e[1] and isinstance(e[1][0], list):
            if e[1][0][0] == name and e not in out:
                out.append(e)
            for part in e[1]:
                for x in (part[1] or []):
                    designators_of(x, name, out)
            return out
        for x in e:
            designators_of(x, name, out)
    elif isinstance(e, dict):
        for x in e.values():
            designators_of(x, name, out)
    return out


def rename_var(e, name, new, keep=()):
    """copy of statement / expression JSON with designators of ``name`` re-based on ``new`` (not inside ``keep``)"""
    if any(e is k for k in keep):
        return e
    if isinstance(e, list):
        if e and e[0] == 'd' and isinstance(e[1], list) and e[1] and isinstance(e[1][0], list):
            parts = [[p[0], None if p[1] is None else [rename_var(x, name, new, keep) for x in p[1]]] + list(p[2:])
                     for p in e[1]]
            if parts[0][0] == name:
                parts[0][0] = new
            return [e[0], parts] + [rename_var(x, name, new, keep) for x in e[2:]]
        return [rename_var(x, name, new, keep) for x in e]
    if isinstance(e, dict):
        return {k: rename_var(v, name, new, keep) for k, v in e.items()}
    return e


INQUIRY = ('size', 'lbound', 'ubound')


def enquired(e, out):
    """names of the variables that appear as first argument of an inquiry intrinsic in statement / expression JSON"""
    if isinstance(e, list):
        if len(e) == 4 and e[0] == 'f' and e[1] in INQUIRY and e[2] and isinstance(e[2][0], list) and e[2][0][:1] == ['d']:
            nm = e[2][0][1][0][0]
            if nm not in out:
                out.append(nm)
        for x in e:
            enquired(x, out)
    elif isinstance(e, dict):
        for x in e.values():
            enquired(x, out)
    return out


def canonical_ref(name, v):
    """the one form in which a host array is referenced when int_host_multiref is off"""
    if v.get('declared_n'):
        lo, hi = v['dims'][0]
        return ['d', [[name, [['rng', lit(lo), lit(hi), None]]]]]
    return var(name)


def single_form(r, host, keep=()):
    """
    rewrite internal procedure ``r`` such that it references every host array in ONE form: the array is copied
    into a local array at the start (reference in canonical form) and all other references go to the copy
    """
    done = []
    for name, v in host.vars.items():
        if not v.get('dims') or v.get('path'):
            continue
        forms = designators_of(r['body'], name, [])
        if len(forms) <= 1:
            continue
        cp = 'hc_' + name
        body = [s_ if any(s_ is k for k in keep) else rename_var(s_, name, cp, keep) for s_ in r['body']]
        r['decls'] = list(r['decls']) + [decl(cp, v['type'], dims=[list(d) for d in v['dims']])]
        r['body'] = [['assign', var(cp), canonical_ref(name, v)]] + body
        done.append(name)
    return done


def build(spec):
    b = GI.B(spec)
    F = b.F
    app = what_applies(spec)
    free = spec['ep'] == 'trafo_file'
    gk = b.g('kernel')

    # ---- derived type + module parameters
    tp = {'name': 'tp', 'comps': [decl('ci', 'int'), decl('cr', 'real'), decl('ca', 'real', dims=[[1, 3]])], 'procs': []}
    tmod = module('tmod', types=[tp], decls=[decl('mp0', 'int', param=lit(gk.i(2, 4)))])

    # ---- callees
    funs_r, funs = [], []
    for k in range(b.n.get('funs', 1)):
        r, sig = GI.make_fun(b, b.g(f'fun{k}'), f'hfun{k}', k, funs, elemental=False)
        funs_r.append(r)
        funs.append(sig)
    subs_r, subs = [], []
    for k in range(b.n.get('subs', 1)):
        r, sig = GI.make_sub(b, b.g(f'sub{k}'), f'hsub{k}', k, [], funs)
        sig['marked'] = False
        subs_r.append(r)
        subs.append(sig)
    hmod = module('hmod', routines=funs_r + subs_r)

    # ---- kernel frame
    env = gen.Env()
    args = ['n']
    decls = [decl('n', 'int', intent='in')]
    entry_args = [decl('n', 'int', intent='in')]
    env.vars['n'] = {'type': 'int', 'dims': None, 'ro': True}
    prologue = []

    def add_arg(nm, t, dims=None, intent='in', edims=None):
        d = decl(nm, t, dims=dims, intent=intent)
        args.append(nm)
        decls.append(d)
        entry_args.append(decl(nm, t, dims=edims or dims, intent=intent))
        env.vars[nm] = {'type': t, 'dims': edims or dims, 'ro': intent == 'in'}

    add_arg('xi0', 'int')
    add_arg('xi1', 'int')
    add_arg('xr0', 'real')
    add_arg('yi0', 'int', intent='inout')
    add_arg('yr0', 'real', intent='inout')
    add_arg('yr1', 'real', intent='inout')
    clb = gk.pick([0, 2, -1]) if F('reg_lb') else 1
    add_arg('zi0', 'int', dims=[[1, 4]], intent='inout')
    add_arg('zr1', 'real', dims=[[1, 3]], intent='inout')
    add_arg('zr2', 'real', dims=[[clb, clb + 5]], intent='inout')
    dimvar = F('reg_dimvar') or F('int_host_dimvar')
    if dimvar:
        # zn(n): n >= 3 always; the generators only touch elements 1..3
        d = decl('zn', 'real', dims=[[1, 'n']], intent='inout')
        args.append('zn')
        decls.append(d)
        entry_args.append(decl('zn', 'real', dims=[[1, 'n']], intent='inout'))
        env.vars['zn'] = {'type': 'real', 'dims': [[1, 3]], 'declared_n': True}
    if F('reg_2d'):
        add_arg('zm', 'real', dims=[[1, 3], [1, 2]], intent='inout')
    gl = gk.sub()
    gl.p['while'] = True
    gl.p['logic'] = F('reg_logical')
    gen.declare_locals(gl, env, decls, prologue, nscal=(2, 3), narr=(0, 0), prefix='l')
    gk.k = gl.k
    for nm, t, dims in (('lia0', 'int', [[1, 3]]), ('lra0', 'real', [[clb, clb + 3]])):
        decls.append(decl(nm, t, dims=dims))
        env.vars[nm] = {'type': t, 'dims': dims}
        prologue.append(['assign', var(nm), gen.init_value(gk, t)])
    if F('reg_param') or F('int_host_param') or F('reg_param_dim'):
        lp0_value = gk.i(2, 5)
        decls.insert(len(args), decl('lp0', 'int', param=lit(lp0_value)))
        env.vars['lp0'] = {'type': 'int', 'dims': None, 'ro': True}
    if F('reg_param_dim'):
        # lpa0(lp0), lp0 >= 2: the environment knows the true extent (the compiler checks constant shapes)
        decls.append(decl('lpa0', 'real', dims=[[1, 'lp0']]))
        env.vars['lpa0'] = {'type': 'real', 'dims': [[1, lp0_value]]}
        prologue.append(['assign', var('lpa0'), ['r', '0.75']])
    if F('reg_modparam'):
        env.vars['mp0'] = {'type': 'int', 'dims': None, 'ro': True}
    use_dt = F('reg_dtype') or F('int_host_dtype')
    if use_dt:
        decls.append(decl('ld', 'type:tp'))
        prologue += [['assign', ['d', [['ld', None], ['ci', None]]], lit(gk.i(1, 5))],
                     ['assign', ['d', [['ld', None], ['cr', None]]], ['r', '1.5']],
                     ['assign', ['d', [['ld', None], ['ca', None]]], ['r', '0.5']]]
    if F('reg_temp'):
        decls.append(decl('ltmp', 'real'))
        decls.append(decl('lti', 'int'))
    if F('reg_over_out'):
        # pure results of the regions: not in env.vars (no generated statement touches them), defined in the prologue
        # (a region inside an IF may not execute), overwritten first thing in every region, read in the epilogue
        decls.append(decl('lout0', 'int'))
        decls.append(decl('lout1', 'real'))
        prologue.append(['assign', var('lout0'), lit(-7)])
        prologue.append(['assign', var('lout1'), ['r', '-3.25']])

    def dt_env(e):
        """environment entries for the derived-type components (gen.py designators with a path)"""
        e.vars['ld_ci'] = {'type': 'int', 'dims': None, 'path': [['ld', None], ['ci', None]], 'comp_of': None}
        e.vars['ld_cr'] = {'type': 'real', 'dims': None, 'path': [['ld', None], ['cr', None]], 'comp_of': None}
        e.vars['ld_ca'] = {'type': 'real', 'dims': [[1, 3]], 'path': [['ld', None], ['ca', None]]}

    # ---- internal procedures (host association)
    ints_r, int_subs, int_funs = [], [], []
    nints = 2 if F('int_multi') else 1
    host_for_int = gen.Env()
    host_for_int.vars = {k: dict(v) for k, v in env.vars.items() if not (k == 'lp0' and not F('int_host_param'))
                         and not (k == 'zn' and not F('int_host_dimvar')) and k not in ('mp0', 'lpa0')}
    loopvar_read = None
    for k in range(nints):
        g = b.g(f'int{k}')
        if F('int_fun') and k == nints - 1:
            r, sig = GI.make_fun(b, g, f'ifun{k}', 7 + k, [], elemental=False, host=host_for_int, internal=True)
            int_funs.append(sig)
            b.use('int_fun')
            if sig['hread'] and 'pure' in (r.get('prefix') or []):
                if F('int_pure_host'):
                    b.use('int_pure_host')
                else:
                    r['prefix'] = [x for x in r['prefix'] if x != 'pure']
        else:
            r, sig = GI.make_sub(b, g, f'isub{k}', 4 + k, [], funs, host=host_for_int, internal=True)
            sig['marked'] = False
            keep_stmts = []
            # extra host accesses: derived-type components, parameter, host loop variable
            res = [d for d in sig['dummies'] if d['role'] == 'res'][0]
            rt = res['type']
            extra = []
            if F('int_host_dtype') and use_dt:
                extra.append(['assign', var(res['name']), ['b', '+', var(res['name']),
                              conv(['d', [['ld', None], ['ci', None]]], 'int', rt)]])
                extra.append(['assign', ['d', [['ld', None], ['cr', None]]],
                              ['b', '+', ['d', [['ld', None], ['cr', None]]], ['r', '0.5']]])
                extra.append(['assign', ['d', [['ld', None], ['ca', [lit(2)]]]],
                              ['b', '+', ['d', [['ld', None], ['ca', [lit(1)]]]], ['d', [['ld', None], ['cr', None]]]]])
                sig['hwrite'] = sorted(set(sig['hwrite']) | {'ld'})
                b.use('int_host_dtype')
            if F('int_host_param') and 'lp0' in env.vars:
                extra.append(['assign', var(res['name']), ['b', '+', var(res['name']), conv(var('lp0'), 'int', rt)]])
                b.use('int_host_param')
            if F('int_host_dimvar') and 'zn' in env.vars:
                if F('int_host_multiref'):
                    extra.append(['assign', ['d', [['zn', [lit(2)]]]], ['b', '+', ['d', [['zn', [lit(1)]]]], ['r', '0.25']]])
                else:
                    cz = canonical_ref('zn', env.vars['zn'])
                    keep_stmts.append(['assign', cz, ['b', '+', cz, ['r', '0.25']]])
                    extra.append(keep_stmts[-1])
                sig['hwrite'] = sorted(set(sig['hwrite']) | {'zn'})
                b.use('int_host_dimvar')
            if F('int_host_loopvar') and k == 0 and not F('clash_local'):
                # (with clash_local the internal procedure declares its own lj* and would read an undefined local)
                lvname = env.loopvars[-1]
                extra.append(['assign', var(res['name']), ['b', '+', var(res['name']), conv(var(lvname), 'int', rt)]])
                loopvar_read = lvname
                sig['needs_loop'] = lvname
                b.use('int_host_loopvar')
            if F('int_calls_int') and k == 1 and int_subs:
                # isub1 calls isub0 with its own variables as actuals
                ienv = gen.Env()
                for d in sig['dummies']:
                    if not d['optional']:
                        ienv.vars[d['name']] = {'type': d['type'], 'dims': ([[1, d['E']]] if d.get('E') and d['dims'] else None),
                                                'ro': d['intent'] == 'in'}
                for d_ in r['decls']:
                    if d_['name'] not in ienv.vars and not d_.get('intent') and d_['type'] in ('int', 'real') \
                            and not d_['name'].endswith(('j0', 'j1', 'j2', 'w')):
                        ienv.vars[d_['name']] = {'type': d_['type'], 'dims': d_['dims']}
                tgt = int_subs[0]
                if not tgt.get('needs_loop'):
                    call = GI.make_call(b, g, ienv, tgt, marked=False, banned_w=set(sig['hread']) | set(sig['hwrite']),
                                        banned_r=set(sig['hwrite']))
                    if call is not None:
                        extra += call
                        sig['hread'] = sorted(set(sig['hread']) | set(tgt['hread']))
                        sig['hwrite'] = sorted(set(sig['hwrite']) | set(tgt['hwrite']))
                        b.use('int_calls_int')
            if extra:
                body = r['body']
                pos = len(body) - (1 if body and body[-1] == ['return'] else 0)
                r['body'] = body[:pos] + extra + body[pos:]
            hosted = gen.Env()     # the host arrays that this internal procedure really accesses (not shadowed by its locals)
            hosted.vars = {nm: host_for_int.vars[nm] for nm in sorted(set(sig['hread']) | set(sig['hwrite']))
                           if nm in host_for_int.vars}
            multi = [nm for nm, v in hosted.vars.items() if v.get('dims') and not v.get('path')
                     and len(designators_of(r['body'], nm, [])) > 1]
            if multi and F('int_host_multiref'):
                b.use('int_host_multiref')
            elif multi:
                single_form(r, hosted, keep=keep_stmts)
            int_subs.append(sig)
        ints_r.append(r)

    # ---- kernel body: sites (calls to internal procedures), regions, filler
    gsite = b.g('sites')
    gfill = gk.sub()
    gfill.p['while'] = True
    body = list(prologue)
    meta_sites = []

    def filler(nmax):
        out = []
        for _ in range(gfill.i(0, nmax)):
            out += gen.gen_stmt(gfill, env, 1, 3)
        return out

    def region(idx, uncond):
        g = b.g(f'reg{idx}')
        renv = env   # the region sees every kernel variable
        lv = None
        if not uncond and F('reg_in_loop') and g.chance(50):
            lv = gen.free_loopvar(env)
            if lv is not None:
                lo = g.i(1, 2)
                env.active_loops[lv] = (lo, lo + g.i(1, 2))
        gb = g.sub(sections=F('reg_array_whole'), reductions=F('reg_array_whole'), logic=F('reg_logical'))
        if F('reg_fun'):
            gb.p['functions'] = True
            env.funcs = list(funs)
        if use_dt and F('reg_dtype'):
            dt_env(env)
        if not F('reg_loop'):
            gb.p['max_depth'] = 0
        saved_lv = list(env.loopvars)
        hidden_zn = None
        if 'zn' in env.vars and not F('reg_dimvar'):
            hidden_zn = env.vars.pop('zn')     # the dummy-sized array is only visible to regions under reg_dimvar
        if loopvar_read:
            env.loopvars = [x for x in env.loopvars if x != loopvar_read]
        stmts = []
        for _ in range(b.n.get('regstmts', 2)):
            stmts += gen.gen_stmt(gb, env, 1, 3)
        used_over = {'in': [], 'inout': []}
        # forced features
        if F('reg_loop'):
            l2 = gen.free_loopvar(env)
            if l2 is not None:
                stmts.append(['do', l2, lit(1), lit(3), None,
                              [['assign', ['d', [['lia0', [var(l2)]]]], ['b', '+', ['d', [['lia0', [var(l2)]]]], var(l2)]]], 'plain'])
                b.use('reg_loop')
        if F('reg_cond_write'):
            stmts.append(['if', [[gen.log_expr(gb, env, 1), [['assign', var('li0'), ['b', '+', var('xi0'), lit(g.i(1, 5))]]]]], None])
            b.use('reg_cond_write')
        if F('reg_partial'):
            lb = env.vars['lra0']['dims'][0][0]
            stmts.append(['assign', ['d', [['lra0', [lit(lb + 1)]]]], ['b', '+', var('xr0'), ['r', '0.5']]])
            b.use('reg_partial')
        if F('reg_lb') and clb != 1:
            stmts.append(['assign', ['d', [['zr2', [lit(clb)]]]], ['b', '-', ['d', [['zr2', [lit(clb + 5)]]]], ['d', [['lra0', [lit(clb + 3)]]]]]])
            if F('reg_array_whole'):
                stmts.append(['assign', var('lra0'), ['b', '+', var('lra0'), ['d', [['zr2', [['rng', lit(clb + 1), lit(clb + 4), None]]]]]]])
            b.use('reg_lb')
        if F('reg_dimvar') and 'zn' in env.vars:
            stmts.append(['assign', ['d', [['zn', [lit(1)]]]], ['b', '+', ['d', [['zn', [lit(3)]]]], var('xr0')]])
            b.use('reg_dimvar')
            if not F('reg_dimvar_implicit'):
                # the region itself uses the extent variable (as in loki's own tests)
                stmts.append(['assign', var('yi0'), ['b', '+', var('yi0'), var('n')]])
            elif not mentions(stmts, {'n'}):
                b.use('reg_dimvar_implicit')
        if F('reg_2d'):
            stmts.append(['assign', ['d', [['zm', [lit(2), lit(1)]]]], ['b', '+', ['d', [['zm', [lit(1), lit(2)]]]], var('yr0')]])
            b.use('reg_2d')
        if F('reg_param') and 'lp0' in env.vars:
            stmts.append(['assign', var('yi0'), ['b', '+', var('yi0'), var('lp0')]])
            b.use('reg_param')
        if F('reg_param_dim') and 'lpa0' in env.vars:
            stmts.append(['assign', ['d', [['lpa0', [lit(1)]]]], ['b', '+', ['d', [['lpa0', [lit(2)]]]], var('xr0')]])
            b.use('reg_param_dim')
            if not F('reg_dimvar_implicit'):
                stmts.append(['assign', var('yi0'), ['b', '+', var('yi0'), var('lp0')]])
            elif not mentions(stmts, {'lp0'}):
                b.use('reg_dimvar_implicit')
        if F('reg_modparam'):
            stmts.append(['assign', var('yi0'), ['b', '-', ['b', '*', var('yi0'), lit(2)], var('mp0')]])
            b.use('reg_modparam')
        if F('reg_dtype') and use_dt:
            stmts.append(['assign', ['d', [['ld', None], ['cr', None]]],
                          ['b', '+', ['d', [['ld', None], ['cr', None]]], var('xr0')]])
            stmts.append(['assign', ['d', [['ld', None], ['ca', [lit(3)]]]],
                          ['b', '-', ['d', [['ld', None], ['ca', [lit(1)]]]], ['d', [['ld', None], ['cr', None]]]]])
            stmts.append(['assign', var('yi0'), ['b', '+', var('yi0'), ['d', [['ld', None], ['ci', None]]]]])
            b.use('reg_dtype')
        if F('reg_temp'):
            stmts.insert(0, ['assign', var('ltmp'), ['b', '*', var('xr0'), ['r', '2.0']]])
            stmts.insert(1, ['assign', var('lti'), ['b', '+', var('xi0'), lit(1)]])
            stmts.append(['assign', var('yr1'), ['b', '+', var('yr1'), ['b', '+', var('ltmp'), conv(var('lti'), 'int', 'real')]]])
            b.use('reg_temp')
        if F('reg_over_out'):
            # written unconditionally, not read inside the region (defined-not-used for the dataflow analysis)
            stmts.insert(0, ['assign', var('lout0'), ['b', '+', var('xi0'), lit(2 + idx)]])
            stmts.insert(1, ['assign', var('lout1'), ['b', '+', ['b', '*', var('xr0'), ['r', '1.5']], ['r', '%d.25' % (1 + idx)]]])
        if F('reg_call') and subs:
            call = GI.make_call(b, g, env, g.pick(subs), marked=False)
            if call is not None:
                stmts += call
                b.use('reg_call')
        if lv is not None:
            stmts.append(['assign', var('yi0'), ['b', '+', var('yi0'), var(lv)]])
        enq = [nm for nm in enquired(stmts, []) if nm in env.vars and not env.vars[nm].get('path')]
        if enq and F('reg_inquiry_only'):
            b.use('reg_inquiry_only')
        for nm in ([] if F('reg_inquiry_only') else enq):
            # an element of every enquired array is also read (a reference that loki's dataflow analysis counts as a use)
            v = env.vars[nm]
            elt = ['d', [[nm, [lit(d[0]) for d in v['dims']]]]]
            tgt = 'yi0' if v['type'] == 'int' else 'yr0'
            if v['type'] in ('int', 'real'):
                stmts.append(['assign', var(tgt), ['b', '+', var(tgt), elt]])
            else:
                stmts.append(['if1', elt, ['assign', var('yi0'), ['b', '+', var('yi0'), lit(1)]]])
        env.funcs = []
        env.loopvars = saved_lv
        if hidden_zn is not None:
            env.vars['zn'] = hidden_zn
        for nm in ('ld_ci', 'ld_cr', 'ld_ca'):
            env.vars.pop(nm, None)
        # pragma
        prag = 'loki outline'
        if F('reg_named'):
            prag += f' name(outl{idx})'
            b.use('reg_named')
        if F('reg_over_in'):
            # a variable that is only read in the region (kernel intent(in) dummy)
            if mentions(stmts, {'xr0'}):
                prag += ' in(xr0)'
                b.use('reg_over_in')
        if F('reg_over_inout'):
            names = [nm for nm in ('yi0', 'yr1', 'li0') if mentions(stmts, {nm})]
            if names:
                prag += f' inout({",".join(names[:2])})'
                b.use('reg_over_inout')
        if F('reg_over_out'):
            outs = ['lout0', 'lout1']
            if F('reg_out_incomplete'):
                # the other result is left to loki's dataflow analysis; the list stays non-empty
                outs = [outs[idx % 2]]
                b.use('outline:incomplete-out-list')
            prag += f' out({",".join(outs)})'
            b.use('reg_over_out')
        out = [['pragma', prag]] + stmts + [['pragma', 'loki end outline']]
        where = 'top'
        if lv is not None:
            lo, hi = env.active_loops.pop(lv)
            out = [['do', lv, lit(lo), lit(hi), None, out, 'plain']]
            where = 'loop'
            b.use('reg_in_loop')
        elif not uncond and F('reg_in_if') and g.chance(50):
            out = [['if', [[gen.log_expr(g, env, 1), out]], None]]
            where = 'if'
            b.use('reg_in_if')
        return out, where

    nreg = 2 if F('reg_multi') else 1
    if F('reg_multi'):
        b.use('reg_multi')
    pieces = []
    for idx in range(nreg):
        pieces.append(('reg', idx))
    nsites = b.n.get('sites', 1)
    for si in range(nsites):
        pieces.append(('site', si))
    # deterministic interleaving from the site stream
    order = []
    pool = list(pieces)
    while pool:
        order.append(pool.pop(gsite.i(0, len(pool) - 1)))
    callee_uses = {}
    first = {'reg': True, 'site': True}
    for kind, idx in order:
        body += filler(b.n.get('fill', 1))
        if kind == 'reg':
            stmts, where = region(idx, first['reg'])
            first['reg'] = False
            body += stmts
            meta_sites.append({'kind': 'reg', 'form': 'region', 'where': where})
            continue
        uncond = first['site']
        first['site'] = False
        pool_k = (['isub'] * 3 if int_subs else []) + (['ifun'] * 2 if int_funs else [])
        if not pool_k:
            continue
        kd = gsite.pick(pool_k)
        stmts, form = None, None
        lv = None
        if kd == 'isub':
            cands = [s for s in int_subs if s['name'] not in callee_uses] or (int_subs if F('multi_site') else [])
            if cands:
                s = gsite.pick(cands)
                need = s.get('needs_loop')
                in_loop = bool(need) or ((not uncond) and F('site_in_loop') and gsite.chance(45))
                if in_loop:
                    lv = need or gen.free_loopvar(env)
                    if lv is not None and lv not in env.active_loops:
                        lo = gsite.i(1, 2)
                        env.active_loops[lv] = (lo, lo + gsite.i(1, 2))
                    else:
                        lv = None
                # other internal procedures that read the host loop variable are only called inside that loop
                stmts = GI.make_call(b, gsite, env, s, marked=False)
                if stmts is not None:
                    if callee_uses.get(s['name']):
                        b.use('multi_site')
                    callee_uses[s['name']] = callee_uses.get(s['name'], 0) + 1
                    form = 'call'
                elif need:
                    stmts = None
        elif kd == 'ifun':
            stmts, form = GI.fn_site(b, gsite, env, int_funs, 'fn')
        where = 'top'
        if lv is not None:
            lo, hi = env.active_loops.pop(lv)
            if stmts is not None:
                stmts = [['do', lv, lit(lo), lit(hi), None, stmts, 'plain']]
                where = 'loop'
                b.use('site_in_loop')
        if stmts is None:
            meta_sites.append({'kind': kd, 'form': None})
            continue
        if where == 'top' and not uncond and F('site_in_if') and gsite.chance(35):
            stmts = [['if', [[gen.log_expr(gsite, env, 1), stmts]], None]]
            where = 'if'
            b.use('site_in_if')
        body += stmts
        meta_sites.append({'kind': kd, 'form': form, 'where': where})
    body += filler(b.n.get('fill', 1))
    # epilogue: every local is observable through the outputs
    for nm, v in env.vars.items():
        if nm in args or v.get('ro') or v.get('fuel') or v.get('path'):
            continue
        e = ['f', 'sum', [var(nm)], {}] if v['dims'] else var(nm)
        if v['type'] == 'int':
            body.append(['assign', var('yi0'), ['b', '+', var('yi0'), e]])
        elif v['type'] == 'real':
            body.append(['assign', var('yr0'), ['b', '+', var('yr0'), e]])
        else:
            body.append(['if1', e, ['assign', var('yi0'), ['b', '+', var('yi0'), lit(1)]]])
    if F('reg_over_out'):
        body.append(['assign', var('yi0'), ['b', '+', var('yi0'), var('lout0')]])
        body.append(['assign', var('yr0'), ['b', '+', var('yr0'), var('lout1')]])
    if use_dt:
        body.append(['assign', var('yr0'), ['b', '+', var('yr0'), ['b', '+', ['d', [['ld', None], ['cr', None]]],
                                                                     ['f', 'sum', [['d', [['ld', None], ['ca', None]]]], {}]]]])
        body.append(['assign', var('yi0'), ['b', '+', var('yi0'), ['d', [['ld', None], ['ci', None]]]]])
    if 'zn' in env.vars:
        body.append(['assign', var('yr0'), ['b', '+', var('yr0'), ['d', [['zn', [lit(2)]]]]]])

    huse = {'module': 'hmod', 'only': [[f_['name'], None] for f_ in funs] + [[s['name'], None] for s in subs]}
    tuse = {'module': 'tmod', 'only': [['tp', None], ['mp0', None]]}
    kdecls = decls[:len(args)] + [d for d in decls[len(args):] if d.get('param') is not None] + \
        [d for d in decls[len(args):] if d.get('param') is None]
    kern = routine('kernel', args, kdecls, body, contains=ints_r)
    routine_use = F('routine_use') or free
    if F('routine_use'):
        b.use('routine_use')
    if free:
        kern['uses'] = [huse, tuse]
        units = [['module', tmod], ['module', hmod], ['routine', kern]]
        entry_mod = None
    else:
        kern['uses'] = [huse, tuse] if routine_use else []
        kmod = module('kmod', routines=[kern], uses=[] if routine_use else [huse, tuse])
        units = [['module', tmod], ['module', hmod], ['module', kmod]]
        entry_mod = 'kmod'
    f = {'name': 'kmod.f90', 'units': units}
    inputs = gen.gen_inputs(b.g('inputs'), entry_args, 4)
    layout = GI.layout_from(b.g('layout'))
    if layout.get('idcase') == 'mixed':
        if F('mixed_case'):
            b.use('mixed_case')
        else:
            layout['idcase'] = 'lower'
    if use_dt:
        # fparser (third party) cannot read "TYPE( &<newline> TP) LD" (continuation inside the type spec of a declaration
        # without "::"); the frontend is not the subject of this property
        layout['dcolon'] = True
    return {'files': [f], 'entry': {'module': entry_mod, 'name': 'kernel', 'args': entry_args},
            'inputs': inputs, 'layout': layout,
            'meta': {'features': sorted(b.features), 'sites': meta_sites, 'free': free}}
