"""
Kernel generator for the transpilation properties C35 (Fortran -> C) and C36 (Fortran -> Python).

One stand-alone ``subroutine kernel(n, ...)`` (the unit FortranCTransformation /
FortranPythonTransformation are applied to in loki's own tests), restricted to the subset the
transformations' docstrings and tests document:

* arguments: ``n`` (array extent), intent(in) scalars, intent(inout|out) scalars, 1-3-D explicit-shape
  arrays of INTEGER / REAL(kind=real64|c_double) / LOGICAL with lower bounds 1, 0, -1, 2 and upper bound
  ``n`` or a constant; locals: scalars, loop variables, automatic arrays;
* statements: assignment (scalar / element / full-range section), counted DO (literal or ``n`` bounds,
  literal step), DO WHILE with a fuel counter, IF / ELSE IF / ELSE, SELECT CASE over integer values and
  non-negative ranges;
* expressions: + - * / ** unary minus, parentheses, comparisons, .and. .or. .not. .eqv. .neqv.,
  intrinsics min max abs mod sign sqrt exp, real(<int>, kind=K); no I/O.

Programs are free of undefined behaviour by construction (every local and intent(out) object is assigned
in a prologue, subscripts are in bounds, divisors are non-zero, loops are bounded, loop variables and loop
bounds are not assigned in the loop unless the named feature is on).

**Features**: every construct that triggers a *listed known finding* of C35/C36 is a named feature.  A
profile switches features off (``profile['off']``); each time the generator would have drawn a
switched-off construct it records the name in ``case['skipped']`` (reported through ``ctx.exclude``).
``features_of(case)`` recomputes the set of feature names from the program itself, so a hand-written
replay that contains a trigger gets the trigger's tag in its signature while generated cases cannot.

The model is FProg-like JSON (see fprog/model.py) with a small private renderer (kind-suffixed literals and
``real(kind=real64)`` declarations are not expressible in the shared renderer):
    expr:  ['i', v>=0] ['r', text, sfx('k'|'d'|'')] ['l', bool] ['v', name] ['e', name, [subs]]
           ['sec', name, [sub|None...]] ['u', '-'|'.not.', e] ['b', op, l, r] ['p', e] ['f', name, [args]]
           ['cast', e]   (real(e, kind=K))
    stmt:  ['assign', lhs, rhs] ['do', var, lo, hi, step|None, body] ['while', cond, body]
           ['if', [[cond, body]...], else|None] ['select', expr, [[items, body]...], default|None]
"""
from hypothesis import strategies as st

NMAX = 6
NMIN = 3

DYADIC = ['0.5', '0.25', '1.5', '2.0', '0.125', '3.0', '1.0', '4.0', '0.75', '2.5']
GENERAL = ['0.1', '0.3', '1.7', '0.7', '3.14', '1.1', '2.6']

# feature name -> what it is (features are *triggers of listed findings* or optional sub-domains)
FEATURES = {
    'dlit': "real literal with D exponent (1.5d0)",
    'deflit': "default-kind real literal that is not exactly representable (0.1) in a REAL(8) expression",
    'minmax3': "min/max with three arguments",
    'intfn-div': "integer min/max/abs/sign inside an operand of integer '/', in a subscript or SELECT CASE selector",
    'intpow-div': "integer ** inside an operand of integer '/' or mod, in a subscript or SELECT CASE selector",
    'bound-assigned': "DO loop whose upper-bound variable is assigned inside the loop body",
    'intdiv': "integer division",
    'mod': "mod intrinsic",
    'sign': "sign intrinsic",
    'lbound': "array with lower bound /= 1",
    'loopvar-after': "DO variable read after its loop",
    'step-unaligned': "DO loop with |step| > 1 whose range is not a (non-negative) multiple of the step",
    'int-from-real': "integer scalar assigned a real-valued expression (implicit conversion)",
    'local-int-array': "local integer / logical array",
    'select': "SELECT CASE",
    'while': "DO WHILE",
    'section': "full-range array section assignment",
    'exp': "exp intrinsic",
    'realpow': "real ** integer with exponent > 2",
    'logical-arg': "logical scalar/array argument",
    'int-real-mixed': "integer operand in a real expression without explicit conversion",
    'zero-trip': "DO loop that may execute zero times",
    'rank3': "3-D array",
    'mod-subscript': "mod(...) inside an array subscript",
    'long-line': "statement whose estimated Python text exceeds ~230 characters (PyCodegen wraps at 300 without continuation; "
                 ".eqv./.neqv. are expanded and double their operands)",
    'indirect': "array element used as subscript of another array (indirect addressing a(idx(i)))",
    'intmod-factor': "integer mod(...) as a non-leftmost factor of a product or as denominator",
    'section-loop-range': "section whose range equals the range of a step-less DO loop of the kernel "
                          "(resolve_vector_notation re-uses that loop's variable: listed under C30)",
}

C_PROFILE = {'target': 'c', 'off': ['dlit', 'deflit', 'minmax3', 'intfn-div', 'intpow-div', 'bound-assigned', 'mod-subscript', 'intmod-factor', 'section-loop-range', 'indirect'],
             'max_stmts': 6, 'max_depth': 3, 'expr_depth': 3}
PY_PROFILE = {'target': 'py', 'off': ['dlit', 'deflit', 'intdiv', 'mod', 'sign', 'lbound', 'loopvar-after',
                                      'step-unaligned', 'int-from-real', 'select', 'mod-subscript', 'intmod-factor', 'indirect', 'long-line'],
              'max_stmts': 6, 'max_depth': 3, 'expr_depth': 3}


class G:
    """
    Generation context.  Every choice is a Hypothesis draw *rotated* by a per-case pseudo-random offset
    (``random.Random`` seeded by the first draw and the shard seed): the all-zero / small choice sequences
    Hypothesis starts every run with then decode to full-size, feature-rich kernels instead of the empty
    one (on a loaded box a shard only gets to evaluate its first few examples), while the case stays a
    pure function of the drawn values.
    """

    def __init__(self, draw, prof, salt0=0):
        import random
        self.draw = draw
        self.p = prof
        self.off = set(prof.get('off') or ())
        self.skipped = {}
        self.rng = random.Random((draw(st.integers(0, 2 ** 31 - 1)) * 1000003) ^ int(salt0))

    def i(self, lo, hi):
        if hi <= lo:
            return lo
        span = hi - lo + 1
        return lo + (self.draw(st.integers(0, span - 1)) + self.rng.randrange(span)) % span

    def pick(self, seq):
        seq = list(seq)
        return seq[self.i(0, len(seq) - 1)] if len(seq) > 1 else seq[0]

    def chance(self, pct):
        return self.i(0, 99) < pct

    def on(self, feat):
        """True when the feature may be generated; records a skipped draw otherwise"""
        assert feat in FEATURES, feat
        if feat in self.off:
            self.skipped[feat] = self.skipped.get(feat, 0) + 1
            return False
        return True


class Env:
    def __init__(self):
        self.vars = {}           # name -> {'type', 'dims', 'ro'}
        self.loopvars = []
        self.active = {}         # loop var -> (lo, hi) inclusive value range; hi may be 'n'
        self.after = set()       # loop variables readable after their loop
        self.fuel = None
        self.fuel_busy = False

    def scalars(self, typ, writable=False):
        return [n for n, v in self.vars.items() if v['type'] == typ and not v['dims']
                and not (writable and v.get('ro'))]

    def arrays(self, typ=None, writable=False):
        return [n for n, v in self.vars.items() if v['dims'] and (typ is None or v['type'] == typ)
                and not (writable and v.get('ro'))]


def lit(v):
    return ['i', v] if v >= 0 else ['u', '-', ['i', -v]]


def var(n):
    return ['v', n]


# ------------------------------------------------------------------ expressions
def subscripts(g, env, name, depth):
    """subscripts guaranteed in bounds for n >= NMIN"""
    subs = []
    for lb, ub in env.vars[name]['dims']:
        ubmin = NMIN if ub == 'n' else ub
        ext = ubmin - lb + 1
        ch = ['lit']
        for lv, (lo, hi) in env.active.items():
            if hi == 'n':
                if lo >= lb and ub == 'n':
                    ch += ['loop:' + lv] * 4
                if lo - 1 >= lb and ub == 'n':
                    ch += ['loopm1:' + lv]
                continue
            if lo >= lb and hi <= ubmin:
                ch += ['loop:' + lv] * 4
            if lo - 1 >= lb and hi - 1 <= ubmin:
                ch.append('loopm1:' + lv)
            if lo + 1 >= lb and hi + 1 <= ubmin:
                ch.append('loopp1:' + lv)
        if depth > 0 and 'mod' not in g.off and g.chance(30) and g.on('mod-subscript'):
            ch += ['mod'] * 2
        c = g.pick(ch)
        if name != 'lidx' and lb <= 1 and ub == 'n' and g.chance(8) and g.on('indirect') and 'lidx' in env.vars:
            # lidx(1:n) holds the permutation n+1-j: every element is a valid subscript of a dimension lb<=1:n
            subs.append(['e', 'lidx', subscripts(g, env, 'lidx', 0)])
            continue
        if c == 'lit':
            subs.append(lit(g.i(lb, ubmin)))
        elif c.startswith('loop:'):
            subs.append(var(c[5:]))
        elif c.startswith('loopm1:'):
            subs.append(['b', '-', var(c[7:]), ['i', 1]])
        elif c.startswith('loopp1:'):
            subs.append(['b', '+', var(c[7:]), ['i', 1]])
        else:
            # lb + mod(mod(e, ext) + ext, ext): in [lb, lb+ext-1] for every e
            e = int_expr(g, env, depth - 1, strict=2)
            inner = ['f', 'mod', [['b', '+', ['f', 'mod', [e, ['i', ext]]], ['i', ext]], ['i', ext]]]
            subs.append(inner if lb == 0 else ['b', '+', lit(lb), inner] if lb > 0 else ['b', '-', inner, ['i', -lb]])
    return subs


def element(g, env, name, depth=1):
    return ['e', name, subscripts(g, env, name, depth)]


def int_leaf(g, env):
    opts = ['lit', 'lit']
    sc = env.scalars('int')
    if sc:
        opts += ['var'] * 4
    if env.active:
        opts += ['loop'] * 2
    arrs = env.arrays('int')
    if arrs:
        opts += ['elem'] * 2
    if env.after:
        opts += ['after']
    c = g.pick(opts)
    if c == 'var':
        return var(g.pick(sc))
    if c == 'loop':
        return var(g.pick(list(env.active)))
    if c == 'elem':
        return element(g, env, g.pick(arrs), 0)
    if c == 'after' and g.on('loopvar-after'):
        return var(g.pick(sorted(env.after)))
    return ['i', g.i(0, 9)]


def int_divisor(g, env, depth, strict=2):
    if depth <= 0 or g.chance(60):
        v = g.i(1, 7)
        return ['i', v] if g.chance(70) else ['p', ['u', '-', ['i', v]]]
    # 2*e + 1 is odd, hence non-zero, and takes both signs
    return ['p', ['b', '+', ['b', '*', int_expr(g, env, depth - 1, strict=strict), ['i', 2]], ['i', 1]]]


def is_int_mod(e):
    return e[0] == 'f' and e[1] == 'mod'


def int_product(g, left, right):
    """left * right; an integer mod(...) is only ever the leftmost factor unless 'intmod-factor' is on"""
    if is_int_mod(right) and not g.on('intmod-factor'):
        if is_int_mod(left):
            return ['b', '+', left, right]
        left, right = right, left
    return ['b', '*', left, right]


def int_expr(g, env, depth, strict=0):
    """strict: 2 = the value is consumed by integer '/', a subscript or a SELECT CASE selector; 1 = by mod"""
    if depth <= 0 or g.chance(25):
        return int_leaf(g, env)
    c = g.pick(['+', '+', '-', '-', '*', '/', '/', 'neg', 'pow', 'mod', 'mod', 'abs', 'min', 'max', 'sign', 'paren'])
    if c in ('abs', 'min', 'max', 'sign') and strict >= 2 and not g.on('intfn-div'):
        c = '+'
    if c == 'pow' and strict >= 1 and not g.on('intpow-div'):
        c = '*'
    if c == '/' and not g.on('intdiv'):
        c = '-'
    if c == 'mod' and not g.on('mod'):
        c = '*'
    if c == 'sign' and not g.on('sign'):
        c = 'abs'
    d = depth - 1
    if c == '*':
        return int_product(g, int_expr(g, env, d, strict), int_expr(g, env, d, strict))
    if c in ('+', '-'):
        return ['b', c, int_expr(g, env, d, strict), int_expr(g, env, d, strict)]
    if c == 'paren':
        return ['b', g.pick(['-', '*', '+']), int_expr(g, env, d, strict),
                ['p', ['b', g.pick(['-', '+']), int_expr(g, env, d, strict), int_leaf(g, env)]]]
    if c == '/':
        return ['b', '/', int_expr(g, env, d, 2), int_divisor(g, env, d)]
    if c == 'mod':
        return ['f', 'mod', [int_expr(g, env, d, max(strict, 1)), int_divisor(g, env, d, max(strict, 1))]]
    if c == 'neg':
        return ['u', '-', int_expr(g, env, d, strict)]
    if c == 'pow':
        return ['b', '**', int_leaf(g, env), ['i', g.i(0, 3)]]
    if c == 'abs':
        return ['f', 'abs', [int_expr(g, env, d, strict)]]
    if c == 'sign':
        return ['f', 'sign', [int_expr(g, env, d, strict), int_expr(g, env, d, strict)]]
    args = [int_expr(g, env, d, strict), int_expr(g, env, d, strict)]
    if g.chance(12) and g.on('minmax3'):
        args.append(int_leaf(g, env))
    return ['f', c, args]


def real_lit(g):
    """kind-suffixed (or D-exponent) literal: has the kind of the kernel's reals, usable as intrinsic argument"""
    c = g.pick(['k', 'k', 'k', 'kgen', 'kgen', 'd'])
    if c == 'd' and not g.on('dlit'):
        c = 'k'
    if c == 'k':
        return ['r', g.pick(DYADIC), 'k']
    if c == 'kgen':
        return ['r', g.pick(GENERAL), 'k']
    return ['r', g.pick(DYADIC + GENERAL), 'd']


def default_lit(g):
    """default-kind literal (only ever an operand of a binary arithmetic operator)"""
    if g.chance(35) and g.on('deflit'):
        return ['r', g.pick(GENERAL), '']
    return ['r', g.pick(DYADIC), '']


def real_leaf(g, env):
    opts = ['lit', 'lit', 'cast']
    sc = env.scalars('real')
    if sc:
        opts += ['var'] * 4
    arrs = env.arrays('real')
    if arrs:
        opts += ['elem'] * 3
    c = g.pick(opts)
    if c == 'var':
        return var(g.pick(sc))
    if c == 'elem':
        return element(g, env, g.pick(arrs), 0)
    if c == 'cast':
        return ['cast', int_leaf(g, env)]
    return real_lit(g)


def real_divisor(g, env, depth):
    if depth <= 0 or g.chance(50):
        return ['r', g.pick(['2.0', '4.0', '0.5', '8.0', '3.0', '0.3', '1.7']), 'k']
    e = real_expr(g, env, depth - 1)
    if g.chance(50):
        return ['p', ['b', '+', ['r', '1.0', 'k'], ['f', 'abs', [e]]]]
    return ['p', ['b', '+', ['b', '*', e, e], ['r', '0.5', 'k']]]


def real_expr(g, env, depth):
    if depth <= 0 or g.chance(25):
        return real_leaf(g, env)
    c = g.pick(['+', '+', '-', '-', '*', '*', '/', '/', 'neg', 'pow', 'abs', 'min', 'max', 'sign', 'sqrt',
                'mod', 'exp', 'mixed', 'paren'])
    if c == 'mod' and not g.on('mod'):
        c = '*'
    if c == 'sign' and not g.on('sign'):
        c = 'abs'
    if c == 'exp' and not g.on('exp'):
        c = 'sqrt'
    if c == 'mixed' and not g.on('int-real-mixed'):
        c = '+'
    d = depth - 1
    if c in ('+', '-', '*'):
        return ['b', c, real_expr(g, env, d), default_lit(g) if g.chance(12) else real_expr(g, env, d)]
    if c == 'paren':
        # grouping is significant for rounding: a - (b - c), a * (b + c), a + (b + c), a / (b * c)
        op = g.pick(['-', '*', '+', '/'])
        if op == '/':
            return ['b', '/', real_expr(g, env, d), ['p', ['b', '*', real_divisor(g, env, 0), real_divisor(g, env, d)]]]
        return ['b', op, real_expr(g, env, d), ['p', ['b', g.pick(['-', '+']), real_expr(g, env, d), real_leaf(g, env)]]]
    if c == 'mixed':
        return ['b', g.pick(['+', '*', '-']), real_expr(g, env, d), int_leaf(g, env)]
    if c == '/':
        return ['b', '/', real_expr(g, env, d), real_divisor(g, env, d)]
    if c == 'neg':
        return ['u', '-', real_expr(g, env, d)]
    if c == 'pow':
        k = g.i(0, 3)
        if k == 3 and not g.on('realpow'):
            k = 2
        return ['b', '**', real_leaf(g, env), ['i', k]]
    if c == 'abs':
        return ['f', 'abs', [real_expr(g, env, d)]]
    if c == 'sign':
        return ['f', 'sign', [real_expr(g, env, d), real_expr(g, env, d)]]
    if c == 'sqrt':
        e = real_expr(g, env, d)
        return ['f', 'sqrt', [['f', 'abs', [e]] if g.chance(60) else ['b', '+', ['b', '*', e, e], ['r', '0.25', 'k']]]]
    if c == 'mod':
        return ['f', 'mod', [real_expr(g, env, d), ['r', g.pick(['0.75', '2.0', '0.5', '1.5', '0.3']), 'k']
                             if g.chance(75) else ['u', '-', ['r', g.pick(['0.75', '1.5']), 'k']]]]
    if c == 'exp':
        return ['f', 'exp', [['u', '-', ['f', 'abs', [real_expr(g, env, d)]]]]]
    args = [real_expr(g, env, d), real_expr(g, env, d)]
    if g.chance(12) and g.on('minmax3'):
        args.append(real_leaf(g, env))
    return ['f', c, args]


def log_leaf(g, env):
    opts = ['cmp', 'cmp', 'lit']
    sc = env.scalars('logical')
    if sc:
        opts += ['var'] * 3
    arrs = env.arrays('logical')
    if arrs:
        opts += ['elem'] * 2
    c = g.pick(opts)
    if c == 'var':
        return var(g.pick(sc))
    if c == 'elem':
        return element(g, env, g.pick(arrs), 0)
    if c == 'lit':
        return ['l', g.chance(50)]
    return ['b', g.pick(['==', '/=', '<', '<=', '>', '>=']), int_leaf(g, env), int_leaf(g, env)]


def log_expr(g, env, depth):
    if depth <= 0 or g.chance(20):
        return log_leaf(g, env)
    c = g.pick(['cmpi', 'cmpi', 'cmpr', 'cmpr', 'and', 'or', 'not', 'eqv', 'paren'])
    d = depth - 1
    if c == 'cmpi':
        return ['b', g.pick(['==', '/=', '<', '<=', '>', '>=']), int_expr(g, env, d), int_expr(g, env, d)]
    if c == 'cmpr':
        return ['b', g.pick(['<', '<=', '>', '>=']), real_expr(g, env, d), real_expr(g, env, d)]
    if c in ('and', 'or'):
        return ['b', '.' + c + '.', log_expr(g, env, d), log_expr(g, env, d)]
    if c == 'paren':
        return ['b', g.pick(['.and.', '.or.']), log_expr(g, env, d), ['p', ['b', g.pick(['.or.', '.and.']), log_expr(g, env, d), log_leaf(g, env)]]]
    if c == 'eqv':
        return ['b', g.pick(['.eqv.', '.neqv.']), log_expr(g, env, d), log_expr(g, env, d)]
    return ['u', '.not.', log_expr(g, env, d)]


def expr_of(g, env, typ, depth):
    return {'int': int_expr, 'real': real_expr, 'logical': log_expr}[typ](g, env, depth)


# ------------------------------------------------------------------ statements
def pylen(e):
    """generous estimate of the length of the Python text of an expression (.eqv./.neqv. are expanded to
    and/or/not forms that repeat both operands)"""
    k = e[0]
    if k == 'i':
        return len(str(e[1]))
    if k == 'r':
        return len(e[1]) + 1
    if k == 'l':
        return 5
    if k == 'v':
        return len(e[1])
    if k in ('e', 'sec'):
        return len(e[1]) + 2 + sum((1 if x is None else pylen(x) + 4) + 2 for x in e[2])
    if k == 'p':
        return pylen(e[1]) + 2
    if k == 'u':
        return pylen(e[2]) + 6
    if k == 'cast':
        return pylen(e[1]) + 14
    if k == 'f':
        return len(e[1]) + 5 + sum(pylen(a) + 2 for a in e[2])
    if k == 'b':
        if e[1] in ('.eqv.', '.neqv.'):
            return 2 * (pylen(e[2]) + pylen(e[3])) + 30
        return pylen(e[2]) + pylen(e[3]) + 8
    if k == 'rng':
        return pylen(e[1]) + pylen(e[2]) + 1
    raise ValueError(e)


PY_EXPR_CAP = 180      # generator: longest estimated Python text of one expression unless 'long-line' is on
PY_LINE_TAG = 230      # features_of: estimated Python statement length from which the case is tagged 'long-line'


def gen_assign(g, env):
    targets = []
    for t in ('int', 'real', 'logical'):
        targets += [(n, t, 's') for n in env.scalars(t, writable=True)]
        targets += [(n, t, 'e') for n in env.arrays(t, writable=True)] * 2
    n, t, k = g.pick(targets)
    d = g.p['expr_depth']
    if t == 'int' and k == 's' and g.chance(10) and g.on('int-from-real'):
        # implicit conversion of a bounded real value (inputs are bounded, intent(in) objects never change)
        src = [x for x in env.scalars('real') + env.arrays('real') if env.vars[x].get('ro')]
        if src:
            s = g.pick(src)
            leaf = var(s) if not env.vars[s]['dims'] else element(g, env, s, 0)
            return ['assign', var(n), ['b', '*', leaf, ['r', g.pick(DYADIC + GENERAL), 'k']]]
    rhs = expr_of(g, env, t, d)
    if t == 'real' and g.chance(8):
        rhs = int_expr(g, env, d)        # real <- integer expression
    if pylen(rhs) > PY_EXPR_CAP and not g.on('long-line'):
        rhs = expr_of(g, env, t, 1)
        if pylen(rhs) > PY_EXPR_CAP:
            rhs = expr_of(g, env, t, 0)
    if k == 's':
        return ['assign', var(n), rhs]
    return ['assign', element(g, env, n, 1), rhs]


def free_loopvar(env):
    for lv in env.loopvars:
        if lv not in env.active:
            return lv
    return None


def gen_do(g, env, depth, nstmts):
    lv = free_loopvar(env)
    if lv is None:
        return None
    env.after.discard(lv)
    lo = g.pick([1, 1, 1, 0, 2, -1, 3])
    step = 1
    if g.chance(30):
        step = g.pick([2, 3])
    trip = g.i(1, 4)
    if g.chance(10) and g.on('zero-trip'):
        trip = 0
    neg = g.chance(25)
    if trip == 0 and step > 1 and not g.on('step-unaligned'):
        step = 1        # (a zero-trip range is never a multiple of a step > 1)
    if trip == 0:
        hi, vals = lo - 1, []
    else:
        slack = g.i(0, step - 1) if step > 1 else 0
        if slack and not g.on('step-unaligned'):
            slack = 0
        hi = lo + (trip - 1) * step + slack
        vals = list(range(lo, hi + 1, step))
    use_n = not neg and step == 1 and lo in (0, 1, 2) and g.chance(45)
    if use_n:
        lo_e, hi_e, st_e = lit(lo), var('n'), None
        env.active[lv] = (lo, 'n')
    elif neg:
        # descending: start at the top of the ascending range; unaligned when slack > 0
        top = hi if vals else lo - 1
        lo_e, hi_e, st_e = lit(top), lit(lo), ['u', '-', ['i', step]]
        dvals = list(range(top, lo - 1, -step))
        env.active[lv] = (min(dvals), max(dvals)) if dvals else (lo, lo)
        if not dvals:
            lo_e, hi_e = lit(lo - 1), lit(lo)
    else:
        lo_e, hi_e, st_e = lit(lo), lit(hi), (lit(step) if step != 1 or g.chance(10) else None)
        env.active[lv] = (min(vals), max(vals)) if vals else (lo, lo)
    body = gen_body(g, env, depth + 1, max(1, nstmts - 1))
    del env.active[lv]
    env.after.add(lv)
    return ['do', lv, lo_e, hi_e, st_e, body]


def gen_if(g, env, depth, nstmts):
    branches = []
    for _ in range(g.i(1, 3)):
        cond = log_expr(g, env, 2)
        if pylen(cond) > PY_EXPR_CAP and not g.on('long-line'):
            cond = log_expr(g, env, 1)
            if pylen(cond) > PY_EXPR_CAP:
                cond = log_expr(g, env, 0)
        branches.append([cond, gen_body(g, env, depth + 1, max(1, nstmts // 2))])
    els = gen_body(g, env, depth + 1, max(1, nstmts // 2)) if g.chance(50) else None
    return ['if', branches, els]


def gen_while(g, env, depth, nstmts):
    if env.fuel is None or env.fuel_busy or not g.on('while'):
        return None
    w = env.fuel
    env.fuel_busy = True
    body = gen_body(g, env, depth + 1, max(1, nstmts - 1))
    env.fuel_busy = False
    body.append(['assign', var(w), ['b', '-', var(w), ['i', g.i(1, 2)]]])
    cond = ['b', '>', var(w), ['i', 0]]
    if g.chance(50):
        cond = ['b', '.and.', cond, log_expr(g, env, 1)]
    return [['assign', var(w), ['i', g.i(1, 4)]], ['while', cond, body]]


def gen_select(g, env, depth, nstmts):
    if not g.on('select'):
        return None
    if g.chance(70) and 'mod' not in g.off:
        sel = ['f', 'mod', [int_expr(g, env, 2, strict=2), ['i', 5]]]     # in -4..4
    else:
        sel = int_expr(g, env, 1, strict=2)
    used = set()
    cases = []
    for _ in range(g.i(1, 3)):
        items = []
        for _ in range(g.i(1, 2)):
            if g.chance(30):
                lo = g.i(0, 6)
                hi = lo + g.i(1, 2)
                if any(x in used for x in range(lo, hi + 1)):
                    continue
                used.update(range(lo, hi + 1))
                items.append(['rng', lit(lo), lit(hi)])
            else:
                v = g.i(-4, 8)
                if v in used:
                    continue
                used.add(v)
                items.append(lit(v))
        if items:
            cases.append([items, gen_body(g, env, depth + 1, max(1, nstmts // 2))])
    if not cases:
        cases.append([[lit(min(set(range(-5, 12)) - used))], gen_body(g, env, depth + 1, 1)])
    default = gen_body(g, env, depth + 1, 1) if g.chance(60) else None
    return ['select', sel, cases, default]


def gen_section(g, env):
    """a(:, k) = <expr of conformable full-range sections of arrays with the same extent>"""
    if not g.on('section'):
        return None
    arrs = [a for a in env.arrays(writable=True) if env.vars[a]['type'] != 'logical']
    if not arrs:
        return None
    a = g.pick(arrs)
    t = env.vars[a]['type']
    dims = env.vars[a]['dims']
    k = g.i(0, len(dims) - 1)         # the sectioned dimension

    def sec(name, kk):
        subs = []
        for j, (lb, ub) in enumerate(env.vars[name]['dims']):
            if j == kk:
                subs.append(None)
            else:
                subs.append(lit(g.i(lb, NMIN if ub == 'n' else ub)))
        return ['sec', name, subs]

    ext = tuple(dims[k])
    same = [(b, j) for b in env.arrays(t) for j, dd in enumerate(env.vars[b]['dims']) if tuple(dd) == ext and b != a]
    # the right-hand side never reads the target array: the element-wise loop the section is resolved to
    # must not observe its own stores (array assignment evaluates the whole right-hand side first)
    env2 = Env()
    env2.vars = {k_: v for k_, v in env.vars.items() if k_ != a}
    env2.active, env2.after = env.active, env.after
    terms = []
    for _ in range(g.i(0, 2)):
        if same and g.chance(70):
            b, j = g.pick(same)
            terms.append(sec(b, j))
        else:
            terms.append(expr_of(g, env2, t, 1))
    rhs = expr_of(g, env2, t, 1)
    for tm in terms:
        op = g.pick(['+', '-', '*'])
        rhs = int_product(g, rhs, tm) if op == '*' and t == 'int' else ['b', op, rhs, tm]
    return ['assign', sec(a, k), rhs]


def gen_bound_assigned(g, env, depth):
    """do i = 1, kb ... kb = kb -+ 1 ... : Fortran fixes the trip count at loop entry"""
    lv = free_loopvar(env)
    tgt = [a for a in env.arrays('int', writable=True) if len(env.vars[a]['dims']) == 1 and env.vars[a]['dims'][0][0] <= 1
           and (env.vars[a]['dims'][0][1] == 'n' or env.vars[a]['dims'][0][1] >= 3)]
    if lv is None or not tgt or 'lkb' not in env.vars:
        return None
    env.after.discard(lv)
    a = g.pick(tgt)
    body = [['assign', var('lkb'), ['b', '-', var('lkb'), ['i', 1]]],
            ['assign', ['e', a, [var(lv)]], ['b', '+', ['e', a, [var(lv)]], ['b', '*', var(lv), ['i', 10]]]]]
    if g.chance(50):
        body.reverse()
    env.after.add(lv)
    return [['assign', var('lkb'), ['i', g.i(2, 3)]], ['do', lv, ['i', 1], var('lkb'), None, body]]


def gen_stmt(g, env, depth, nstmts):
    kinds = ['assign'] * 6
    if depth < g.p['max_depth']:
        kinds += ['do'] * 4 + ['if'] * 3 + ['select', 'while', 'bound']
    kinds += ['section']
    c = g.pick(kinds)
    r = None
    if c == 'do':
        r = gen_do(g, env, depth, nstmts)
    elif c == 'if':
        r = gen_if(g, env, depth, nstmts)
    elif c == 'select':
        r = gen_select(g, env, depth, nstmts)
    elif c == 'while':
        r = gen_while(g, env, depth, nstmts)
        if r is not None:
            return r
    elif c == 'section':
        r = gen_section(g, env)
    elif c == 'bound':
        if g.on('bound-assigned'):
            r = gen_bound_assigned(g, env, depth)
            if r is not None:
                return r
    if r is None:
        r = gen_assign(g, env)
    return [r]


def gen_body(g, env, depth, nstmts):
    out = []
    for _ in range(g.i(1, max(1, nstmts))):
        out += gen_stmt(g, env, depth, nstmts)
    return out


# ------------------------------------------------------------------ kernel
def init_value(g, t):
    if t == 'int':
        return lit(g.i(-5, 9))
    if t == 'real':
        v = ['r', g.pick(DYADIC), 'k']
        return v if g.chance(75) else ['u', '-', v]
    return ['l', g.chance(50)]


def fill_array(g, name, dims, t, loopvars):
    """loop nest assigning every element (prologue of intent(out) and local arrays)"""
    lvs = loopvars[:len(dims)]
    if t == 'int':
        rhs = ['b', '-', ['b', '*', var(lvs[0]), ['i', g.i(1, 3)]], ['i', g.i(0, 5)]]
    elif t == 'real':
        rhs = ['b', '-', ['b', '*', ['r', g.pick(DYADIC), 'k'], var(lvs[0])], ['r', g.pick(DYADIC), 'k']]
    else:
        rhs = ['b', g.pick(['<', '>=', '/=']), var(lvs[0]), lit(g.i(0, 3))]
    if len(dims) > 1 and t != 'logical':
        rhs = ['b', '+', rhs, var(lvs[1])]
    stmt = ['assign', ['e', name, [var(lv) for lv in lvs]], rhs]
    for lv, (lb, ub) in reversed(list(zip(lvs, dims))):
        stmt = ['do', lv, lit(lb), var('n') if ub == 'n' else lit(ub), None, [stmt]]
    return stmt


def gen_dims(g, rank, want_n=True):
    dims = []
    for k in range(rank):
        lb = g.pick([1, 1, 1, 0, -1, 2])
        if lb != 1 and not g.on('lbound'):
            lb = 1
        if (k == 0 and want_n) or g.chance(25):
            dims.append([lb, 'n'])
        else:
            dims.append([lb, lb + g.i(1, 2 if rank > 1 else 4)])
    return dims


def decl(name, type_, dims=None, intent=None):
    return {'name': name, 'type': type_, 'dims': dims, 'intent': intent, 'param': None,
            'optional': False, 'alloc': False, 'save': False, 'init': None}


@st.composite
def cases(draw, prof, salt0=0):
    g = G(draw, prof, salt0)
    env = Env()
    args, decls, prologue = [], [], []

    def add_arg(nm, t, dims, intent):
        d = decl(nm, t, dims, intent)
        args.append(d)
        env.vars[nm] = {'type': t, 'dims': dims, 'ro': intent == 'in'}
        return d

    add_arg('n', 'int', None, 'in')
    loopvars = ['j1', 'j2', 'j3']
    have_logical = g.chance(60) and g.on('logical-arg')
    for t, tag in (('int', 'i'), ('real', 'r')):
        for k in range(g.i(1, 2)):
            add_arg(f'x{tag}{k}', t, None, 'in')
        for k in range(g.i(1, 2)):
            intent = g.pick(['inout', 'inout', 'out'])
            add_arg(f'y{tag}{k}', t, None, intent)
            if intent == 'out':
                prologue.append(['assign', var(f'y{tag}{k}'), init_value(g, t)])
    if have_logical:
        if g.chance(60):
            add_arg('xb0', 'logical', None, 'in')
        intent = g.pick(['inout', 'out'])
        add_arg('yb0', 'logical', None, intent)
        if intent == 'out':
            prologue.append(['assign', var('yb0'), init_value(g, 'logical')])
    narr = g.i(2, 4)
    for k in range(narr):
        t = g.pick(['int', 'real', 'real', 'logical'] if have_logical else ['int', 'real', 'real'])
        rank = g.pick([1, 1, 2, 2, 3])
        if rank == 3 and not g.on('rank3'):
            rank = 2
        dims = gen_dims(g, rank)
        intent = 'in' if k == 0 else g.pick(['inout', 'inout', 'out'])
        nm = f'z{ {"int": "i", "real": "r", "logical": "b"}[t] }{k}'
        add_arg(nm, t, dims, intent)
        if intent == 'out':
            prologue.append(fill_array(g, nm, dims, t, loopvars))
    # locals
    for t, tag, (lo, hi) in (('int', 'i', (1, 3)), ('real', 'r', (1, 2)), ('logical', 'b', (0, 1))):
        for k in range(g.i(lo, hi)):
            nm = f'l{tag}{k}'
            decls.append(decl(nm, t))
            env.vars[nm] = {'type': t, 'dims': None}
            prologue.append(['assign', var(nm), init_value(g, t)])
    for k in range(g.i(0, 2)):
        t = g.pick(['real', 'real', 'int', 'logical'])
        if t != 'real' and not g.on('local-int-array'):
            t = 'real'
        dims = gen_dims(g, g.pick([1, 1, 2]))
        nm = f'w{ {"int": "i", "real": "r", "logical": "b"}[t] }{k}'
        decls.append(decl(nm, t, dims))
        env.vars[nm] = {'type': t, 'dims': dims}
        prologue.append(fill_array(g, nm, dims, t, loopvars))
    if 'indirect' not in g.off:
        decls.append(decl('lidx', 'int', [[1, 'n']]))
        env.vars['lidx'] = {'type': 'int', 'dims': [[1, 'n']], 'ro': True}
        prologue.append(['do', 'j1', ['i', 1], var('n'), None,
                         [['assign', ['e', 'lidx', [var('j1')]], ['b', '-', ['b', '+', var('n'), ['i', 1]], var('j1')]]]])
    for lv in loopvars:
        decls.append(decl(lv, 'int'))
    env.loopvars = list(loopvars)
    decls.append(decl('lw', 'int'))
    env.fuel = 'lw'
    prologue.append(['assign', var('lw'), ['i', 0]])
    decls.append(decl('lkb', 'int'))
    env.vars['lkb'] = {'type': 'int', 'dims': None, 'ro': True}
    prologue.append(['assign', var('lkb'), ['i', 2]])
    for lv in loopvars:
        prologue.append(['assign', var(lv), ['i', 0]])     # a DO variable read after a skipped loop is defined
    body = prologue + gen_body(g, env, 0, prof['max_stmts'])
    dimsof = {d['name']: d['dims'] for d in args + decls}
    if 'section-loop-range' in g.off:
        n_fixed = desection_colliding(body, dimsof)
        if n_fixed:
            g.skipped['section-loop-range'] = n_fixed
    kind = g.pick(['real64', 'real64', 'c_double'])
    kern = {'name': 'kernel', 'args': [d['name'] for d in args], 'decls': args + decls, 'body': body,
            'kind': kind, 'kindform': g.pick(['kind=', ''])}
    inputs = gen_inputs(g, args)
    return {'kernel': kern, 'entry': {'module': None, 'name': 'kernel', 'args': args}, 'inputs': inputs,
            'skipped': dict(sorted(g.skipped.items())), 'target': prof['target'],
            'use_c_ptr': g.chance(30)}


def bound_key(e):
    c = const_of(e)
    return c if c is not None else (e[1] if e[0] == 'v' else None)


def loop_ranges(body):
    """(lo, hi) of every DO loop without explicit step"""
    return {(bound_key(s[2]), bound_key(s[3])) for s in walk_stmts(body) if s[0] == 'do' and s[4] is None}


def section_ranges(stmt, dimsof):
    out = set()
    for top in stmt_exprs(stmt):
        for e, _ in walk_exprs(top):
            if e[0] == 'sec':
                for sub, (lb, ub) in zip(e[2], dimsof[e[1]]):
                    if sub is None:
                        out.add((lb, ub))
    return out


def desection_colliding(body, dimsof):
    """turn section assignments whose range is the range of a DO loop into element assignments (in place)"""
    ranges = loop_ranges(body)

    def fix(e):
        if isinstance(e, list):
            if e and e[0] == 'sec':
                e[0] = 'e'
                e[2] = [lit(dimsof[e[1]][k][0]) if sub is None else sub for k, sub in enumerate(e[2])]
            else:
                for x in e:
                    fix(x)
    n = 0
    for s in walk_stmts(body):
        if s[0] == 'assign' and section_ranges(s, dimsof) & ranges:
            fix(s[1])
            fix(s[2])
            n += 1
    return n


def gen_inputs(g, args, nvec=3):
    vecs = []
    for iv in range(nvec):
        n = g.i(NMIN, NMAX)
        vec = {'n': n}
        for d in args[1:]:
            if d['intent'] == 'out':
                continue
            t = d['type']

            def val():
                if t == 'int':
                    return g.i(-9, 9)
                if t == 'real':
                    return g.i(-24, 24) / 8.0
                return g.chance(50)
            if d['dims']:
                cnt = 1
                for lb, ub in d['dims']:
                    cnt *= ((n if ub == 'n' else ub) - lb + 1)
                vec[d['name']] = [val() for _ in range(cnt)]
            else:
                vec[d['name']] = val()
        vecs.append(vec)
    return vecs


# ------------------------------------------------------------------ rendering
PREC = {'**': 10, '*': 9, '/': 9, '+': 7, '-': 7, '==': 5, '/=': 5, '<': 5, '<=': 5, '>': 5, '>=': 5,
        '.and.': 3, '.or.': 2, '.eqv.': 1, '.neqv.': 1}


def rexpr(e, kind):
    """-> (text, precedence, leading_unary)"""
    k = e[0]
    if k == 'i':
        return str(e[1]), 99, False
    if k == 'r':
        txt, sfx = e[1], e[2]
        if sfx == 'k':
            return f'{txt}_{kind}', 99, False
        if sfx == 'd':
            return f'{txt}d0', 99, False
        return txt, 99, False
    if k == 'l':
        return ('.true.' if e[1] else '.false.'), 99, False
    if k == 'v':
        return e[1], 99, False
    if k in ('e', 'sec'):
        subs = [':' if s is None else rexpr(s, kind)[0] for s in e[2]]
        return f"{e[1]}({', '.join(subs)})", 99, False
    if k == 'rng':
        return f'{rexpr(e[1], kind)[0]}:{rexpr(e[2], kind)[0]}', 0, False
    if k == 'p':
        return f'({rexpr(e[1], kind)[0]})', 99, False
    if k == 'f':
        return f"{e[1]}({', '.join(rexpr(a, kind)[0] for a in e[2])})", 99, False
    if k == 'cast':
        return f'real({rexpr(e[1], kind)[0]}, kind={kind})', 99, False
    if k == 'u':
        t, p, un = rexpr(e[2], kind)
        if e[1] == '-':
            if p < 9 or un:
                t = f'({t})'
            return '-' + t, 7, True
        if p <= 4:
            t = f'({t})'
        return '.not. ' + t, 4, False
    if k == 'b':
        op = e[1]
        P = PREC[op]
        lt, lp, lu = rexpr(e[2], kind)
        rt, rp, ru = rexpr(e[3], kind)
        need_l = lp < P or (lp == P and (op == '**' or P == 5)) or (lu and P > 7)
        need_r = rp < P or (rp == P and op != '**') or (ru and P >= 7)
        if P == 1 and lp == 1:
            need_l = False
        if need_l:
            lt = f'({lt})'
        if need_r:
            rt = f'({rt})'
        sp = '' if op in ('*', '/', '**') else ' '
        return f'{lt}{sp}{op}{sp}{rt}', P, False
    raise ValueError(f'unknown expression {e!r}')


TYPE_TEXT = {'int': 'integer', 'logical': 'logical'}


def render_stmts(stmts, kind, ind, out):
    pad = '  ' * ind
    for s in stmts:
        k = s[0]
        if k == 'assign':
            out.append(f'{pad}{rexpr(s[1], kind)[0]} = {rexpr(s[2], kind)[0]}')
        elif k == 'do':
            ctl = f'{rexpr(s[2], kind)[0]}, {rexpr(s[3], kind)[0]}'
            if s[4] is not None:
                ctl += f', {rexpr(s[4], kind)[0]}'
            out.append(f'{pad}do {s[1]} = {ctl}')
            render_stmts(s[5], kind, ind + 1, out)
            out.append(f'{pad}end do')
        elif k == 'while':
            out.append(f'{pad}do while ({rexpr(s[1], kind)[0]})')
            render_stmts(s[2], kind, ind + 1, out)
            out.append(f'{pad}end do')
        elif k == 'if':
            for j, (cond, body) in enumerate(s[1]):
                out.append(f"{pad}{'if' if j == 0 else 'else if'} ({rexpr(cond, kind)[0]}) then")
                render_stmts(body, kind, ind + 1, out)
            if s[2] is not None:
                out.append(f'{pad}else')
                render_stmts(s[2], kind, ind + 1, out)
            out.append(f'{pad}end if')
        elif k == 'select':
            out.append(f'{pad}select case ({rexpr(s[1], kind)[0]})')
            for items, body in s[2]:
                out.append(f"{pad}case ({', '.join(rexpr(it, kind)[0] for it in items)})")
                render_stmts(body, kind, ind + 1, out)
            if s[3] is not None:
                out.append(f'{pad}case default')
                render_stmts(s[3], kind, ind + 1, out)
            out.append(f'{pad}end select')
        else:
            raise ValueError(f'unknown statement {s!r}')


def render(case):
    """Fortran source text of the kernel"""
    kern = case['kernel']
    kind = kern['kind']
    out = [f"subroutine kernel({', '.join(kern['args'])})"]
    out.append('  use iso_fortran_env, only: real64' if kind == 'real64' else '  use iso_c_binding, only: c_double')
    out.append('  implicit none')
    for d in kern['decls']:
        tt = TYPE_TEXT.get(d['type']) or f"real({kern['kindform']}{kind})"
        attr = f", intent({d['intent']})" if d['intent'] else ''
        dims = ''
        if d['dims']:
            dims = '(' + ', '.join((str(ub) if lb == 1 else f'{lb}:{ub}') for lb, ub in d['dims']) + ')'
        out.append(f"  {tt}{attr} :: {d['name']}{dims}")
    out.append('')
    render_stmts(kern['body'], kind, 1, out)
    out.append('end subroutine kernel')
    return '\n'.join(out) + '\n'


# ------------------------------------------------------------------ static analysis of a case
def walk_exprs(e, parents=()):
    """yield (expr, tuple of ancestor exprs) for every sub-expression"""
    if not isinstance(e, list) or not e:
        return
    yield e, parents
    k = e[0]
    p2 = parents + (e,)
    if k in ('e', 'sec'):
        for s in e[2]:
            if s is not None:
                yield from walk_exprs(s, p2)
    elif k in ('u',):
        yield from walk_exprs(e[2], p2)
    elif k == 'b':
        yield from walk_exprs(e[2], p2)
        yield from walk_exprs(e[3], p2)
    elif k in ('p', 'cast'):
        yield from walk_exprs(e[1], p2)
    elif k == 'f':
        for a in e[2]:
            yield from walk_exprs(a, p2)
    elif k == 'rng':
        yield from walk_exprs(e[1], p2)
        yield from walk_exprs(e[2], p2)


def walk_stmts(body):
    for s in body:
        yield s
        k = s[0]
        if k == 'do':
            yield from walk_stmts(s[5])
        elif k == 'while':
            yield from walk_stmts(s[2])
        elif k == 'if':
            for _, b in s[1]:
                yield from walk_stmts(b)
            if s[2] is not None:
                yield from walk_stmts(s[2])
        elif k == 'select':
            for _, b in s[2]:
                yield from walk_stmts(b)
            if s[3] is not None:
                yield from walk_stmts(s[3])


def stmt_exprs(s):
    k = s[0]
    if k == 'assign':
        return [s[1], s[2]]
    if k == 'do':
        return [x for x in (s[2], s[3], s[4]) if x is not None]
    if k == 'while':
        return [s[1]]
    if k == 'if':
        return [c for c, _ in s[1]]
    if k == 'select':
        return [s[1]] + [it for items, _ in s[2] for it in items]
    return []


def type_of(e, vt):
    """'int' | 'real' | 'logical' of an expression; vt: name -> type"""
    k = e[0]
    if k == 'i':
        return 'int'
    if k == 'r' or k == 'cast':
        return 'real'
    if k == 'l':
        return 'logical'
    if k in ('v', 'e', 'sec'):
        return vt[e[1]]
    if k == 'p':
        return type_of(e[1], vt)
    if k == 'u':
        return 'logical' if e[1] == '.not.' else type_of(e[2], vt)
    if k == 'b':
        if e[1] in ('+', '-', '*', '/', '**'):
            a, b = type_of(e[2], vt), type_of(e[3], vt)
            return 'real' if 'real' in (a, b) else 'int'
        return 'logical'
    if k == 'f':
        ts = [type_of(a, vt) for a in e[2]]
        return 'real' if 'real' in ts or e[1] in ('sqrt', 'exp') else 'int'
    if k == 'rng':
        return 'int'
    raise ValueError(e)


def assigned_names(body):
    return {s[1][1] for s in walk_stmts(body) if s[0] == 'assign'}


def features_of(case):
    """set of FEATURES names (plus structural classes) present in the program of a case"""
    kern = case['kernel']
    vt = {d['name']: d['type'] for d in kern['decls']}
    dims = {d['name']: d['dims'] for d in kern['decls']}
    intent = {d['name']: d['intent'] for d in kern['decls']}
    feats = set()
    for d in kern['decls']:
        if d['dims']:
            if any(lb != 1 for lb, _ in d['dims']):
                feats.add('lbound')
            if len(d['dims']) == 3:
                feats.add('rank3')
            if not d['intent'] and d['type'] != 'real':
                feats.add('local-int-array')
            if not d['intent']:
                feats.add('local-array')
        if d['type'] == 'logical' and d['intent']:
            feats.add('logical-arg')
    loopvars = set()
    for s in walk_stmts(kern['body']):
        if s[0] == 'do':
            loopvars.add(s[1])
    # loop variable read outside its loop (approximation: read at a point where the loop is not active)

    def scan(body, active, done):
        for s in body:
            for top in stmt_exprs(s):
                for e, par in walk_exprs(top):
                    if e[0] == 'v' and e[1] in loopvars and e[1] not in active:
                        if not (s[0] == 'assign' and e is s[1]) and not (s[0] == 'do' and False):
                            feats.add('loopvar-after')
            k = s[0]
            if k == 'do':
                done.discard(s[1])
                scan(s[5], active | {s[1]}, done)
                done.add(s[1])
                feats.add('do')
                if s[4] is not None:
                    stp = s[4]
                    neg = stp[0] == 'u'
                    sv = stp[2][1] if neg else stp[1]
                    if neg:
                        feats.add('do-negstep')
                    if sv > 1:
                        feats.add('do-step')
                    lo, hi = const_of(s[2]), const_of(s[3])
                    if lo is not None and hi is not None:
                        span = (lo - hi) if neg else (hi - lo)
                        if span < 0:
                            feats.add('zero-trip')
                        if sv > 1 and (span < 0 or span % sv):
                            feats.add('step-unaligned')
                else:
                    lo, hi = const_of(s[2]), const_of(s[3])
                    if lo is not None and hi is not None and hi < lo:
                        feats.add('zero-trip')
                if s[3][0] == 'v' and s[3][1] != 'n' and s[3][1] in assigned_names(s[5]):
                    feats.add('bound-assigned')
            elif k == 'while':
                feats.add('while')
                scan(s[2], active, done)
            elif k == 'if':
                feats.add('if')
                for _, b in s[1]:
                    scan(b, active, done)
                if s[2] is not None:
                    scan(s[2], active, done)
            elif k == 'select':
                feats.add('select')
                for _, b in s[2]:
                    scan(b, active, done)
                if s[3] is not None:
                    scan(s[3], active, done)
    scan(kern['body'], frozenset(), set())
    ranges = loop_ranges(kern['body'])
    for s in walk_stmts(kern['body']):
        if s[0] == 'assign' and section_ranges(s, dims) & ranges:
            feats.add('section-loop-range')
    for s in walk_stmts(kern['body']):
        tops = stmt_exprs(s)
        est = (sum(pylen(t) for t in tops[:2]) + 3) if s[0] == 'assign' else max([pylen(t) for t in tops] + [0]) + 6
        if est + 10 > PY_LINE_TAG:
            feats.add('long-line')
    for s in walk_stmts(kern['body']):
        if s[0] == 'assign':
            lt = type_of(s[1], vt)
            rt = type_of(s[2], vt)
            if lt == 'int' and rt == 'real':
                feats.add('int-from-real')
            if s[1][0] == 'sec':
                feats.add('section')
        for top in stmt_exprs(s):
            for e, par in walk_exprs(top):
                k = e[0]
                if k == 'r':
                    if e[2] == 'd':
                        feats.add('dlit')
                    if e[2] == '' and e[1] not in DYADIC:
                        feats.add('deflit')
                if k == 'e' and any(a[0] in ('e', 'sec') for a in par):
                    feats.add('indirect')
                if k == 'e':
                    dd = dims.get(e[1]) or []
                    if len(dd) >= 2:
                        feats.add('elem-rank>=2')
                    if any(lb != 1 for lb, _ in dd):
                        feats.add('elem-lbound/=1')
                if k == 'b' and e[1] == '/' and type_of(e, vt) == 'int':
                    feats.add('intdiv')
                if k == 'b' and e[1] in ('*', '/') and is_int_mod(e[3]) and type_of(e[3], vt) == 'int':
                    feats.add('intmod-factor')
                if k == 'b' and e[1] in ('+', '-', '*', '/') and type_of(e, vt) == 'real' and \
                        'int' in (type_of(e[2], vt), type_of(e[3], vt)):
                    feats.add('int-real-mixed')
                if k == 'b' and e[1] == '**' and type_of(e, vt) == 'real' and e[3][0] == 'i' and e[3][1] > 2:
                    feats.add('realpow')
                if k == 'f':
                    if e[1] == 'mod':
                        feats.add('mod')
                        if any(a[0] in ('e', 'sec') for a in par):
                            feats.add('mod-subscript')
                        feats.add('mod:' + type_of(e, vt))
                    if e[1] in ('sign', 'exp', 'sqrt', 'abs', 'min', 'max'):
                        feats.add(e[1] if e[1] in FEATURES else 'intr:' + e[1])
                    if e[1] in ('min', 'max') and len(e[2]) > 2:
                        feats.add('minmax3')
                if k == 'b' and e[1] == '**' and type_of(e, vt) == 'int':
                    feats.add('intpow')
                isfn = (k == 'f' and e[1] in ('min', 'max', 'abs', 'sign')) or (k == 'b' and e[1] == '**')
                if isfn and type_of(e, vt) == 'int':
                    tag = 'intpow-div' if k == 'b' else 'intfn-div'
                    if s[0] == 'select' and top is s[1]:
                        feats.add(tag)
                    if k == 'b' and any(a[0] == 'f' and a[1] == 'mod' and type_of(a, vt) == 'int' for a in par):
                        feats.add(tag)
                    for a in par:
                        if (a[0] == 'b' and a[1] == '/' and type_of(a, vt) == 'int') or (a[0] in ('e', 'sec')):
                            feats.add(tag)
    return feats


def const_of(e):
    if e[0] == 'i':
        return e[1]
    if e[0] == 'u' and e[1] == '-' and e[2][0] == 'i':
        return -e[2][1]
    return None
