"""
Profile generator "long lines" (C04): programs of gen.cases whose statements the Fortran backend has to wrap.

On top of a generated case (typed, UB-free by construction, see gen.py)
  * identifiers are renamed to long names (<= 63 characters; DO variables stay short because the renderer derives
    construct names from them), consistently in files, entry description and input vectors;
  * statements are inserted into the entry routine ``kernel`` (any nesting depth, never before the prologue that
    defines all variables): long PRINT lines / one-line IFs whose literals contain both quote characters
    (gen.gen_longline), calls of a generated subroutine with 20-40 arguments, MAX/MIN references with 15-30
    arguments, products of long-named scalars (no blank inside), long full-line comments, statements with a long
    trailing comment, long ``!$loki`` / ``!$acc`` pragmas;
  * the kernel gets a long PARAMETER array declaration with an array constructor.
The inserted statements only read ``n`` and literals and only write the first integer output argument (through
bounded expressions), so the program stays free of undefined behaviour.
"""
from hypothesis import strategies as st

from . import gen
from .model import var, decl, routine

FILL = 'abcdefghijklmnopqrstuvwxyz_0123456789'
SKIP_TAGS = ('s', 'comment', 'pragma', 'raw')
WORDS = ['gang', 'vector', 'private', 'collapse', 'present', 'copyin', 'create', 'async', 'tile', 'independent',
         'reduction', 'firstprivate', 'default', 'wait', 'device_type', 'num_gangs', 'vector_length', 'routine',
         'dimension', 'group', 'section', 'remove', 'region', 'parallel', 'loop', 'seq']


def _rename(obj, m):
    if isinstance(obj, str):
        return m.get(obj, obj)
    if isinstance(obj, list):
        if obj and isinstance(obj[0], str) and obj[0] in SKIP_TAGS and not (obj[0] == 's' and len(obj) == 1):
            return obj
        return [_rename(x, m) for x in obj]
    if isinstance(obj, dict):
        return {m.get(k, k): _rename(v, m) for k, v in obj.items()}
    return obj


def identifiers(case):
    """all generated identifiers that may be renamed -> kind ('loop' for DO variables)"""
    out = {}

    def rt(r):
        out[r['name']] = 'unit'
        for d in r['decls']:
            nm = d['name']
            if nm not in ('n',):
                out.setdefault(nm, 'var')
        for c in r.get('contains') or []:
            rt(c)

    for f in case['files']:
        for kind, u in f['units']:
            if kind == 'module':
                for d in u.get('decls') or []:
                    out[d['name']] = 'var'
                for r in u['routines']:
                    rt(r)
    for k in ('kernel', 'kmod', 'n'):
        out.pop(k, None)
    # DO variables: <prefix>j<k>
    for nm in list(out):
        if len(nm) >= 3 and nm[-2] == 'j' and nm[-1].isdigit():
            out[nm] = 'loop'
    return out


def kernel_of(case):
    for f in case['files']:
        for kind, u in f['units']:
            if kind == 'module':
                for r in u['routines']:
                    if r['name'] == 'kernel':
                        return u, r
    raise ValueError('no kernel')


def prologue_len(body):
    k = 0
    for s in body:
        if s[0] == 'assign' and s[2][0] in ('i', 'r', 'l') or (s[0] == 'assign' and s[2][0] == 'u' and s[2][2][0] in ('i', 'r')):
            k += 1
        else:
            break
    return k


def body_lists(body, lo=0):
    """[(list, minimal insert index)] of all statement lists that accept arbitrary executable statements"""
    out = [(body, lo)]
    for s in body:
        k = s[0]
        if k == 'do':
            out += body_lists(s[5])
        elif k == 'while':
            out += body_lists(s[2])
        elif k == 'if':
            for _, b in s[1]:
                out += body_lists(b)
            if s[2] is not None:
                out += body_lists(s[2])
        elif k == 'select':
            for _, b in s[2]:
                out += body_lists(b)
            if s[3] is not None:
                out += body_lists(s[3])
    return out


def long_name(g, base, maxlen):
    n = g.i(0, max(0, maxlen - len(base) - 1))
    if n == 0:
        return base
    return base + '_' + ''.join(g.pick(FILL) for _ in range(min(n, 6))) * 1 + 'x' * max(0, n - 6)


def sum_chain(terms, op='+'):
    e = terms[0]
    for t in terms[1:]:
        e = ['b', op, e, t]
    return e


def drop_where1(body):
    """one-line WHERE -> WHERE construct (in place); returns the number of rewritten statements"""
    n = 0
    for i, s in enumerate(body):
        k = s[0]
        if k == 'where1':
            body[i] = ['where', [[s[1], [s[2]]]]]
            n += 1
        elif k == 'do':
            n += drop_where1(s[5])
        elif k == 'while':
            n += drop_where1(s[2])
        elif k == 'if':
            for _, b in s[1]:
                n += drop_where1(b)
            if s[2] is not None:
                n += drop_where1(s[2])
        elif k == 'select':
            for _, b in s[2]:
                n += drop_where1(b)
            if s[3] is not None:
                n += drop_where1(s[3])
    return n


@st.composite
def cases(draw, prof=None, where1=True):
    """where1=False: one-line WHERE statements are written as constructs (listed known finding of C04)"""
    prof = prof or gen.profile(max_depth=4)
    case = draw(gen.cases(prof))
    g = gen.G(draw, prof)
    if not where1:
        n = 0
        for f in case['files']:
            for kind, u in f['units']:
                if kind == 'module':
                    for r in u['routines']:
                        n += drop_where1(r['body'])
                        for c in r.get('contains') or []:
                            n += drop_where1(c['body'])
        if n:
            case['excluded'] = {'known:one-line-where-rewrapped': n}
    # ---- long identifiers
    ids = identifiers(case)
    mapping, used = {}, set(k.lower() for k in ids) | {'kernel', 'kmod', 'n', 'hmany', 'kplong', 'acc'}
    level = g.pick([0, 30, 60, 90])            # share of renamed identifiers
    for nm in sorted(ids):
        if not g.chance(level):
            continue
        new = long_name(g, nm, 24 if ids[nm] == 'loop' else g.pick([20, 40, 63]))
        if new.lower() in used:
            continue
        used.add(new.lower())
        mapping[nm] = new
    if mapping:
        case = {k: (_rename(v, mapping) if k in ('files', 'entry', 'inputs') else v) for k, v in case.items()}
    mod, kern = kernel_of(case)
    env = gen.Env()
    env.vars['n'] = {'type': 'int', 'dims': None, 'ro': True}
    yout = next(d['name'] for d in case['entry']['args'][1:] if d['type'] == 'int' and d['intent'] in ('inout', 'out')
                and not d['dims'])
    yv = var(yout)
    feats = []
    new_stmts = []
    # ---- many-argument subroutine
    if g.chance(60):
        k = g.i(20, 40)
        names = [long_name(g, f'a{j}', g.pick([4, 12, 30])) for j in range(k)]
        names = [nm if names.index(nm) == j else f'{nm}q{j}' for j, nm in enumerate(names)]
        decls = [decl(nm, 'int', intent='in') for nm in names] + [decl('acc', 'int', intent='inout')]
        body = [['assign', var('acc'), ['f', 'modulo', [sum_chain([var('acc')] + [var(nm) for nm in names]), ['i', 1000]], {}]]]
        mod['routines'].insert(0, routine('hmany', names + ['acc'], decls, body))
        for _ in range(g.i(1, 2)):
            args = [gen.int_expr(g, env, g.pick([0, 0, 1])) for _ in range(k)]
            if g.chance(30):
                cut = g.i(1, k)
                kws = {names[j]: args[j] for j in range(cut, k)}
                kws['acc'] = yv
                new_stmts.append(['call', 'hmany', args[:cut], kws])
            else:
                new_stmts.append(['call', 'hmany', args + [yv], {}])
        feats.append('many-arg-call')
    # ---- long intrinsic reference / product chains / long strings
    for _ in range(g.i(1, 4)):
        c = g.pick(['maxref', 'prod', 'longline', 'longline', 'comment', 'trailing', 'pragma', 'nested'])
        if c == 'maxref':
            args = [gen.int_expr(g, env, g.pick([0, 1])) for _ in range(g.i(15, 30))]
            new_stmts.append(['assign', yv, ['f', g.pick(['max', 'min']), args, {}]])
        elif c == 'prod':
            ints = [d['name'] for d in case['entry']['args'] if d['type'] == 'int' and d['intent'] == 'in' and not d['dims']]
            terms = [var(g.pick(ints)) for _ in range(g.i(3, 7))]
            new_stmts.append(['assign', yv, ['f', 'modulo', [sum_chain(terms, '*'), ['i', 97]], {}]])
        elif c == 'longline':
            new_stmts.append(gen.gen_longline(g, env))
        elif c == 'comment':
            new_stmts.append(['comment', ' ' + ' '.join(g.pick(WORDS + ["it's", '"q"', '&']) for _ in range(g.i(20, 40)))])
        elif c == 'trailing':
            txt = ' '.join(g.pick(WORDS + ["it's", '"q"', '&', '!']) for _ in range(g.i(15, 35)))
            new_stmts.append(['raw', f'{yout} = {yout} + 0 ! {txt}'])
        elif c == 'pragma':
            kw = g.pick(['loki', 'acc', 'omp'])
            words = []
            pool = list(WORDS)
            for _ in range(g.i(12, len(WORDS))):
                # every clause name once: fgen raises AttributeError for a clause that occurs with and without arguments
                w = pool.pop(g.i(0, len(pool) - 1))
                if g.chance(30):
                    w += '(' + ', '.join(g.pick([yout, 'n', '1', 'a:b']) for _ in range(g.i(1, 4))) + ')'
                words.append(w)
            new_stmts.append(['pragma', kw + ' ' + ' '.join(words)])
        else:
            e = gen.int_expr(g, env, 1)
            for _ in range(g.i(3, 9)):
                e = ['f', g.pick(['abs', 'max', 'min']), [['p', e]] if g.chance(30) else [e], {}]
                if e[1] != 'abs':
                    e[2].append(gen.int_expr(g, env, 0))
            new_stmts.append(['assign', yv, ['f', 'modulo', [e, ['i', 1000]], {}]])
        feats.append(c)
    lists = body_lists(kern['body'], prologue_len(kern['body']))
    for s in new_stmts:
        lst, lo = g.pick(lists)
        lst.insert(g.i(lo, len(lst)), s)
    # ---- long declaration with array constructor
    if g.chance(50):
        k = g.i(25, 60)
        vals = ', '.join(str(g.i(0, 99999)) for _ in range(k))
        kern['spec_raw'] = list(kern.get('spec_raw') or []) + [f'    integer, parameter :: kplong({k}) = (/ {vals} /)']
        feats.append('long-declaration')
    case['long'] = sorted(set(feats)) + ([f'renamed={level}'] if mapping else [])
    case['width'] = g.pick([132, 132, 100, 80, 72, 60])
    return case
