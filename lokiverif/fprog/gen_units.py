"""
Generator of *program-unit projects* for the object-model properties C17 (clone) and C18 (pickle):
2-3 Fortran files with modules, derived types (nested, array components whose extents are named
module parameters, optional type-bound procedure), module variables, imports (ONLY lists with
renames or whole-module USE), module procedures with internal procedures, functions, free
subroutines, (nested, shadowing) ASSOCIATE blocks over components / elements / arrays, calls to
imported, sibling and internal procedures.  Bodies come from the statement generators of
``fprog.gen`` (typed by construction) - the programs are never executed here, but they are valid
Fortran (``tools``-style self test: every sample compiles with gfortran, see ``selftest``).

case (JSON) = {
  'files'  : [File, ...]           in dependency order (a file only imports from earlier files)
  'layout' : layout dict for fprog.render
  'mode'   : 'plain' | 'defs' | 'enrich'
               plain  : every file parsed on its own (imports stay deferred)
               defs   : files parsed in order with ``definitions=`` of all earlier files (frontend enrichment)
               enrich : parsed plain, then ``unit.enrich(definitions, recurse=True)`` on every unit
  'target' : ['file', i] | ['module', i, name] | ['routine', i, module, name] | ['free', i, name]
             | ['member', i, module|None, routine, name]       which object is cloned / pickled
  'feats'  : [str]                 generated features (class histogram)
}
"""
from hypothesis import strategies as st

from .model import var, lit, decl, routine, module
from . import gen as B

BODY_PROFILE = B.profile(print=True, comments=True, internal=False, real_class='general', max_depth=2,
                         max_stmts=2, expr_depth=2, n_helpers=1, labelled=True, named=True, layout='full',
                         sections=True, where=True, select=True)
BODY_PROFILE['while'] = False

KP = 3      # value of tmod's parameter kp
MP = 2      # value of kmod's parameter mp

# derived types: name -> [(component, type, decl dims, concrete dims)]
TYPES = {
    'tin': [('s', 'int', None, None), ('r', 'real', None, None),
            ('ia', 'int', [[0, 2]], [[0, 2]]), ('ra', 'real', [[1, 'kp']], [[1, KP]])],
    'tout': [('k', 'int', None, None), ('inner', 'type:tin', None, None), ('va', 'real', [[1, 2]], [[1, 2]])],
    'tloc': [('q', 'int', None, None), ('o', 'type:tout', None, None), ('w', 'real', [[1, 'mp']], [[1, MP]])],
}


def typedef(name, tbp=None):
    comps = [decl(cn, ct, dims=[list(d) for d in dd] if dd else None) for (cn, ct, dd, _) in TYPES[name]]
    return {'name': name, 'comps': comps, 'procs': [list(p) for p in (tbp or [])]}


def register_dtype(env, path, tname, ro=False):
    """components of a derived-type object reachable through designator ``path`` become env entries"""
    for (cn, ct, _, cd) in TYPES[tname]:
        p = [list(x) for x in path] + [[cn, None]]
        key = '%'.join(x[0] for x in p)
        if ct.startswith('type:'):
            env.vars[key] = {'type': ct, 'dims': None, 'path': p, 'ro': ro, 'dt': True}
            register_dtype(env, p, ct[5:], ro)
        else:
            env.vars[key] = {'type': ct, 'dims': [list(x) for x in cd] if cd else None, 'path': p, 'ro': ro,
                             'nobare': True}


def clone_env(env):
    c = B.Env()
    c.vars = {k: dict(v) for k, v in env.vars.items()}
    c.loopvars = list(env.loopvars)
    c.active_loops = dict(env.active_loops)
    c.funcs = list(env.funcs)
    c.subs = list(env.subs)
    return c


# ------------------------------------------------------------------ associate blocks
def _plain_leaf(g, env, t):
    # no derived-type components: with deferred (not enriched) types the frontend's shape derivation of
    # 'a%x + b%y' raises 'Non-matching dimensions' (frontend limitation outside C17/C18)
    sc = [n for n in env.scalars(t) if not env.vars[n].get('path') and not env.vars[n].get('modvar')
          and not env.vars[n].get('aname')]     # nor outer associate names (deferred shape -> 'Non-matching dimensions')
    if sc and g.chance(75):
        return B.designator_for(env, g.pick(sc))
    return ['i', g.i(1, 9)] if t == 'int' else ['r', g.pick(B.DYADIC)]


def gen_assoc(g, env, feats, depth=0, outer_names=()):
    """['assoc', pairs, body] over scalar components, elements, whole arrays and expressions"""
    child = clone_env(env)
    pairs, taken = [], set()
    scal = [n for n, v in env.vars.items() if not v['dims'] and not v.get('dt') and v['type'] in ('int', 'real')
            and not v.get('fuel') and n not in env.active_loops]
    arrs = [n for n, v in env.vars.items() if v['dims'] and all(d[1] != 'n' for d in v['dims'])]
    dts = [n for n, v in env.vars.items() if v.get('dt') or str(v['type']).startswith('type:')]
    for _ in range(g.i(1, 2)):
        kinds = []
        if scal:
            kinds += ['scalar'] * 3 + ['expr']
        if arrs:
            kinds += ['elem', 'array']
        if dts:
            kinds += ['object']
        if not kinds:
            break
        k = g.pick(kinds)
        # an associate name: fresh, or shadowing an outer associate name / a local variable
        if outer_names and g.chance(25):
            name = g.pick(sorted(outer_names))
            feats.add('assoc:shadows-outer-assoc')
        elif g.chance(12) and [n for n in env.vars if '%' not in n and not env.vars[n].get('fuel')
                               and n not in env.loopvars and n not in env.active_loops]:
            name = g.pick(sorted(n for n in env.vars if '%' not in n and not env.vars[n].get('fuel')
                                 and n not in env.loopvars and n not in env.active_loops))
            feats.add('assoc:shadows-variable')
        else:
            name = f'as{depth}{len(pairs)}'
        if name in taken:
            continue
        if k == 'scalar':
            n = g.pick(scal)
            v = env.vars[n]
            sel = B.designator_for(env, n)
            ent = {'type': v['type'], 'dims': None, 'ro': v.get('ro', False)}
            feats.add('assoc:component' if v.get('path') else 'assoc:scalar')
        elif k == 'expr':
            # operands are plain leaves: the frontend cannot derive the shape of selectors that contain
            # function references (UnsupportedExpressionError in ExpressionDimensionsMapper) - a parse
            # limitation outside C17/C18
            t = g.pick(['int', 'real'])
            gl = B.G(g.draw, dict(g.p, intrinsics=False, functions=False))
            sel = ['b', g.pick(['+', '*']), _plain_leaf(gl, env, t), _plain_leaf(gl, env, t)]   # '-' raises too
            ent = {'type': t, 'dims': None, 'ro': True}
            feats.add('assoc:expression')
        elif k == 'elem':
            n = g.pick(arrs)
            v = env.vars[n]
            base = B.designator_for(env, n)
            parts = [list(x) for x in base[1]]
            # non-negative literal subscripts (negative literals / '-' in selector subscripts make the
            # frontend's shape derivation raise; outside C17/C18)
            parts[-1][1] = [lit(g.i(max(B.dim_range(d)[0], 0), B.dim_range(d)[1])) for d in v['dims']]
            sel = ['d', parts]
            ent = {'type': v['type'], 'dims': None, 'ro': v.get('ro', False)}
            feats.add('assoc:element')
        elif k == 'array':
            n = g.pick(arrs)
            v = env.vars[n]
            sel = B.designator_for(env, n)
            # the associate name has lower bound 1 whatever the selector's bounds are
            ent = {'type': v['type'], 'dims': [[1, d[1] - d[0] + 1] for d in v['dims']], 'ro': v.get('ro', False),
                   'nobare': True}
            feats.add('assoc:array')
        else:
            n = g.pick(dts)
            v = env.vars[n]
            sel = B.designator_for(env, n)
            ent = {'type': v['type'], 'dims': None, 'ro': v.get('ro', False), 'dt': True}
            feats.add('assoc:object')
        taken.add(name)
        pairs.append([name, sel, ent])
    if not pairs:
        return None
    # an associate name that shadows the variable which a selector of the same statement starts with, e.g.
    # ASSOCIATE (lv => lv%o%s) or ASSOCIATE (a => ob%x, ob => y): trigger of a listed finding (flag assoc_shadow_root)
    roots = {p_[1][1][0][0] for p_ in pairs if p_[1][0] == 'd'}
    for j, p_ in enumerate(pairs):
        if p_[0] in roots:
            if getattr(g, 'flags', DEFAULT_FLAGS)['assoc_shadow_root']:
                feats.add('assoc:name-shadows-selector-root')
            else:
                if 'assoc_shadow_root' not in g.avoided:
                    g.avoided.append('assoc_shadow_root')
                fresh = f'as{depth}{j}x'
                taken.discard(p_[0])
                taken.add(fresh)
                p_[0] = fresh
    for name, _, ent in pairs:
        for key in [key for key in child.vars if key == name or key.startswith(name + '%')]:
            del child.vars[key]
        if name in child.loopvars:
            child.loopvars.remove(name)
        ent['aname'] = True
        child.vars[name] = ent
        if ent.get('dt'):
            register_dtype(child, [[name, None]], ent['type'][5:], ent.get('ro', False))
    body = B.gen_body(g, child, 1, 2)
    if depth < 2 and g.chance(35):
        inner = gen_assoc(g, child, feats, depth + 1, set(outer_names) | taken)
        if inner is not None:
            feats.add(f'assoc:nested{depth + 1}')
            body.insert(g.i(0, len(body)), inner)
    return ['assoc', [[n, s] for n, s, _ in pairs], body]


# ------------------------------------------------------------------ routines
def hide_parent_members(g, env, feats):
    """drop (flag parent_object_members off) the components of parent-scope objects that are reached through an imported type"""
    fl = getattr(g, 'flags', DEFAULT_FLAGS)
    hit = []
    for k, v in env.vars.items():
        parts = k.split('%')
        if len(parts) < 2 or parts[0] not in env.vars:
            continue
        rt = env.vars[parts[0]]['type']
        if rt in ('type:tin', 'type:tout') or (rt == 'type:tloc' and parts[1] == 'o' and len(parts) >= 3):
            hit.append(k)
    if not hit:
        return
    if fl['parent_object_members'] or getattr(g, 'mode', 'defs') == 'defs':
        feats.add('contained-unit:sees-imported-type-members-of-parent-object')
        return
    if 'parent_object_members' not in g.avoided:
        g.avoided.append('parent_object_members')
    for k in hit:
        del env.vars[k]


def declare_args(g, env, decls, args, nin=(1, 2), nout=(1, 1), with_n=True, prefix='x'):
    if with_n:
        args.append('n')
        decls.append(decl('n', 'int', intent='in'))
        env.vars['n'] = {'type': 'int', 'dims': None, 'ro': True}
    sig = []
    for k in range(g.i(*nin)):
        t = g.pick(['int', 'real'])
        nm = f'{prefix}{"i" if t == "int" else "r"}{k}'
        args.append(nm)
        decls.append(decl(nm, t, intent='in'))
        env.vars[nm] = {'type': t, 'dims': None, 'ro': True}
        sig.append((t, None, 'in', nm))
    for k in range(g.i(*nout)):
        t = g.pick(['int', 'real'])
        nm = f'y{"i" if t == "int" else "r"}{k}'
        args.append(nm)
        decls.append(decl(nm, t, intent='inout'))
        env.vars[nm] = {'type': t, 'dims': None}
        sig.append((t, None, 'inout', nm))
    return sig


def gen_member(g, host_env, idx, feats):
    """internal procedure: reads host variables, updates its inout argument"""
    ienv = B.Env()
    ienv.vars = {k: dict(v, ro=True) for k, v in host_env.vars.items() if not v.get('fuel')}
    ienv.funcs = list(host_env.funcs)
    hide_parent_members(g, ienv, feats)
    t = g.pick(['int', 'real'])
    nm = f'ia{idx}'
    ienv.vars[nm] = {'type': t, 'dims': None}
    decls = [decl(nm, t, intent='inout')]
    if g.chance(50):
        # a local that shadows a host variable
        hostscal = sorted(n for n, v in host_env.vars.items() if '%' not in n and not v['dims'] and not v.get('fuel')
                          and v['type'] in ('int', 'real') and not v.get('ro'))
        if hostscal:
            sh = g.pick(hostscal)
            decls.append(decl(sh, host_env.vars[sh]['type']))
            ienv.vars[sh] = {'type': host_env.vars[sh]['type'], 'dims': None}
            feats.add('member:shadows-host-variable')
    sub = dict(g.p)
    sub.update(calls=False, print=False, where=False, max_depth=1, select=False)
    g2 = B.G(g.draw, sub)
    g2.flags, g2.avoided, g2.mode = getattr(g, 'flags', DEFAULT_FLAGS), getattr(g, 'avoided', []), getattr(g, 'mode', 'defs')
    body = [['assign', var(nm), B.expr_of(g2, ienv, t, 2)]]
    if g.chance(50):
        body.append(['if', [[B.log_expr(g2, ienv, 1), [['assign', var(nm), B.expr_of(g2, ienv, t, 1)]]]], None])
    if g.chance(50):
        a = gen_assoc(g2, ienv, feats)
        if a is not None:
            feats.add('member:assoc')
            body.append(a)
    name = f'inner{idx}'
    r = routine(name, [nm], decls, body)
    if g.chance(40):
        r['doc_raw'] = [f'      ! {name}: docstring of a member']
        feats.add('member:docstring')
    return r, {'name': name, 'args': [(t, None, 'inout', nm)]}


def gen_kernel(g, name, mod_env, feats, dtypes, nmembers, calls_tbp=False, with_assoc=True, as_function=False):
    """a module procedure / free subroutine with locals, derived-type objects, assoc blocks, members"""
    env = B.Env()
    env.vars = {k: dict(v) for k, v in mod_env.vars.items()}
    env.funcs = list(mod_env.funcs)
    env.subs = list(mod_env.subs)
    hide_parent_members(g, env, feats)
    args, decls, prologue = [], [], []
    sig = declare_args(g, env, decls, args, with_n=not as_function, nout=(0, 0) if as_function else (1, 1))
    if not as_function:
        # one explicit-shape array argument dimensioned by n, one fixed
        args.append('za')
        decls.append(decl('za', 'real', dims=[[1, 'n']], intent='inout'))
        env.vars['za'] = {'type': 'real', 'dims': [[1, 'n']]}
    objs = []
    for k, tn in enumerate(dtypes):
        nm = f'ob{k}'
        is_arg = (k == 0 and not as_function and g.chance(60))
        decls.append(decl(nm, f'type:{tn}', intent='inout' if is_arg else None))
        if is_arg:
            args.append(nm)
        env.vars[nm] = {'type': f'type:{tn}', 'dims': None, 'dt': True}
        register_dtype(env, [[nm, None]], tn)
        objs.append(nm)
        feats.add(f'object:{tn}')
    B.declare_locals(g, env, decls, prologue, nscal=(1, 2), narr=(1, 2))
    if 'mp' in env.vars:
        # kmod scope: the kind parameter jpr and the parameters mp / mq are visible
        for d_ in decls:
            if d_['type'] == 'real' and g.chance(40):
                d_['type'] = 'raw:real(kind=jpr)'
                feats.add('decl:named-kind')
        if g.chance(50):
            decls.insert(len(args), decl('lp', 'int', param=['b', '*', var('mp'), ['i', 2]]))
            env.vars['lp'] = {'type': 'int', 'dims': None, 'ro': True}
            feats.add('decl:parameter-with-symbolic-initialiser')
    members, msigs = [], []
    for k in range(nmembers):
        m, s = gen_member(g, env, k, feats)
        members.append(m)
        msigs.append(s)
    env.subs = env.subs + msigs
    body = list(prologue[:g.i(0, len(prologue))]) + B.gen_body(g, env, 0, g.p['max_stmts'])
    if with_assoc:
        for _ in range(g.i(1, 2)):
            a = gen_assoc(g, env, feats)
            if a is not None:
                body.insert(g.i(0, len(body)), a)
    # make sure calls to every kind of callee occur (imported helper, sibling, member) when available
    for s in env.subs:
        if g.chance(60):
            c = B.gen_call(B.G(g.draw, dict(g.p, calls=True)), _callable_env(env, s))
            if c is not None:
                body.insert(g.i(0, len(body)), c)
                feats.add('call:member' if s['name'].startswith('inner') else
                          ('call:imported' if s.get('imported') else 'call:sibling'))
    if calls_tbp and objs:
        for o in objs:
            path = _tin_path(env, o)
            if path is not None:
                body.append(['call', ['d', path + [['bump', None]]], [B.int_expr(g, env, 1)], {}])
                feats.add('call:type-bound')
                break
    if as_function:
        rt = g.pick(['int', 'real'])
        res = f'{name}_r' if g.chance(60) else None
        rname = res or name
        decls.append(decl(rname, rt))
        body.append(['assign', var(rname), B.expr_of(g, env, rt, 2)])
        r = routine(name, args, decls, body, kind='function', result=res, contains=members)
        if g.chance(50):
            r['doc_raw'] = [f'    ! {name}: docstring of a function']
            feats.add('routine:docstring')
        return r, {'name': name, 'args': [s[0] for s in sig], 'rtype': rt}
    r = routine(name, args, decls, body, contains=members)
    if g.chance(50):
        r['doc_raw'] = [f'    ! {name}: generated docstring', '    ! second line of the docstring']
        feats.add('routine:docstring')
    full = [('int', None, 'in', 'n')] + sig + [('real', [[1, 'n']], 'inout', 'za')]
    return r, {'name': name, 'args': full, 'objs': [a for a in args if a.startswith('ob')]}


def _callable_env(env, s):
    e = clone_env(env)
    e.subs = [s]
    return e


def _tin_path(env, obj):
    """designator parts leading to a component of type tin inside object ``obj`` (or the object itself)"""
    t = env.vars[obj]['type'][5:]
    if t == 'tin':
        return [[obj, None]]
    if t == 'tout':
        return [[obj, None], ['inner', None]]
    if t == 'tloc':
        return [[obj, None], ['o', None], ['inner', None]]
    return None


# ------------------------------------------------------------------ the project
DEFAULT_FLAGS = {'print': True, 'casts': True, 'dtsym': True, 'members': True, 'frontend_state': True, 'assoc_shadow_root': True,
                 'parent_object_members': True}


@st.composite
def projects(draw, thorough=False, kind=None, flags=None):
    """
    ``kind``  : force the kind of the target (file|module|routine|free|member); None = drawn
    ``flags`` : known-finding triggers; a flag that is False is never generated and every draw that wanted
                it is listed in case['avoided']:
        print : PRINT statements
        casts : real(<int>, 8) conversions
        dtsym : derived-type names in the ONLY list of an import that the frontend / enrich() resolves
                (the import then lists the other names and a second, unqualified USE of the module provides the types)
        members : internal (member) procedures
        assoc_shadow_root : an associate name that shadows the variable its own selector starts with, e.g.
                ASSOCIATE (lv => lv%o%s)  (off = such a name is replaced by a fresh one)
        parent_object_members : (modes plain/enrich) a contained unit uses components, reached through an imported
                type, of a derived-type object declared in its parent (module variable lv%o%.., host object ob0%.. in a
                member); off = those components are not visible to the statement generators of the contained unit
        frontend_state : judge the units exactly as the frontend (+ enrich) leaves them; off = case['rescope_after_parse']
                asks for unit.rescope_symbols() on every top-level unit first (AttachScopes normal form: intrinsic
                names attached to the closest scope, symbols that enrich() left unattached resolved)
    """
    flags = dict(DEFAULT_FLAGS, **(flags or {}))
    prof = dict(BODY_PROFILE)
    if thorough:
        prof.update(max_stmts=4, max_depth=3, expr_depth=3)
    g = B.G(draw, prof)
    feats = set()
    avoided = []
    g.flags, g.avoided = flags, avoided
    g.mode = None
    wants_print = g.chance(60)
    if wants_print and not flags['print']:
        avoided.append('print')
    prof['print'] = wants_print and flags['print']
    wants_casts = g.chance(70)
    if wants_casts and not flags['casts']:
        avoided.append('casts')
    prof['casts'] = wants_casts and flags['casts']
    mode = g.pick(['defs', 'enrich', 'plain', 'enrich', 'defs'])     # (hypothesis favours the first entries)
    g.mode = mode
    tbp = g.chance(30)
    # ---------------- tmod: types, parameters, module variables, helpers
    t_funcs_r, t_funcs, t_subs_r, t_subs = [], [], [], []
    for k in range(g.i(0, 1)):
        r, s = B.gen_helper_function(g, k, None)
        t_funcs_r.append(r)
        t_funcs.append(s)
    for k in range(g.i(1, 2) if thorough else 1):
        r, s = B.gen_helper_sub(g, k, t_funcs, [])
        t_subs_r.append(r)
        t_subs.append(dict(s, imported=True))
    t_routines = t_funcs_r + t_subs_r
    tin_procs = None
    if tbp:
        feats.add('type-bound-procedure')
        tin_procs = [['bump', 'tin_bump']]
        t_routines.append(routine('tin_bump', ['self', 'by'],
                                  [decl('self', 'class:tin', intent='inout'), decl('by', 'int', intent='in')],
                                  [['assign', ['d', [['self', None], ['s', None]]],
                                    ['b', '+', ['d', [['self', None], ['s', None]]], var('by')]]]))
    tmod = module('tmod', routines=t_routines,
                  decls=[decl('gscale', 'real', init=['r', '1.5']), decl('gcount', 'int'),
                         decl('garr', 'int', dims=[[1, 'kp']])],
                  types=[typedef('tin', tin_procs), typedef('tout')])
    tmod['spec_raw_pre'] = [f'  integer, parameter :: kp = {KP}', '  integer, parameter :: jpr = 8']
    files = [{'name': 'tmod.f90', 'units': [['module', tmod]]}]

    # ---------------- kmod: imports, own type, module variables, kernel(s)
    whole = g.chance(25)
    rename = (not whole) and g.chance(50)
    gs_name = 'gs' if rename else 'gscale'
    if whole:
        uses = [{'module': 'tmod', 'only': None}]
        feats.add('import:whole-module')
    else:
        only = [['tin', None], ['tout', None], ['kp', None], [gs_name, 'gscale' if rename else None], ['gcount', None], ['jpr', None]]
        only += [[s['name'], None] for s in t_subs] + [[f['name'], None] for f in t_funcs]
        uses = [{'module': 'tmod', 'only': only}]
        feats.add('import:only-renamed' if rename else 'import:only')
        if mode != 'plain':
            feats.add('import:derived-type-resolved')
            if not flags['dtsym']:
                avoided.append('dtsym')
                uses = [{'module': 'tmod', 'only': only[2:]}, {'module': 'tmod', 'only': None}]
    menv = B.Env()
    menv.vars = {
        'kp': {'type': 'int', 'dims': None, 'ro': True}, 'mp': {'type': 'int', 'dims': None, 'ro': True},
        gs_name: {'type': 'real', 'dims': None, 'ro': True}, 'gcount': {'type': 'int', 'dims': None},
        'mv': {'type': 'int', 'dims': None}, 'mr': {'type': 'real', 'dims': [[1, MP]]},
        'mx': {'type': 'int', 'dims': [[1, MP + 1]]}, 'mq': {'type': 'int', 'dims': None, 'ro': True},
    }
    if whole:
        menv.vars['garr'] = {'type': 'int', 'dims': [[1, KP]]}
    for v in menv.vars.values():
        v['modvar'] = True      # imported / module-level: deferred type unless enriched
    menv.funcs = list(t_funcs)
    menv.subs = list(t_subs)
    own_type = g.chance(70)
    mdecls = [decl('mv', 'int'), decl('mr', 'real', dims=[[1, 'mp']]), decl('mx', 'int', dims=[[1, 'mq']])]
    mtypes = []
    if own_type:
        mtypes.append(typedef('tloc'))
        mdecls.append(decl('lv', 'type:tloc'))
        menv.vars['lv'] = {'type': 'type:tloc', 'dims': None, 'dt': True}
        register_dtype(menv, [['lv', None]], 'tloc')
        feats.add('module:own-type+object')
    k_routines = []
    sib_funcs, sib_subs = [], []
    if g.chance(60):
        r, s = gen_kernel(g, 'kfun', menv, feats, [], 0, with_assoc=False, as_function=True)
        k_routines.append(r)
        sib_funcs.append(s)
        feats.add('module:function')
    env2 = clone_env(menv)
    env2.funcs = menv.funcs + sib_funcs
    if g.chance(50):
        r, s = gen_kernel(g, 'ksib', env2, feats, [], 0, with_assoc=g.chance(40))
        k_routines.append(r)
        sib_subs.append({'name': 'ksib', 'args': s['args']})
        feats.add('module:sibling-routine')
    env3 = clone_env(env2)
    env3.subs = env2.subs + sib_subs
    ntypes = ['tout', 'tin'] + (['tloc'] if own_type else [])
    dtypes = [g.pick(ntypes) for _ in range(g.i(1, 2))]
    nmem = g.pick([0, 1, 1, 2])
    if kind == 'member':
        nmem = max(nmem, 1)
    if nmem and not flags['members']:
        avoided.append('members')
        nmem = 0
    if nmem:
        feats.add(f'members:{nmem}')
    kern, ksig = gen_kernel(g, 'kernel', env3, feats, dtypes, nmem, calls_tbp=tbp)
    k_routines.append(kern)
    kmod = module('kmod', routines=k_routines, decls=mdecls, types=mtypes, uses=uses,
                  access=g.pick([None, None, 'private', 'public']))
    kmod['spec_raw_pre'] = [f'  integer, parameter :: mp = {MP}', '  integer, parameter :: mq = mp + 1']
    if kmod['access'] == 'private':
        kmod['spec_raw_pre'].insert(0, '  public :: kernel, mv, mp, mq' + (', tloc' if own_type else ''))
    kunits = [['module', kmod]]

    # ---------------- a free subroutine importing from kmod (same file or its own file)
    free = g.chance(60) or kind == 'free'
    free_own_file = free and g.chance(40)
    if free:
        denv = B.Env()
        denv.vars = {'mv': {'type': 'int', 'dims': None, 'modvar': True}}
        duses = [{'module': 'kmod', 'only': [['kernel', None], ['mv', None]] + ([['tloc', None]] if own_type and g.chance(50) else [])}]
        if any(o.startswith('ob') for o in ksig.get('objs', [])) or g.chance(50):
            duses.append({'module': 'tmod', 'only': [['tin', None], ['tout', None], ['kp', None]]})
        dargs, ddecls, dpro = [], [], []
        declare_args(g, denv, ddecls, dargs, with_n=True)
        ddecls.append(decl('da', 'real', dims=[[1, 'n']]))
        denv.vars['da'] = {'type': 'real', 'dims': [[1, 'n']]}
        B.declare_locals(g, denv, ddecls, dpro, nscal=(1, 2), narr=(0, 1))
        # call kernel(n, <in args>, <inout args>, da[, ob0])
        call_args = [var('n')]
        ok = True
        used = set()
        for (t, dims, intent, nm) in ksig['args'][1:-1]:
            if intent == 'in':
                call_args.append(B.expr_of(g, denv, t, 1))
            else:
                c = [a for a in denv.scalars(t, writable=True) if a not in used and not denv.vars[a].get('fuel')]
                if not c:
                    ok = False
                    break
                used.add(c[0])
                call_args.append(var(c[0]))
        dbody = list(dpro) + B.gen_body(g, denv, 0, 2)
        if g.chance(60):
            a = gen_assoc(g, denv, feats)
            if a is not None:
                dbody.append(a)
                feats.add('free:assoc')
        if ok:
            call_args.append(var('da'))
            tuses = {u['module'] for u in duses}
            for o in ksig.get('objs', []):
                tn = next(d['type'] for d in kern['decls'] if d['name'] == o)[5:]
                if tn == 'tloc' and not any(['tloc', None] in (u['only'] or []) for u in duses):
                    duses[0]['only'].append(['tloc', None])
                if tn in ('tin', 'tout') and 'tmod' not in tuses:
                    duses.append({'module': 'tmod', 'only': [['tin', None], ['tout', None], ['kp', None]]})
                    tuses.add('tmod')
                ddecls.append(decl('dob', f'type:{tn}'))
                call_args.append(var('dob'))
            dbody.append(['call', 'kernel', call_args, {}])
            feats.add('free:calls-kernel')
        # derived-type names in ONLY lists that get resolved: kmod's types when drv shares the file with kmod
        # (the frontend resolves intra-file imports in every mode) or the project is enriched
        typenames = {'tin', 'tout', 'tloc'}
        final_uses = []
        for u_ in duses:
            has_type = any(n in typenames for n, _ in u_['only'])
            resolved = mode != 'plain' or (u_['module'] == 'kmod' and not free_own_file)
            if has_type and resolved:
                feats.add('import:derived-type-resolved')
                if not flags['dtsym']:
                    if 'dtsym' not in avoided:
                        avoided.append('dtsym')
                    final_uses.append({'module': u_['module'], 'only': [x for x in u_['only'] if x[0] not in typenames]})
                    final_uses.append({'module': u_['module'], 'only': None})
                    continue
            final_uses.append(u_)
        duses = final_uses
        drv = routine('drv', dargs, ddecls, dbody, uses=duses)
        if g.chance(50):
            drv['doc_raw'] = ['  ! drv: docstring of the free routine', '  ! (two lines)']
            feats.add('free:docstring')
        if free_own_file:
            feats.add('free:own-file')
        else:
            kunits.append(['routine', drv])
            feats.add('free:same-file')
    files.append({'name': 'kmod.f90', 'units': kunits})
    if free and free_own_file:
        files.append({'name': 'drv.f90', 'units': [['routine', drv]]})

    # ---------------- target
    fi = (2 if free_own_file else 1) if free else None
    by_kind = {
        'file': [['file', 1], ['file', 1], ['file', 0]] + ([['file', 2]] if free and free_own_file else []),
        'module': [['module', 1, 'kmod'], ['module', 1, 'kmod'], ['module', 0, 'tmod']],
        'routine': [['routine', 1, 'kmod', 'kernel']] * 2 + [['routine', 1, 'kmod', r['name']] for r in k_routines[:-1]]
                   + ([['routine', 0, 'tmod', t_subs_r[0]['name']]] if t_subs_r else []),
        'member': [['member', 1, 'kmod', 'kernel', m['name']] for m in kern['contains']],
        'free': [['free', fi, 'drv']] if free else [],
    }
    if kind is None:
        w = g.i(0, 99)
        kind = 'file' if w < 25 else ('module' if w < 50 else ('routine' if w < 72 else ('free' if w < 88 else 'member')))
        if not by_kind[kind]:
            kind = 'module' if w % 2 else 'file'
    target = g.pick(by_kind[kind])
    layout = B.gen_layout(g, 'full')
    layout['dcolon'] = True     # fparser rejects 'type(t) &\n ) x' style declarations without '::' split by a continuation
    case = {'files': files, 'layout': layout, 'mode': mode, 'target': target, 'feats': sorted(feats),
            'avoided': avoided}
    if not flags['frontend_state']:
        avoided.append('frontend_state')
        case['rescope_after_parse'] = True
    return case
