"""
Profile generator for C29 (associate resolution / merging): kernels with (nested) ASSOCIATE blocks over
scalars, array elements, whole arrays (any lower bound), array sections, derived-type components and whole
derived-type objects, associate-of-associate, associate names shadowing outer variables / outer associate
names, blocks inside loops and conditionals, associate names passed to calls.

case = base case keys (files, entry, inputs, layout, driver) +
    'xforms'   : [xform, ...]   entry point + options to apply (see props/c29.py)
    'hazards'  : [tag, ...]     known-finding triggers that were switched ON for this case (sub-streams only)
    'hz_paths' : [[path...]]    kernel-body statement indices of the injected hazard blocks (for ablation)
    'avoided'  : [tag, ...]     draws where the generator wanted a known-finding trigger and avoided it
    'feats'    : [str, ...]     generated features (class histogram)
    'certain_depths': [d, ...]  nesting depths of ASSOCIATE blocks that execute on every input

Semantic preconditions guaranteed by construction (so that *textual* resolution is meaning-preserving):
  * subscripts inside selectors are literals, never-written variables or variables of enclosing DO loops,
  * expression selectors only read never-written variables,
so the selector denotes the same object/value at every point of the block.

Known-finding triggers (never generated in the main stream, see known_findings.d/C29.txt):
  sect-lb      '(:)' / '(:k)' selector over a dimension whose declared lower bound is not 1, then indexed
  sect-stride  strided section selector (lower bound 1 or omitted), then indexed
  open-range   partial section selector 'b(1:k)' used with an open range 'name(:)'
  merge-shadow nested associate name that is also visible/used in the parent block (do_merge_associates)
  merge-loopdep nested associate inside a loop whose selector depends on the loop variable (do_merge_associates)
  merge-empties-inner nested associate all of whose selectors are independent of the parent block: every
               association is moved up and an invalid 'ASSOCIATE ()' is left behind (do_merge_associates)
  merge-subscript-dep nested selector whose *subscript* is an associate name of an enclosing block: the
               association is moved next to the name it depends on (do_merge_associates)
  merge-rescope-selector selector that mentions a variable whose name is also an associate name of the same
               ASSOCIATE statement: after do_merge_associates the selector is scoped in the block itself
The main stream never generates these triggers (props/c29.py does not run the hazard sub-streams any more; they
only serve to produce the minimal replay files, see ``minimal_cases``).
Documented as unsupported by loki (warning 'Bounds shifts through association is currently not supported')
and therefore never generated: section selectors with an explicit lower bound other than 1.
"""
from hypothesis import strategies as st

from .model import var, lit, decl, routine, module
from . import gen as B

HAZARDS = ['sect-lb', 'sect-stride', 'open-range', 'merge-shadow', 'merge-loopdep', 'merge-empties-inner', 'merge-subscript-dep',
           'merge-rescope-selector']
# triggers of listed known findings that the main stream must not generate (exclusion by construction; remove a tag
# once its fix is committed and its known: line has become a fixed: line)
EXCLUDED_TRIGGERS = {'sect-lb', 'sect-stride', 'open-range', 'merge-shadow', 'merge-loopdep', 'merge-empties-inner',
                     'merge-subscript-dep', 'merge-rescope-selector'}

STMT_PROFILE = B.profile(print=False, comments=False, internal=False, real_class='dyadic', max_depth=3,
                         max_stmts=4, expr_depth=2, n_helpers=1, stmtfunc=False, inquiry=True)
STMT_PROFILE['while'] = False

# derived types of the module (name -> components)
TYPES = {
    'tin': [('s', 'int', None), ('r', 'real', None), ('ia', 'int', [[0, 2]]), ('ra', 'real', [[1, 4]])],
    'tout': [('k', 'int', None), ('inner', 'type:tin', None), ('va', 'real', [[1, 2]])],
}


def typedefs(lb_ia):
    out = []
    for tn in ('tin', 'tout'):
        comps = []
        for (cn, ct, cd) in TYPES[tn]:
            dims = [list(x) for x in cd] if cd else None
            if tn == 'tin' and cn == 'ia':
                dims = [[lb_ia, lb_ia + 2]]
            comps.append(decl(cn, ct, dims=dims))
        out.append({'name': tn, 'comps': comps, 'procs': []})
    return out


def register_dtype(env, path, tname, lb_ia, ro=False, root=None):
    """
    register the components of a derived-type object reachable through designator ``path`` in env;
    ``root``: the underlying object when ``path`` starts with an associate name (see root_of)
    """
    for (cn, ct, cd) in TYPES[tname]:
        p = [list(x) for x in path] + [[cn, None]]
        key = '%'.join(x[0] for x in p)
        croot = None if root is None else root + '%' + cn
        if ct.startswith('type:'):
            env.vars[key] = {'type': ct, 'dims': None, 'path': p, 'ro': ro, 'dt': True}
            register_dtype(env, p, ct[5:], lb_ia, ro, croot)
        else:
            dims = [list(x) for x in cd] if cd else None
            if tname == 'tin' and cn == 'ia':
                dims = [[lb_ia, lb_ia + 2]]
            env.vars[key] = {'type': ct, 'dims': dims, 'path': p, 'ro': ro}
        if croot is not None:
            env.vars[key]['root'] = croot


# ------------------------------------------------------------------ aliasing through associate names
# gfortran 12 does not see that an associate name and its selector (or two associate names of one object) overlap:
# `z(1:2) = abs(z(1:2)) - a(0:1)` inside `associate (z => a)` is compiled without the temporary the standard
# requires, so the ORIGINAL program would be miscompiled by the reference compiler (checked by hand). Statements
# that write an array-valued designator and mention the same underlying object under another name, and calls that
# pass overlapping objects by reference, are therefore never generated (counted as avoided 'ref:...').
def root_of(env, d):
    """underlying object 'name[%comp...]' of designator ``d`` (None if unknown, e.g. a value selector)"""
    names = [part[0] for part in d[1]]
    for k in range(len(names), 0, -1):
        key = '%'.join(names[:k])
        v = env.vars.get(key)
        if v is not None:
            if v.get('value') or ('root' in v and v['root'] is None):
                return None
            base = v.get('root', key)
            return '%'.join([base] + names[k:])
    return names[0]


def roots_overlap(r1, r2):
    return r1 is not None and r2 is not None and (r1 == r2 or r1.startswith(r2 + '%') or r2.startswith(r1 + '%'))


def designators(x, acc):
    if isinstance(x, list):
        if x and x[0] == 'd' and len(x) == 2 and isinstance(x[1], list):
            acc.append(x)
            for part in x[1]:
                for sub in part[1] or []:
                    designators(sub, acc)
            return acc
        for y in x:
            designators(y, acc)
    elif isinstance(x, dict):
        for y in x.values():
            designators(y, acc)
    return acc


def array_valued(env, d):
    if any(isinstance(sub, list) and sub and sub[0] == 'rng' for part in d[1] for sub in (part[1] or [])):
        return True
    v = env.vars.get('%'.join(part[0] for part in d[1]))
    return bool(v and v.get('dims') and d[1][-1][1] is None)


def alias_overlap(env, stmt):
    """True if ``stmt`` (recursively) relies on the compiler seeing an overlap between differently named objects"""
    from .model import walk_stmts
    for _, s in walk_stmts([stmt]):
        if s[0] == 'assign':
            if array_valued(env, s[1]):
                rw = root_of(env, s[1])
                for d in designators(s[2], []) + designators([sub for part in s[1][1] for sub in (part[1] or [])], []):
                    if d[1][0][0] != s[1][1][0][0] and roots_overlap(rw, root_of(env, d)):
                        return True
        elif s[0] in ('where', 'where1'):
            written = [t[1] for _, t in walk_stmts([s]) if t[0] == 'assign']
            for w in written:
                rw = root_of(env, w)
                for d in designators(s, []):
                    if d[1][0][0] != w[1][0][0] and roots_overlap(rw, root_of(env, d)):
                        return True
        elif s[0] == 'call':
            refs = [x for x in s[2] if isinstance(x, list) and x and x[0] == 'd']
            roots = [root_of(env, d) for d in refs]
            for i in range(len(roots)):
                for j in range(i + 1, len(roots)):
                    if roots_overlap(roots[i], roots[j]):
                        return True
    return False


def clone_env(env):
    c = B.Env()
    c.vars = {k: dict(v) for k, v in env.vars.items()}
    c.loopvars = list(env.loopvars)
    c.active_loops = dict(env.active_loops)
    c.funcs = list(env.funcs)
    c.subs = list(env.subs)
    c.nval_range = env.nval_range
    return c


def drop_name(env, name):
    """remove ``name`` and everything reached through it from env (it is being shadowed)"""
    for k in [k for k in env.vars if k == name or k.startswith(name + '%')]:
        del env.vars[k]


# ------------------------------------------------------------------ slim entry routine (shared with C30/C32)
def small_entry(g, env, arr_decls, funcs=(), subs=(), nint=2, nreal=1, nlog=1, local_arrays=(), logical_arg=True):
    """
    entry routine skeleton: n, xi0, xr0 (in), yi0, yr0 (inout) + arrays of ``arr_decls`` [(type, dims, intent)] +
    locals li*, lr*, lb*, local arrays [(name, type, dims)], loop variables lj0..lj2.
    Returns (args, decls, entry_args, prologue); env is filled.
    """
    args, decls, entry_args, prologue = [], [], [], []

    def add_arg(nm, t, intent, dims=None):
        d = decl(nm, t, dims=[list(x) for x in dims] if dims else None, intent=intent)
        args.append(nm)
        decls.append(d)
        entry_args.append(d)
        env.vars[nm] = {'type': t, 'dims': [list(x) for x in dims] if dims else None, 'ro': intent == 'in', 'arg': True}
        if intent == 'out':
            prologue.append(['assign', var(nm), B.init_value(g, t)])

    add_arg('n', 'int', 'in')
    add_arg('xi0', 'int', 'in')
    add_arg('xr0', 'real', 'in')
    add_arg('yi0', 'int', 'inout')
    add_arg('yr0', 'real', 'inout')
    if logical_arg and g.chance(40):
        add_arg('xb0', 'logical', 'in')
    for k, (t, dims, intent) in enumerate(arr_decls):
        add_arg(f'z{"i" if t == "int" else "r"}{k}', t, intent, dims)
    env.funcs = list(funcs)
    env.subs = list(subs)
    for t, tag, cnt in (('int', 'i', nint), ('real', 'r', nreal), ('logical', 'b', nlog)):
        for k in range(cnt):
            nm = f'l{tag}{k}'
            decls.append(decl(nm, t))
            env.vars[nm] = {'type': t, 'dims': None}
            prologue.append(['assign', var(nm), B.init_value(g, t)])
    for nm, t, dims in local_arrays:
        decls.append(decl(nm, t, dims=[list(x) for x in dims]))
        env.vars[nm] = {'type': t, 'dims': [list(x) for x in dims]}
        prologue.append(['assign', var(nm), B.init_value(g, t)])
    for k in range(3):
        nm = f'lj{k}'
        decls.append(decl(nm, 'int'))
        env.loopvars.append(nm)
    return args, decls, entry_args, prologue


# ------------------------------------------------------------------ checksum epilogue (shared with C30/C32)
def checksum_epilogue(env, loopvars, acc_int='yi0', acc_real='yr0', skip=(), loops=True):
    """
    position-sensitive checksums of every local/inout variable into the integer and real accumulators:
    sum_k k*arr(k) through explicit loops, scalars added with distinct small weights.
    """
    out = []
    w = 1
    lv = list(loopvars)
    for name, v in env.vars.items():
        if name in skip or name in (acc_int, acc_real) or v.get('fuel') or v.get('dt') or v.get('noepi'):
            continue
        t = v['type']
        if t not in ('int', 'real', 'logical'):
            continue
        acc = acc_int if t in ('int', 'logical') else acc_real
        ref = B.designator_for(env, name)
        if not v['dims']:
            if t == 'logical':
                out.append(['if1', ref, ['assign', var(acc), ['b', '+', var(acc), ['i', w]]]])
            else:
                out.append(['assign', var(acc), ['b', '+', var(acc), ['b', '*', ['i', w], ref]]])
            w = w % 5 + 1
            continue
        if t == 'logical' or len(v['dims']) > len(lv):
            continue
        if not loops:
            # loop-free variant (1-D arrays with literal bounds): one statement per element
            lb, ub = v['dims'][0]
            for k in range(lb, ub + 1):
                parts = [list(x) for x in ref[1]]
                parts[-1][1] = [lit(k)]
                out.append(['assign', var(acc), ['b', '+', var(acc), ['b', '*', ['i', abs(k) + 1], ['d', parts]]]])
            continue
        subs = [var(lv[k]) for k in range(len(v['dims']))]
        parts = [list(x) for x in ref[1]]
        parts[-1][1] = subs
        weight = var(lv[0]) if len(subs) == 1 else ['b', '+', var(lv[0]), ['b', '*', ['i', 3], var(lv[1])]]
        stmt = ['assign', var(acc), ['b', '+', var(acc), ['b', '*', ['p', weight] if len(subs) > 1 else weight,
                                                            ['d', parts]]]]
        for k in range(len(subs)):
            lb, ub = v['dims'][k]
            stmt = ['do', lv[k], lit(lb), (var('n') if ub == 'n' else lit(ub)), None, [stmt], 'plain']
        out.append(stmt)
    return out


# ------------------------------------------------------------------ associate blocks
class A:
    """generation state for associate blocks"""

    def __init__(self, merge_safe, allow, force):
        self.merge_safe = merge_safe      # avoid merge-shadow / merge-loopdep triggers
        self.allow = set(allow)           # hazards that may be generated
        self.force = force                # hazard that must be injected once (sub-stream) or None
        self.adepth = 0
        self.certain = True
        self.top_loops = None             # loop variables active when the outermost associate was entered
        self.feats = set()
        self.avoided = []
        self.certain_depths = []
        self.counter = 0
        self.lb_ia = 0
        self.block_stack = []
        self.nblocks = 0

    def fresh(self):
        self.counter += 1
        return f'zz{self.counter}'


def sel_env(env, a):
    """env view used for subscripts inside selectors: only literals and admissible loop variables"""
    e = clone_env(env)
    if a.merge_safe and a.adepth >= 1 and a.top_loops is not None and 'merge-loopdep' not in a.allow:
        e.active_loops = {k: v for k, v in env.active_loops.items() if k in a.top_loops}
        if len(e.active_loops) < len(env.active_loops):
            a.avoided.append('merge-loopdep')
    return e


def sel_subscripts(g, se, name, a=None):
    """
    in-bounds subscripts for use inside a selector: non-negative literals, enclosing loop variables, loop
    variable + 1. (No '-', '/', negative literals: the loki frontend raises NotImplementedError/ValueError
    while deriving the shape of such selectors - a parse problem outside C29, reported as observation.)
    """
    v = se.vars[name]
    subs = []
    aliases = sorted(nm for nm, vv in se.vars.items() if vv.get('alias_n') and vv.get('aname'))
    if aliases and a is not None and a.merge_safe and a.adepth >= 1 and 'merge-subscript-dep' not in a.allow:
        # known finding merge-subscript-dep: do_merge_associates moves `z => b(p)` next to `p => n`
        a.avoided.append('merge-subscript-dep')
        aliases = []
    for d in v['dims']:
        lb, ubmin = B.dim_range(d)
        choices = ['lit'] * 2
        for lv, (lo, hi) in se.active_loops.items():
            if hi == 'n':
                if lo >= lb and (d[1] == 'n' or (isinstance(d[1], int) and d[1] >= B.NMAX)):
                    choices += ['loop:' + lv] * 3
                continue
            if lo >= lb and hi <= ubmin:
                choices += ['loop:' + lv] * 3
            elif lo + 1 >= lb and hi + 1 <= ubmin:
                choices.append('loopp1:' + lv)
        # an associate name of an enclosing block that denotes n (3 <= n <= NMAX)
        if lb <= se.nval_range[0] and (d[1] == 'n' or (isinstance(d[1], int) and d[1] >= se.nval_range[1])):
            for nm in aliases:
                choices += ['alias:' + nm] * 3
        c = g.pick(choices)
        if c == 'lit':
            subs.append(lit(g.i(max(lb, 0), ubmin)))
        elif c.startswith('loop:'):
            subs.append(var(c[5:]))
        elif c.startswith('alias:'):
            subs.append(var(c[6:]))
            if a is not None:
                a.feats.add('sel-subscript:assoc-name')
        else:
            subs.append(['b', '+', var(c[7:]), ['i', 1]])
    return subs


def sel_element(g, se, name, a=None):
    base = B.designator_for(se, name)
    parts = [list(x) for x in base[1]]
    parts[-1][1] = sel_subscripts(g, se, name, a)
    return ['d', parts]


def pick_selector(g, env, a):
    """returns (expr, entry-for-the-associate-name, feature) or None"""
    se = sel_env(env, a)
    names = [n for n, v in env.vars.items() if not v.get('fuel')]
    if not names:
        return None
    al = sorted(nm for nm, vv in se.vars.items() if vv.get('alias_n') and vv.get('aname'))
    if al and not (a.merge_safe and a.adepth >= 1 and 'merge-subscript-dep' not in a.allow):
        # element selector subscripted by an associate name of an enclosing block that denotes n
        lo, hi = se.nval_range
        elig = [m for m in names if not env.vars[m].get('dt') and env.vars[m]['dims'] and len(env.vars[m]['dims']) == 1
                and env.vars[m]['dims'][0][0] <= lo
                and (env.vars[m]['dims'][0][1] == 'n' or (isinstance(env.vars[m]['dims'][0][1], int) and env.vars[m]['dims'][0][1] >= hi))]
        if elig and g.chance(35):
            m = g.pick(elig)
            v = env.vars[m]
            base = B.designator_for(se, m)
            parts = [list(x) for x in base[1]]
            parts[-1][1] = [var(g.pick(al))]
            a.feats.add('sel-subscript:assoc-name')
            feat_src = ':component' if v.get('path') else (':assoc-of-assoc' if v.get('aname') else '')
            return ['d', parts], {'type': v['type'], 'dims': None, 'ro': v.get('ro', False)}, 'sel:elem' + feat_src
    kinds = ['scalar'] * 3 + ['elem'] * 3 + ['whole'] * 2 + ['section'] * 4 + ['alias-n'] * 2
    if not (a.merge_safe and a.adepth >= 1):
        # (do_merge_associates raises AttributeError on value selectors of nested blocks: expr.scope -> rejected_by_loki)
        kinds += ['expr']
    if any(v.get('dt') for v in env.vars.values()):
        kinds += ['dtype']
    k = g.pick(kinds)
    if k == 'alias-n':
        c = [n for n in names if n == 'n' or env.vars[n].get('alias_n')]
        if c:
            n = g.pick(c)
            v = env.vars[n]
            return B.designator_for(env, n), {'type': 'int', 'dims': None, 'ro': True, 'alias_n': True}, \
                ('sel:assoc-of-assoc' if v.get('aname') else 'sel:scalar')
        k = 'scalar'
    if k == 'dtype':
        c = [n for n in names if env.vars[n].get('dt')]
        n = g.pick(c)
        v = env.vars[n]
        return B.designator_for(env, n), {'type': v['type'], 'dims': None, 'ro': v.get('ro', False), 'dt': True}, 'sel:dtype'
    if k == 'expr':
        # value selector: only never-written operands
        ro = B.Env()
        ro.vars = {n: dict(v) for n, v in env.vars.items() if v.get('ro') and not v['dims'] and not v.get('aname')
                   and v['type'] in ('int', 'real')}
        if not ro.vars:
            k = 'scalar'
        else:
            # (operators restricted to + and *: the loki frontend raises NotImplementedError while deriving the
            #  shape of selectors that contain a subtraction / negative literal - a parse problem, not C29's)
            t = g.pick(sorted({v['type'] for v in ro.vars.values()}))
            names_t = [n for n, v in ro.vars.items() if v['type'] == t]

            def leaf():
                if g.chance(65):
                    return var(g.pick(names_t))
                return ['i', g.i(1, 5)] if t == 'int' else ['r', g.pick(B.DYADIC)]
            e = ['b', g.pick(['+', '*']), var(g.pick(names_t)), leaf()]
            if g.chance(30):
                e = ['b', g.pick(['+', '*']), e, leaf()]
            return e, {'type': t, 'dims': None, 'ro': True, 'value': True}, 'sel:expression'
    plain = [n for n in names if not env.vars[n].get('dt')]
    if not plain:
        return None
    if k == 'scalar':
        c = [n for n in plain if not env.vars[n]['dims']]
        if not c:
            return None
        n = g.pick(c)
        v = env.vars[n]
        feat = 'sel:component' if v.get('path') else ('sel:assoc-of-assoc' if v.get('aname') else 'sel:scalar')
        ent = {'type': v['type'], 'dims': None, 'ro': v.get('ro', False)}
        if n == 'n' or v.get('alias_n'):
            ent['alias_n'] = True      # the name denotes the argument n: usable as loop bound / selector subscript
        return B.designator_for(env, n), ent, feat
    c = [n for n in plain if env.vars[n]['dims']]
    if not c:
        return None
    n = g.pick(c)
    if k == 'section':
        # sections of rank-2 arrays (rank-reducing or not) would otherwise be rare among the many rank-1 components
        c2 = [m for m in c if len(env.vars[m]['dims']) > 1]
        if c2 and g.chance(45):
            n = g.pick(c2)
    if k == 'elem' and any(vv.get('alias_n') and vv.get('aname') for vv in se.vars.values()):
        # prefer an array that can be subscripted by an associate name denoting n
        lo, hi = se.nval_range
        elig = [m for m in c if any(dd[0] <= lo and (dd[1] == 'n' or (isinstance(dd[1], int) and dd[1] >= hi))
                                    for dd in env.vars[m]['dims'])]
        if elig and g.chance(80):
            n = g.pick(elig)
    v = env.vars[n]
    feat_src = ':component' if v.get('path') else (':assoc-of-assoc' if v.get('aname') else '')
    if k == 'elem':
        return sel_element(g, se, n, a), {'type': v['type'], 'dims': None, 'ro': v.get('ro', False)}, 'sel:elem' + feat_src
    if k == 'whole':
        ent = {'type': v['type'], 'dims': [list(d) for d in v['dims']], 'ro': v.get('ro', False)}
        if v.get('noopen'):
            ent['noopen'] = True
        return B.designator_for(env, n), ent, 'sel:whole' + feat_src
    # section selector
    subs, dims, partial = [], [], False
    rank = len(v['dims'])
    keep = g.i(0, rank - 1)          # this dimension is always a range
    for j, d in enumerate(v['dims']):
        lb, ubmin = B.dim_range(d)
        if j != keep and g.chance(50):
            subs.append(sel_subscripts(g, se, n, a)[j])
            continue
        forms = []
        if lb == 1:
            forms += ['full', 'to-k', 'one-k']
        elif lb < 1 <= ubmin:
            forms += ['one-k']                      # explicit 1:k inside the bounds: identity index mapping
            if 'sect-lb' in a.allow:
                forms += ['full-lb'] * 3
            else:
                a.avoided.append('sect-lb')
        else:
            if 'sect-lb' in a.allow:
                forms += ['full-lb']
            else:
                a.avoided.append('sect-lb')
        if 'sect-stride' in a.allow and ubmin - max(lb, 1) + 1 >= 3:
            forms += ['stride'] * 3
        if not forms:
            subs.append(sel_subscripts(g, se, n, a)[j])
            continue
        f = g.pick(forms)
        if f == 'full':
            subs.append(['rng', None, None, None])
            dims.append([1, d[1]])
            if v.get('noopen'):
                partial = True
        elif f in ('to-k', 'one-k'):
            kmax = ubmin
            kk = g.i(2, kmax) if kmax >= 2 else kmax
            subs.append(['rng', None if f == 'to-k' else lit(1), lit(kk), None])
            dims.append([1, kk])
            if d[1] == 'n' or kk < d[1] or lb != 1:
                partial = True      # (a section 1:k of a dimension lb:ub with lb < 1 is partial, too)
        elif f == 'full-lb':
            subs.append(['rng', None, None, None])
            dims.append([1, (ubmin - lb + 1) if d[1] != 'n' else 3])
            a.feats.add('hazard:sect-lb')
            if d[1] == 'n':
                partial = True
        else:
            lo = max(lb, 1) if lb <= 1 else lb
            lo_e = lit(1) if lo == 1 else None
            cnt = (ubmin - lo) // 2 + 1
            subs.append(['rng', lo_e, lit(lo + 2 * (cnt - 1)), lit(2)])
            dims.append([1, cnt])
            partial = True
            a.feats.add('hazard:sect-stride')
    if not dims:
        return sel_element(g, se, n, a), {'type': v['type'], 'dims': None, 'ro': v.get('ro', False)}, 'sel:elem' + feat_src
    base = B.designator_for(env, n)
    parts = [list(x) for x in base[1]]
    parts[-1][1] = subs
    ent = {'type': v['type'], 'dims': dims, 'ro': v.get('ro', False)}
    if partial:
        if 'open-range' in a.allow:
            a.feats.add('hazard:open-range-possible')
        else:
            ent['noopen'] = True
            a.avoided.append('open-range')
    feat = 'sel:section' + ('-rank-reduced' if len(dims) < rank else '') + feat_src
    return ['d', parts], ent, feat


def pick_name(g, env, a, taken, sel_expr):
    """fresh name or the name of a visible variable / associate name (shadowing)"""
    if g.chance(35):
        def mentioned(e, acc):
            if isinstance(e, list):
                if e and e[0] == 'd':
                    acc.add(e[1][0][0])
                    for part in e[1]:
                        for x in part[1] or []:
                            mentioned(x, acc)
                else:
                    for x in e:
                        mentioned(x, acc)
            return acc
        own = mentioned(sel_expr, set())
        cands = [n for n, v in env.vars.items()
                 if '%' not in n and not v.get('fuel') and not v.get('dt') and n != 'n' and n not in taken
                 and n not in own and not any(k.startswith(n + '%') for k in env.vars)
                 and not any(dd[1] == n for vv in env.vars.values() for dd in (vv['dims'] or []))]
        if cands:
            n = g.pick(cands)
            if a.merge_safe and a.adepth >= 1 and 'merge-shadow' not in a.allow:
                a.avoided.append('merge-shadow')
            else:
                a.feats.add('shadow:assoc-name' if env.vars[n].get('aname') else
                            ('shadow:argument' if env.vars[n].get('arg') else 'shadow:local'))
                return n
    return a.fresh()


def gen_assoc_block(g, env, depth, nstmts, a, must_nest=0):
    child = clone_env(env)
    pairs, new = [], {}
    if a.adepth == 0:
        a.top_loops = set(env.active_loops)
    for _ in range(g.i(1, 3)):
        r = pick_selector(g, env, a)
        if r is None:
            continue
        expr, ent, feat = r
        name = pick_name(g, env, a, set(new), expr)
        a.feats.add(feat)
        ent['aname'] = True
        pairs.append([name, expr])
        new[name] = ent
    if not pairs:
        return None
    if g.chance(30):
        # an associate name that denotes n: used as loop bound and selector subscript further down
        nm = a.fresh()
        pairs.append([nm, var('n')])
        new[nm] = {'type': 'int', 'dims': None, 'ro': True, 'alias_n': True, 'aname': True}
        a.feats.add('sel:scalar')
    if a.merge_safe and 'merge-rescope-selector' not in a.allow:
        # known finding merge-rescope-selector: do_merge_associates re-scopes the selectors of every block into the
        # block itself, so a selector that mentions a variable with the name of an associate name of the SAME
        # statement (`associate (a => b(:2), z => a(4))`, a(4) is the outer a) is later resolved through that name.
        # (no draws involved: the fresh name replaces the shadowing one in place)
        used = set()
        for _, sel in pairs:
            mentioned_names(sel, used)
        for pr in pairs:
            if pr[0] in used:
                nm = a.fresh()
                new = {(nm if k == pr[0] else k): v for k, v in new.items()}
                pr[0] = nm
                a.avoided.append('merge-rescope-selector')
    parent_bid = a.block_stack[-1] if a.block_stack else None
    if a.merge_safe and parent_bid is not None and 'merge-empties-inner' not in a.allow:
        # do_merge_associates moves every association that does not depend on the direct parent's names; a nested
        # block must keep at least one or an invalid 'ASSOCIATE ()' is left behind (known finding merge-empties-inner)
        def base(sel):
            return sel[1][0][0] if sel[0] == 'd' else None
        if not any(base(sel) in env.vars and env.vars[base(sel)].get('ablock') == parent_bid for _, sel in pairs):
            cands = [n for n, v in env.vars.items() if v.get('ablock') == parent_bid and '%' not in n]
            if not cands:
                a.avoided.append('merge-empties-inner')
                return None
            n = g.pick(cands)
            v = env.vars[n]
            if v.get('dt'):
                n = sorted(k for k, vv in env.vars.items() if k.startswith(n + '%') and not vv.get('dt') and not vv['dims'])[0]
                v = env.vars[n]
            nm = a.fresh()
            pairs.append([nm, B.designator_for(env, n)])
            new[nm] = {'type': v['type'], 'dims': [list(d) for d in v['dims']] if v['dims'] else None,
                       'ro': v.get('ro', False), 'aname': True}
            if v.get('noopen'):
                new[nm]['noopen'] = True
            a.feats.add('sel:assoc-of-assoc')
    a.nblocks += 1
    bid = a.nblocks
    sel_of = dict((nm, sel) for nm, sel in pairs)
    for name, ent in new.items():
        ent['ablock'] = bid
        ent['root'] = root_of(env, sel_of[name]) if sel_of[name][0] == 'd' else None
        drop_name(child, name)
        child.vars[name] = ent
        if ent.get('dt'):
            register_dtype(child, [[name, None]], ent['type'][5:], a.lb_ia, ent.get('ro', False), ent['root'])
    a.adepth += 1
    a.block_stack.append(bid)
    if a.certain:
        a.certain_depths.append(a.adepth)
    a.feats.add(f'nest:{a.adepth}')
    if env.active_loops:
        a.feats.add('assoc-in-loop')
    if not a.certain:
        a.feats.add('assoc-under-condition')
    body = gen_body(g, child, depth + 1, max(2, nstmts - 1), a)
    if must_nest > 0 and a.adepth < 3:
        # guaranteed nesting (executes whenever this block does)
        inner = gen_assoc_block(g, child, depth + 1, max(2, nstmts - 1), a, must_nest - 1)
        if inner is not None:
            pos = g.i(0, len(body))
            body = body[:pos] + [inner] + body[pos:]
    a.adepth -= 1
    a.block_stack.pop()
    if a.adepth == 0:
        a.top_loops = None
    return ['assoc', pairs, body]


def gen_do(g, env, depth, nstmts, a):
    lv = B.free_loopvar(env)
    if lv is None:
        return None
    lo = g.i(1, 3)
    trip = g.i(0, 3) if g.chance(10) else g.i(1, 3)
    use_n = lo == 1 and g.chance(30)
    if not use_n and any(vv.get('alias_n') and vv.get('aname') for vv in env.vars.values()) and g.chance(45):
        lo, use_n = 1, True      # loop up to an associate name that denotes n (see below)
    if use_n:
        env.active_loops[lv] = (1, 'n')
        hi_e = var('n')
        aliases = sorted(nm for nm, vv in env.vars.items() if vv.get('alias_n') and vv.get('aname'))
        if aliases and g.chance(85):
            hi_e = var(g.pick(aliases))
            a.feats.add('loop-bound:assoc-name')
        trip = 3
    else:
        hi = lo + trip - 1
        env.active_loops[lv] = (lo, max(lo, hi))
        hi_e = lit(hi)
    was = a.certain
    a.certain = was and trip >= 1
    body = gen_body(g, env, depth + 1, max(1, nstmts - 1), a, in_loop=True)
    a.certain = was
    del env.active_loops[lv]
    return ['do', lv, lit(lo), hi_e, None, body, g.pick(['plain', 'plain', 'named'])]


def gen_if(g, env, depth, nstmts, a):
    was = a.certain
    a.certain = False
    branches = [[B.log_expr(g, env, 2), gen_body(g, env, depth + 1, max(1, nstmts // 2), a)] for _ in range(g.i(1, 2))]
    els = gen_body(g, env, depth + 1, max(1, nstmts // 2), a) if g.chance(50) else None
    a.certain = was
    return ['if', branches, els]


def gen_stmt(g, env, depth, nstmts, a, in_loop=False):
    kinds = ['assign'] * 6 + ['base'] * 2
    if depth < g.p['max_depth']:
        kinds += ['do'] * 2 + ['if'] * 2
    if a.adepth < 3 and depth < g.p['max_depth'] + 1:
        kinds += ['assoc'] * (5 if a.adepth == 0 else 3)
    if env.subs:
        kinds += ['call'] * 2
    c = g.pick(kinds)
    r = None
    if c == 'assoc':
        r = gen_assoc_block(g, env, depth, nstmts, a)
    elif c == 'do':
        r = gen_do(g, env, depth, nstmts, a)
    elif c == 'if':
        r = gen_if(g, env, depth, nstmts, a)
    elif c == 'call':
        r = B.gen_call(g, env)
        if r is not None and a.adepth:
            a.feats.add('call-inside-assoc')
    elif c == 'base':
        # any other statement kind of the base generator (select, where, one-line if, ...), without associates inside
        sub = dict(g.p, max_depth=min(g.p['max_depth'], depth + 1))
        return [no_alias_overlap(env, a, st_, True) for st_ in B.gen_stmt(B.G(g.draw, sub), env, depth, 2, in_loop=False)]
    if r is None:
        r = B.gen_assign(g, env)
    if r is None:
        r = ['comment', ' nothing to assign']
    return [no_alias_overlap(env, a, r)]


def no_alias_overlap(env, a, stmt, whole=False):
    # whole=True: a (possibly compound) statement of the base generator, no ASSOCIATE inside: judged as a whole;
    # the DO/IF constructs of this module are judged statement by statement while their bodies are generated
    if a.adepth and (whole or stmt[0] not in ('assoc', 'do', 'if')) and alias_overlap(env, stmt):
        a.avoided.append('ref:gfortran-misses-overlap-through-associate-name')
        return ['comment', ' (statement with overlapping aliases not generated)']
    return stmt


def gen_body(g, env, depth, nstmts, a, in_loop=False):
    out = []
    for _ in range(g.i(1, max(1, nstmts))):
        out += gen_stmt(g, env, depth, nstmts, a, in_loop=in_loop)
    return out


# ------------------------------------------------------------------ hazard templates (sub-streams)
def hazard_block(g, env, a, tag):
    """
    a small block that contains exactly the known-finding trigger ``tag`` and makes its effect observable
    in yi0. Uses the dedicated local arrays hza(0:4) (lower bound 0) and hzb(6).
    """
    v1, v2 = g.i(2, 9), g.i(11, 19)
    obs = lambda arr, idx: ['assign', var('yi0'), ['b', '+', var('yi0'), ['b', '*', ['i', idx + 2], B.elem(arr, lit(idx))]]]
    if tag == 'sect-lb':
        k = g.i(1, 3)
        body = [['assign', B.elem('zh', lit(k)), ['b', '+', lit(v1), var('xi0')]]]
        if g.chance(50):
            body.append(['assign', var('yi0'), ['b', '+', var('yi0'), B.elem('zh', lit(k + 1))]])
        blk = ['assoc', [['zh', ['d', [['hza', [['rng', None, None if g.chance(60) else lit(4), None]]]]]]], body]
        return [blk] + [obs('hza', i) for i in range(0, 5)]
    if tag == 'sect-stride':
        k = g.i(2, 3)
        lo = None if g.chance(50) else lit(1)
        body = [['assign', B.elem('zh', lit(k)), ['b', '+', lit(v1), var('xi0')]]]
        blk = ['assoc', [['zh', ['d', [['hzb', [['rng', lo, lit(5), lit(2)]]]]]]], body]
        return [blk] + [obs('hzb', i) for i in range(1, 7)]
    if tag == 'open-range':
        k = g.i(2, 4)
        rng = g.pick([['rng', None, None, None], ['rng', lit(2), None, None], ['rng', None, lit(k), None]])
        if rng[2] is not None and rng[2][1] >= k:
            rng = ['rng', None, None, None]
        body = [['assign', ['d', [['zh', [rng]]]], ['b', '+', lit(v2), var('xi0')]]]
        blk = ['assoc', [['zh', ['d', [['hzb', [['rng', lit(1) if g.chance(50) else None, lit(k), None]]]]]]], body]
        return [blk] + [obs('hzb', i) for i in range(1, 7)]
    if tag == 'merge-shadow':
        # the nested associate name 'hzs' is a local scalar that the parent block still uses
        inner = ['assoc', [['hzs', B.elem('hzb', lit(g.i(1, 6)))], ['zk', var('zh')]],
                 [['assign', var('hzs'), ['b', '+', lit(v2), var('xi0')]], ['assign', var('zk'), ['b', '+', var('zk'), ['i', 1]]]]]
        before = ['assign', var('hzs'), ['b', '+', lit(v1), var('xi0')]]
        after = ['assign', var('yi0'), ['b', '+', var('yi0'), ['b', '*', ['i', 3], var('hzs')]]]
        order = [before, inner, after] if g.chance(50) else [inner, before, after]
        blk = ['assoc', [['zh', B.elem('hza', lit(g.i(0, 4)))]], [['assign', var('zh'), lit(v1)]] + order]
        return [['assign', var('hzs'), lit(1)], blk, ['assign', var('yi0'), ['b', '+', var('yi0'), var('hzs')]]] + \
            [obs('hzb', i) for i in range(1, 7)]
    if tag == 'merge-loopdep':
        lv = env.loopvars[0]
        inner = ['assoc', [['zq', B.elem('hzb', var(lv))], ['zk', var('zh')]],
                 [['assign', var('zq'), ['b', '+', var(lv), var('xi0')]], ['assign', var('zk'), ['b', '+', var('zk'), ['i', 1]]]]]
        loop = ['do', lv, lit(1), lit(g.i(2, 5)), None, [inner], 'plain']
        blk = ['assoc', [['zh', B.elem('hza', lit(g.i(0, 4)))]], [['assign', var('zh'), lit(v1)], loop]]
        return [blk] + [obs('hzb', i) for i in range(1, 7)]
    if tag == 'merge-empties-inner':
        inner = ['assoc', [['zq', B.elem('hzb', lit(g.i(1, 6)))]], [['assign', var('zq'), ['b', '+', lit(v2), var('xi0')]]]]
        blk = ['assoc', [['zh', B.elem('hza', lit(g.i(0, 4)))]], [['assign', var('zh'), lit(v1)], inner]]
        return [blk] + [obs('hzb', i) for i in range(1, 7)]
    if tag == 'merge-subscript-dep':
        # the subscript of the nested selector is an associate name of the parent block; the local variable of the
        # same name has another value
        inner = ['assoc', [['zq', B.elem('hzb', var('hzs'))], ['zk', var('zh')]],
                 [['assign', var('zq'), ['b', '+', lit(v2), var('xi0')]], ['assign', var('zk'), ['b', '+', var('zk'), ['i', 1]]]]]
        blk = ['assoc', [['hzs', var('n')], ['zh', B.elem('hza', lit(g.i(0, 4)))]], [['assign', var('zh'), lit(v1)], inner]]
        return [['assign', var('hzs'), lit(1)], blk] + [obs('hzb', i) for i in range(1, 7)]
    if tag == 'merge-rescope-selector':
        # `zq => hzs` denotes the local variable hzs although `hzs` is also an associate name of the same statement
        blk = ['assoc', [['hzs', B.elem('hzb', lit(g.i(1, 6)))], ['zq', var('hzs')]],
               [['assign', var('zq'), ['b', '+', lit(v2), var('xi0')]], ['assign', var('hzs'), lit(v1)]]]
        return [['assign', var('hzs'), lit(1)], blk, ['assign', var('yi0'), ['b', '+', var('yi0'), ['b', '*', ['i', 3], var('hzs')]]]] + \
            [obs('hzb', i) for i in range(1, 7)]
    raise ValueError(tag)


# ------------------------------------------------------------------ transformations to apply
def gen_xforms(g, stream, hazard):
    if hazard in ('sect-lb', 'sect-stride', 'open-range'):
        return [{'entry': 'do_resolve_associates', 'start_depth': 0}]
    if hazard == 'merge-rescope-selector':
        return [{'entry': 'AssociatesTransformation', 'resolve_associates': True, 'merge_associates': True,
                 'start_depth': 0, 'max_parents': None}]
    if hazard in ('merge-shadow', 'merge-loopdep', 'merge-empties-inner', 'merge-subscript-dep'):
        return [{'entry': 'do_merge_associates', 'max_parents': None}]

    def resolve(d):
        return {'entry': 'do_resolve_associates', 'start_depth': d}

    def at(res, mer, d, mp):
        return {'entry': 'AssociatesTransformation', 'resolve_associates': res, 'merge_associates': mer,
                'start_depth': d, 'max_parents': mp}

    # several variants per program: the original is generated, compiled and run once for all of them
    if stream == 'resolve':
        d = g.pick([1, 2])
        out = [resolve(0), resolve(d), at(True, False, g.i(0, 2), None)]
        if g.chance(50):
            out.append(resolve(3 - d))
    else:
        out = [{'entry': 'do_merge_associates', 'max_parents': g.pick([None, None, 1, 2])},
               at(True, True, g.i(0, 2), g.pick([None, 1, 2])),
               at(False, True, 0, g.pick([None, 1])),
               resolve(g.i(0, 1))]
    return out


@st.composite
def minimal_cases(draw, hazard, nvec=4):
    """bare-bones program around the known-finding template ``hazard`` (for minimal replay files)"""
    g = B.G(draw, dict(STMT_PROFILE))
    a = A(merge_safe=True, allow=[], force=hazard)
    env = B.Env()
    args, decls, entry_args, prologue = small_entry(g, env, [], nint=0, nreal=0, nlog=0, logical_arg=False)
    decls += [decl('hza', 'int', dims=[[0, 4]]), decl('hzb', 'int', dims=[[1, 6]]), decl('hzs', 'int')]
    prologue += [['assign', var('hza'), lit(g.i(1, 5))], ['assign', var('hzb'), lit(g.i(1, 5))], ['assign', var('hzs'), lit(0)]]
    body = hazard_block(g, env, a, hazard)
    used = mentioned_names(body) | {'n'}
    decls = [d for d in decls if d['name'] in used or d.get('intent')]
    prologue = [st_ for st_ in prologue if st_[1][1][0][0] in used]
    kern = routine('kernel', args, decls, prologue + body)
    f = {'name': 'kmod.f90', 'units': [['module', module('kmod', routines=[kern])]]}
    return {'files': [f], 'entry': {'module': 'kmod', 'name': 'kernel', 'args': entry_args},
            'inputs': B.gen_inputs(g, entry_args, nvec), 'layout': {'stream': [0], 'indent': 2}, 'driver': {},
            'xforms': gen_xforms(g, 'hazard', hazard), 'hazards': [hazard],
            'hz_paths': [len(prologue) + i for i in range(len(body))], 'avoided': [], 'feats': [],
            'certain_depths': [1, 2] if hazard.startswith('merge') else [1]}


@st.composite
def cases(draw, hazard=None, nvec=4):
    """hazard=None: main stream (no known-finding trigger); otherwise the sub-stream for that trigger"""
    prof = dict(STMT_PROFILE)
    g = B.G(draw, prof)
    stream = 'hazard' if hazard else g.pick(['resolve', 'mixed', 'mixed'])
    xforms = gen_xforms(g, stream, hazard)
    merge_safe = any(x['entry'] == 'do_merge_associates' or x.get('merge_associates') for x in xforms)
    a = A(merge_safe=merge_safe, allow=[h for h in HAZARDS if h not in EXCLUDED_TRIGGERS], force=hazard)
    a.lb_ia = g.pick([1, 1, 0, 2])

    # ---- arrays shared with helper subroutines, helpers, entry ----
    arr_decls = []
    for k in range(2):
        t = g.pick(['int', 'real', 'real'])
        if g.chance(40):
            dims = [[1, 'n']]
        elif g.chance(35):
            lb = g.pick([1, 1, 0])
            dims = [[lb, lb + 2], [1, g.pick([2, 3])]]
        else:
            lb = g.pick([1, 1, 0, 2, -1])
            dims = [[lb, lb + g.i(3, 5) - 1]]
        arr_decls.append((t, dims, 'in' if k == 0 else g.pick(['inout', 'inout', 'out'])))
    shapes = [(t, d) for t, d, _ in arr_decls]
    funcs_r, funcs, subs_r, subs = [], [], [], []
    for k in range(g.i(0, 1)):
        r, sig = B.gen_helper_function(g, k, None)
        funcs_r.append(r)
        funcs.append(sig)
    hp = dict(prof, sections=True, where=False, select=False)
    for k in range(g.i(0, 1)):
        r, sig = B.gen_helper_sub(B.G(draw, hp), k, funcs, shapes)
        subs_r.append(r)
        subs.append(sig)
    env = B.Env()
    larr = []
    if g.chance(70):
        t = g.pick(['int', 'real'])
        lb = g.pick([1, 1, 0, 2])
        larr.append((f'l{"ia" if t == "int" else "ra"}0', t,
                     [[lb, lb + g.i(2, 4) if g.chance(75) else max(B.NMAX, lb + 2)]] if g.chance(70) else [[lb, lb + 1], [1, 2]]))
    args, decls, entry_args, prologue = small_entry(g, env, arr_decls, funcs, subs, nint=g.i(1, 2), nreal=1,
                                                    nlog=g.i(0, 1), local_arrays=larr)

    # ---- derived-type objects: argument ta (inout), locals tl (tin) and tw (tout) ----
    args.append('ta')
    dta = decl('ta', 'type:tin', intent='inout')
    decls.insert(len(entry_args), dta)
    for nm, tn in (('tl', 'tin'), ('tw', 'tout')):
        decls.append(decl(nm, 'type:' + tn))
    for nm, tn in (('ta', 'tin'), ('tl', 'tin'), ('tw', 'tout')):
        env.vars[nm] = {'type': 'type:' + tn, 'dims': None, 'dt': True, 'path': [[nm, None]]}
        register_dtype(env, [[nm, None]], tn, a.lb_ia)
    for nm, v in list(env.vars.items()):
        if v.get('path') and not v.get('dt') and not nm.startswith('ta%'):
            prologue.append(['assign', B.designator_for(env, nm), B.init_value(g, v['type'])])

    # ---- dedicated arrays of the known-finding templates ----
    body_hz, hz_paths = [], []
    if hazard:
        decls += [decl('hza', 'int', dims=[[0, 4]]), decl('hzb', 'int', dims=[[1, 6]]), decl('hzs', 'int')]
        prologue += [['assign', var('hza'), lit(g.i(1, 5))], ['assign', var('hzb'), lit(g.i(1, 5))],
                     ['assign', var('hzs'), lit(0)]]
        body_hz = hazard_block(g, env, a, hazard)

    body_main = gen_body(g, env, 0, 5, a)
    if not hazard:
        # merging and partial-depth resolution need nested blocks that certainly execute
        want = 2 if (merge_safe or g.chance(60)) else 1
        if g.chance(35):
            want += 1
        if max(a.certain_depths or [0]) < want:
            blk = gen_assoc_block(g, env, 0, 3, a, must_nest=want - 1)
            if blk is not None:
                body_main.insert(g.i(0, len(body_main)), blk)
    if hazard:
        pos = g.i(0, len(body_main))
        hz_paths = [len(prologue) + pos + i for i in range(len(body_hz))]
        body_main = body_main[:pos] + body_hz + body_main[pos:]
        if hazard.startswith('merge'):
            a.certain_depths += [1, 2]
        else:
            a.certain_depths += [1]
    epi = checksum_epilogue(env, env.loopvars)
    kern = routine('kernel', args, decls, prologue + body_main + epi)
    mod = module('kmod', routines=funcs_r + subs_r + [kern], types=typedefs(a.lb_ia))
    f = {'name': 'kmod.f90', 'units': [['module', mod]]}
    inputs = B.gen_inputs(g, entry_args, nvec)
    layout = B.gen_layout(g, g.pick(['plain', 'plain', 'light']))
    ia_n = 3
    driver = {
        'extra_uses': ['kmod, only: tin'],
        'pre_call': ['  ta%s = 2*xi0 - 1', '  ta%r = 0.5d0*xr0 + 1.0d0',
                     '  ta%ia = xi0 + [' + ', '.join(str(i) for i in range(1, ia_n + 1)) + ']',
                     '  ta%ra = [xr0, 0.25d0, -xr0, 1.5d0]'],
        'post_call': ["  print '(A,*(1X,I0))', 'ta%s', ta%s, ta%ia",
                      "  print '(A,*(1X,ES24.16E3))', 'ta%r', ta%r, ta%ra"],
    }
    return {'files': [f], 'entry': {'module': 'kmod', 'name': 'kernel', 'args': entry_args + [dta]},
            'inputs': inputs, 'layout': layout, 'driver': driver,
            'xforms': xforms, 'hazards': [hazard] if hazard else [], 'hz_paths': hz_paths,
            'avoided': sorted(set(a.avoided)), 'feats': sorted(a.feats),
            'certain_depths': sorted(set(a.certain_depths))}


# ------------------------------------------------------------------ ablation (root-cause narrowing)
def mentioned_names(x, acc=None):
    """base names of all designators / loop variables occurring in a statement or expression tree"""
    acc = set() if acc is None else acc
    if isinstance(x, list):
        if x and x[0] == 'd' and len(x) == 2 and isinstance(x[1], list):
            acc.add(x[1][0][0])
            for part in x[1]:
                for sub in part[1] or []:
                    mentioned_names(sub, acc)
            return acc
        if x and x[0] == 'do' and isinstance(x[1], str):
            acc.add(x[1])
        if x and x[0] == 'call' and isinstance(x[1], str):
            acc.add(x[1])
        for y in x:
            mentioned_names(y, acc)
    elif isinstance(x, dict):
        for y in x.values():
            mentioned_names(y, acc)
    return acc


def kernel_of(case):
    for kind, u in case['files'][0]['units']:
        if kind == 'module':
            for r in u['routines']:
                if r['name'] == case['entry']['name']:
                    return r
    raise KeyError('kernel')


def copy_case(case):
    import json
    return json.loads(json.dumps(case))


def stmt_features(s):
    """coarse features of one kernel statement (recursively) for feature ablation"""
    from .model import walk_stmts
    feats = set()
    for _, t in walk_stmts([s]):
        if t[0] != 'assoc':
            continue
        for name, sel in t[1]:
            if sel[0] != 'd':
                feats.add('expression-selector')
                continue
            last = sel[1][-1]
            if len(sel[1]) > 1:
                feats.add('component-selector')
            if last[1] is None:
                feats.add('whole-object-selector')
            elif any(isinstance(x, list) and x and x[0] == 'rng' for x in last[1]):
                feats.add('section-selector')
            else:
                feats.add('element-selector')
            if not name.startswith('zz') and name not in ('zh', 'zq'):
                feats.add('shadowing-name')
        if any(x[0] == 'assoc' for _, x in walk_stmts(t[2])):
            feats.add('nested-associate')
        if any(x[0] == 'call' for _, x in walk_stmts(t[2])):
            feats.add('call-in-associate')
    return feats


def ablations(case):
    """[(feature, case-with-every-top-level-kernel-statement-having-that-feature neutralised)]"""
    k = kernel_of(case)
    per = [stmt_features(s) for s in k['body']]
    allf = sorted(set().union(*per)) if per else []
    out = []
    for f in allf:
        c = copy_case(case)
        kb = kernel_of(c)['body']
        for i, fs in enumerate(per):
            if f in fs:
                kb[i] = ['comment', ' ablated']
        out.append((f, c))
    return out


def ablate_hazard(case):
    """the case with the injected known-finding block neutralised"""
    c = copy_case(case)
    kb = kernel_of(c)['body']
    for i in case.get('hz_paths') or []:
        if i < len(kb):
            kb[i] = ['comment', ' ablated']
    return c
