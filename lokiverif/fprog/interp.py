"""
Reference interpreter for FProg programs (no loki import).

* Fortran integer semantics (truncating division, mod/modulo, integer power), REAL(8) as Python
  float, logicals; array assignment with the right-hand side fully evaluated before any store;
  WHERE masks; SELECT CASE; argument association by reference; host association for internal
  procedures; module parameters.
* Rejects undefined behaviour (``UB``): undefined read, out-of-bounds subscript, zero divisor,
  32-bit integer overflow, modifying an active DO variable.
* Optionally records a *trace*: every read/write of every storage element together with the stack
  of statement executions and loop iterations it happened in (see ``Trace``); this is the ground
  truth for the dataflow properties (C26/C27) and cannot be obtained from a compiler.
"""
import math

INT_MAX = 2 ** 31 - 1


class UB(Exception):
    """the program has undefined behaviour on this input"""


class Unsupported(Exception):
    """construct outside the interpreter's subset (harness limitation, not a verdict)"""


class _Exit(Exception):
    def __init__(self, target=None):
        super().__init__()
        self.target = target     # None = innermost loop, else the DO variable of the targeted named loop


class _Cycle(Exception):
    def __init__(self, target=None):
        super().__init__()
        self.target = target


class _Return(Exception):
    pass


class Cell:
    """storage of one variable (scalar: data[()]; array: data[index tuple])"""
    _n = 0

    def __init__(self, type_, bounds=None, name='?'):
        Cell._n += 1
        self.id = Cell._n
        self.type = type_
        self.bounds = bounds          # None or [(lb, ub), ...]
        self.data = {}
        self.name = name

    @property
    def is_array(self):
        return self.bounds is not None

    def indices(self):
        if not self.bounds:
            return [()]
        return [tuple(lb + q for (lb, _), q in zip(self.bounds, p))
                for p in positions(tuple(ub - lb + 1 for lb, ub in self.bounds))]


def positions(shape):
    """0-based positions in array element order (first index fastest)"""
    import itertools
    return [tuple(reversed(t)) for t in itertools.product(*[range(e) for e in reversed(shape)])]


class ElemRef:
    """a scalar dummy associated with one array element (or any designator location)"""

    def __init__(self, cell, idx):
        self.cell, self.idx = cell, idx
        self.type = cell.type
        self.bounds = None
        self.id = cell.id
        self.name = cell.name

    @property
    def is_array(self):
        return False


class Trace:
    """event log: (kind 'r'|'w', cell id, element index tuple, context id)"""

    def __init__(self):
        self.events = []
        self.ctx_table = []
        self.ctx_index = {}
        self.stack = []
        self.exec_counter = {}
        self.frames = {}       # frame id -> dict(routine=name, names={cell id: set(names)})

    def ctx_id(self):
        key = tuple(self.stack)
        i = self.ctx_index.get(key)
        if i is None:
            i = len(self.ctx_table)
            self.ctx_table.append(key)
            self.ctx_index[key] = i
        return i

    def push_stmt(self, frame_id, path):
        k = ('s', frame_id, path)
        n = self.exec_counter.get(k, 0) + 1
        self.exec_counter[k] = n
        self.stack.append(('s', frame_id, path, n))

    def push_iter(self, frame_id, path, exec_no, it):
        self.stack.append(('i', frame_id, path, exec_no, it))

    def pop(self):
        self.stack.pop()

    def read(self, cell_id, idx):
        self.events.append(('r', cell_id, idx, self.ctx_id()))

    def write(self, cell_id, idx):
        self.events.append(('w', cell_id, idx, self.ctx_id()))


class Frame:
    _n = 0

    def __init__(self, routine, host=None, module_vars=None):
        Frame._n += 1
        self.id = Frame._n
        self.routine = routine
        self.vars = {}
        self.host = host
        self.module_vars = module_vars or {}
        self.active_do = set()
        self.assoc = {}

    def lookup(self, name):
        name = name.lower()
        f = self
        while f is not None:
            if name in f.vars:
                return f.vars[name]
            f = f.host
        if name in self.module_vars:
            return self.module_vars[name]
        raise Unsupported(f'unknown variable {name}')


class ArrVal:
    """array-valued expression: shape (extents) + element function over 0-based positions"""

    def __init__(self, shape, fn):
        self.shape = tuple(shape)
        self.fn = fn

    def positions(self):
        return positions(self.shape)


def fdiv(a, b):
    if isinstance(a, int) and isinstance(b, int) and not isinstance(a, bool):
        if b == 0:
            raise UB('integer division by zero')
        q = abs(a) // abs(b)
        return q if (a >= 0) == (b >= 0) else -q
    if b == 0:
        raise UB('real division by zero')
    return a / b


def chk_int(v):
    if isinstance(v, int) and not isinstance(v, bool) and abs(v) > INT_MAX:
        raise UB('integer overflow')
    if isinstance(v, float) and (math.isinf(v) or math.isnan(v)):
        raise UB('floating-point overflow/invalid')
    return v


def ipow(a, n):
    if n < 0:
        if isinstance(a, int):
            if a == 0:
                raise UB('0**negative')
            return fdiv(1, ipow(a, -n))
        return 1.0 / ipow(a, -n)
    r = 1 if isinstance(a, int) else 1.0
    # same association as gfortran's expansion for small exponents: x*x, x*x*x ...
    base = a
    e = n
    result = None
    # binary exponentiation (what __builtin_powi does)
    while e:
        if e & 1:
            result = base if result is None else chk_int(result * base)
        e >>= 1
        if e:
            base = chk_int(base * base)
    return r if result is None else result


class Interp:
    def __init__(self, files, trace=False, max_steps=200000):
        self.modules = {}
        self.free_routines = {}
        for f in files:
            for kind, u in f['units']:
                if kind == 'module':
                    self.modules[u['name'].lower()] = u
                elif kind == 'routine':
                    self.free_routines[u['name'].lower()] = u
        self.trace = Trace() if trace else None
        self.output = []
        self.steps = 0
        self.max_steps = max_steps
        self.module_vars = {}
        for m in self.modules.values():
            mv = {}
            fr = Frame(None, module_vars=mv)
            for d in m.get('decls') or []:
                c = Cell(d['type'], None, d['name'])
                if d.get('param') is not None:
                    c.data[()] = self.eval(d['param'], fr)
                mv[d['name'].lower()] = c
            self.module_vars[m['name'].lower()] = mv

    # ------------------------------------------------------------ lookup of procedures
    def find_routine(self, name, frame):
        name = name.lower()
        f = frame
        while f is not None and f.routine is not None:
            for c in f.routine.get('contains') or []:
                if c['name'].lower() == name:
                    return c, f, None
            f = f.host
        for mname, m in self.modules.items():
            for r in m['routines']:
                if r['name'].lower() == name:
                    return r, None, mname
        if name in self.free_routines:
            return self.free_routines[name], None, None
        return None, None, None

    # ------------------------------------------------------------ storage access
    def rd(self, cell, idx):
        if isinstance(cell, ElemRef):
            cell, idx = cell.cell, cell.idx
        if cell.bounds is not None:
            for (lb, ub), i in zip(cell.bounds, idx):
                if i < lb or i > ub:
                    raise UB(f'subscript {idx} out of bounds of {cell.name}{cell.bounds}')
        if self.trace:
            self.trace.read(cell.id, idx)
        v = cell.data.get(idx)
        if v is None:
            raise UB(f'read of undefined {cell.name}{idx}')
        return v

    def wr(self, cell, idx, val):
        if isinstance(cell, ElemRef):
            cell, idx = cell.cell, cell.idx
        if cell.bounds is not None:
            for (lb, ub), i in zip(cell.bounds, idx):
                if i < lb or i > ub:
                    raise UB(f'subscript {idx} out of bounds of {cell.name}{cell.bounds}')
        if cell.type == 'int':
            if isinstance(val, float):
                val = int(val)
            chk_int(val)
        elif cell.type == 'real':
            val = float(val)
            chk_int(val)
        if self.trace:
            self.trace.write(cell.id, idx)
        cell.data[idx] = val

    # ------------------------------------------------------------ expressions
    def shape_of_cell(self, cell):
        return tuple(ub - lb + 1 for lb, ub in cell.bounds)

    def designator(self, e, frame):
        """returns ('scalar', cell, idx) or ('array', cell, [per-dim spec]) where spec = int | (lo, hi, step)"""
        parts = e[1]
        if len(parts) != 1:
            raise Unsupported('derived-type component access')
        name, subs = parts[0]
        lname = name.lower()
        # an associate name of an enclosing ASSOCIATE construct (whole-variable selectors only) aliases the selector's cell
        cell = frame.assoc[lname] if lname in frame.assoc else frame.lookup(name)
        if not cell.is_array:
            if subs:
                raise Unsupported(f'subscripted scalar {name}')
            return ('scalar', cell, ())
        if subs is None:
            return ('array', cell, [(lb, ub, 1) for lb, ub in cell.bounds])
        specs = []
        is_section = False
        for s, (lb, ub) in zip(subs, cell.bounds):
            if isinstance(s, list) and s and s[0] == 'rng':
                lo = lb if s[1] is None else self.eval(s[1], frame)
                hi = ub if s[2] is None else self.eval(s[2], frame)
                st = 1 if len(s) < 4 or s[3] is None else self.eval(s[3], frame)
                if st == 0:
                    raise UB('zero stride')
                specs.append((lo, hi, st))
                is_section = True
            else:
                v = self.eval(s, frame)
                if isinstance(v, ArrVal):
                    raise Unsupported('vector subscript')
                specs.append(v)
        if not is_section:
            return ('scalar', cell, tuple(specs))
        return ('array', cell, specs)

    def section_val(self, cell, specs):
        dims = []
        for sp in specs:
            if isinstance(sp, tuple):
                lo, hi, st = sp
                n = max(0, (hi - lo + st) // st) if st > 0 else max(0, (lo - hi - st) // (-st))
                dims.append((lo, st, n))
        shape = tuple(n for _, _, n in dims)

        def index(pos):
            idx, k = [], 0
            for sp in specs:
                if isinstance(sp, tuple):
                    lo, st, n = dims[k]
                    idx.append(lo + pos[k] * st)
                    k += 1
                else:
                    idx.append(sp)
            return tuple(idx)
        return shape, index

    def eval(self, e, frame):
        self.steps += 1
        if self.steps > self.max_steps:
            raise Unsupported('step limit')
        k = e[0]
        if k == 'i':
            return e[1]
        if k == 'r':
            return float(e[1])
        if k == 'l':
            return bool(e[1])
        if k == 's':
            return e[1]
        if k == 'p':
            return self.eval(e[1], frame)
        if k == 'd':
            kind, cell, where = self.designator(e, frame)
            if kind == 'scalar':
                return self.rd(cell, where)
            shape, index = self.section_val(cell, where)
            return ArrVal(shape, lambda pos, c=cell, ix=index: self.rd(c, ix(pos)))
        if k == 'u':
            v = self.eval(e[2], frame)
            if e[1] == '-':
                return self.elementwise(lambda a: chk_int(-a), v)
            if e[1] == '+':
                return v
            return self.elementwise(lambda a: not a, v)
        if k == 'b':
            op = e[1]
            a = self.eval(e[2], frame)
            b = self.eval(e[3], frame)
            return self.elementwise(BINOPS[op], a, b)
        if k == 'f':
            return self.call_function(e, frame)
        raise Unsupported(f'expression {k}')

    def elementwise(self, fn, *vals):
        arrs = [v for v in vals if isinstance(v, ArrVal)]
        if not arrs:
            return fn(*vals)
        shape = arrs[0].shape
        for a in arrs[1:]:
            if a.shape != shape:
                raise UB(f'non-conformable shapes {a.shape} vs {shape}')
        return ArrVal(shape, lambda pos: fn(*[v.fn(pos) if isinstance(v, ArrVal) else v for v in vals]))

    def call_function(self, e, frame):
        name = e[1].lower()
        args = e[2]
        if name in ('size', 'lbound', 'ubound'):
            kind, cell, where = self.designator(args[0], frame)
            if kind != 'array':
                raise Unsupported(f'{name} of scalar')
            shape, _ = self.section_val(cell, where)
            whole = args[0][1][0][1] is None
            if len(args) > 1:
                d = self.eval(args[1], frame) - 1
                if name == 'size':
                    return shape[d]
                if name == 'lbound':
                    return cell.bounds[d][0] if whole else 1
                return cell.bounds[d][1] if whole else shape[d]
            if name == 'size':
                n = 1
                for s in shape:
                    n *= s
                return n
            raise Unsupported(f'{name} without dim')
        if name in ('sum', 'maxval', 'minval', 'product', 'any', 'all', 'count'):
            v = self.eval(args[0], frame)
            if not isinstance(v, ArrVal):
                raise Unsupported(f'{name} of scalar')
            vals = [v.fn(p) for p in v.positions()]
            if name == 'sum':
                r = 0 if not vals or isinstance(vals[0], int) else 0.0
                for x in vals:
                    r = chk_int(r + x)
                return r
            if name == 'product':
                r = 1
                for x in vals:
                    r = chk_int(r * x)
                return r
            if name == 'any':
                return any(vals)
            if name == 'all':
                return all(vals)
            if name == 'count':
                return sum(1 for x in vals if x)
            if not vals:
                raise Unsupported('maxval/minval of empty array')
            return max(vals) if name == 'maxval' else min(vals)
        if name in INTRINSICS:
            vals = [self.eval(a, frame) for a in args]
            if name == 'real' or name == 'int':
                vals = vals[:1]
            return self.elementwise(INTRINSICS[name], *vals)
        if name == 'present':
            try:
                frame.lookup(args[0][1][0][0])
                return True
            except Unsupported:
                return False
        # user function
        r, host, mname = self.find_routine(name, frame)
        if r is None:
            # statement function?
            for sf in (frame.routine.get('stmtfuncs') or []):
                if sf[0].lower() == name:
                    sub = Frame(frame.routine, host=frame, module_vars=frame.module_vars)
                    for an, a in zip(sf[1], args):
                        c = Cell('?', None, an)
                        c.data[()] = self.eval(a, frame)
                        sub.vars[an.lower()] = c
                    return self.eval(sf[2], sub)
            raise Unsupported(f'function {name}')
        return self.invoke(r, host, mname, args, e[3] if len(e) > 3 else {}, frame, want_result=True)

    # ------------------------------------------------------------ procedure calls
    def invoke(self, r, host, mname, args, kwargs, frame, want_result=False):
        mv = self.module_vars.get(mname, frame.module_vars) if mname else frame.module_vars
        new = Frame(r, host=host, module_vars=mv)
        decls = {d['name'].lower(): d for d in r['decls']}
        actuals = {}
        for an, a in zip(r['args'], args):
            actuals[an.lower()] = a
        for kn, a in (kwargs or {}).items():
            actuals[kn.lower()] = a
        # bind arguments
        for an in r['args']:
            d = decls[an.lower()]
            if an.lower() not in actuals:
                if d.get('optional'):
                    continue
                raise Unsupported(f'missing actual for {an}')
            a = actuals[an.lower()]
            if d.get('dims'):
                if a[0] != 'd':
                    raise Unsupported('array dummy with expression actual')
                kind, cell, where = self.designator(a, frame)
                if kind != 'array' or a[1][0][1] is not None:
                    raise Unsupported('array dummy needs whole-array actual')
                # explicit-shape dummy: re-dimension view; only identical bounds supported
                bounds = self.eval_bounds(d['dims'], new, cell)
                if bounds != cell.bounds:
                    raise Unsupported('dummy/actual bounds differ')
                new.vars[an.lower()] = cell
            else:
                if a[0] == 'd':
                    kind, cell, where = self.designator(a, frame)
                    if kind == 'scalar':
                        new.vars[an.lower()] = cell if where == () and not isinstance(cell, ElemRef) else ElemRef(cell if not isinstance(cell, ElemRef) else cell.cell, where if not isinstance(cell, ElemRef) else cell.idx)
                        continue
                    raise Unsupported('scalar dummy with array actual')
                c = Cell(d['type'], None, an)
                v = self.eval(a, frame)
                if isinstance(v, ArrVal):
                    raise Unsupported('elemental call')
                c.data[()] = float(v) if d['type'] == 'real' else v
                new.vars[an.lower()] = c
        # locals
        for d in r['decls']:
            nm = d['name'].lower()
            if nm in new.vars or nm in [a.lower() for a in r['args']]:
                continue
            bounds = self.eval_bounds(d['dims'], new, None) if d.get('dims') else None
            c = Cell(d['type'], bounds, d['name'])
            if d.get('param') is not None:
                c.data[()] = self.eval(d['param'], new)
            new.vars[nm] = c
        resname = None
        if r['kind'] == 'function':
            resname = (r.get('result') or r['name']).lower()
            if resname not in new.vars:
                c = Cell(r.get('rtype') or 'real', None, resname)
                new.vars[resname] = c
        if self.trace:
            names = {}
            f = new
            while f is not None:
                for n, c in f.vars.items():
                    names.setdefault(c.id, set()).add(n)
                f = f.host
            self.trace.frames[new.id] = {'routine': r['name'].lower(), 'names': names}
        try:
            self.exec_body(r['body'], new, ('body',))
        except _Return:
            pass
        if want_result:
            return self.rd(new.vars[resname], ())
        return None

    def eval_bounds(self, dims, frame, actual_cell):
        out = []
        for k, (lb, ub) in enumerate(dims):
            lbv = 1 if lb is None else (lb if isinstance(lb, int) else self.rd(frame.lookup(lb), ()) if isinstance(lb, str) else self.eval(lb, frame))
            if ub == ':':
                if actual_cell is None:
                    raise Unsupported('assumed shape without actual')
                ext = actual_cell.bounds[k][1] - actual_cell.bounds[k][0] + 1
                ubv = lbv + ext - 1
            elif isinstance(ub, int):
                ubv = ub
            elif isinstance(ub, str):
                ubv = self.rd(frame.lookup(ub), ())
            else:
                ubv = self.eval(ub, frame)
            out.append((lbv, ubv))
        return out

    # ------------------------------------------------------------ statements
    def exec_body(self, stmts, frame, path):
        for i, s in enumerate(stmts):
            self.exec_stmt(s, frame, path + (i,))

    def exec_stmt(self, s, frame, path):
        self.steps += 1
        if self.steps > self.max_steps:
            raise Unsupported('step limit')
        k = s[0]
        if k in ('comment', 'pragma', 'blank', 'continue'):
            return
        pstr = '.'.join(str(x) for x in path)
        if self.trace:
            self.trace.push_stmt(frame.id, pstr)
        try:
            self._exec(s, frame, path, pstr)
        finally:
            if self.trace:
                self.trace.pop()

    def assign(self, lhs, rhs, frame, mask=None):
        kind, cell, where = self.designator(lhs, frame)
        name = lhs[1][0][0].lower()
        if name in frame.active_do:
            raise UB('assignment to active DO variable')
        val = self.eval(rhs, frame)
        if kind == 'scalar':
            if isinstance(val, ArrVal):
                raise UB('array assigned to scalar')
            if mask is not None:
                raise Unsupported('scalar assignment in WHERE')
            self.wr(cell, where, val)
            return
        shape, index = self.section_val(cell, where)
        if isinstance(val, ArrVal) and val.shape != shape:
            raise UB(f'non-conformable assignment {val.shape} -> {shape}')
        if mask is not None and mask.shape != shape:
            raise UB('mask shape differs')
        pos = ArrVal(shape, None).positions()
        if mask is not None:
            pos = [p for p in pos if mask[p]]
        vals = [(p, val.fn(p) if isinstance(val, ArrVal) else val) for p in pos]   # RHS fully evaluated first
        for p, v in vals:
            self.wr(cell, index(p), v)

    def _exec(self, s, frame, path, pstr):
        k = s[0]
        if k == 'assign':
            self.assign(s[1], s[2], frame)
        elif k == 'do':
            _, var, lo, hi, step, body, form = s
            lo_v, hi_v = self.eval(lo, frame), self.eval(hi, frame)
            st_v = 1 if step is None else self.eval(step, frame)
            if st_v == 0:
                raise UB('zero DO step')
            n = max(0, fdiv(hi_v - lo_v + st_v, st_v))
            cell = frame.lookup(var)
            if var.lower() in frame.active_do:
                raise UB('nested use of DO variable')
            frame.active_do.add(var.lower())
            exec_no = self.trace.exec_counter.get(('s', frame.id, pstr), 0) if self.trace else 0
            try:
                v = lo_v
                self.wr(cell, (), v)
                for it in range(n):
                    if self.trace:
                        self.trace.push_iter(frame.id, pstr, exec_no, it)
                    try:
                        self.exec_body(body, frame, path + ('b',))
                    except _Cycle as e:
                        if e.target is not None and e.target.lower() != var.lower():
                            raise
                    except _Exit as e:
                        if e.target is not None and e.target.lower() != var.lower():
                            raise
                        break
                    finally:
                        if self.trace:
                            self.trace.pop()
                    v += st_v
                    self.wr(cell, (), v)
            finally:
                frame.active_do.discard(var.lower())
        elif k == 'while':
            exec_no = self.trace.exec_counter.get(('s', frame.id, pstr), 0) if self.trace else 0
            it = 0
            while True:
                if self.trace:
                    self.trace.push_iter(frame.id, pstr, exec_no, it)
                try:
                    c = self.eval(s[1], frame)
                    if not c:
                        break
                    self.exec_body(s[2], frame, path + ('b',))
                except _Cycle as e:
                    if e.target is not None:
                        raise
                except _Exit as e:
                    if e.target is not None:
                        raise
                    break
                finally:
                    if self.trace:
                        self.trace.pop()
                it += 1
                if it > 10000:
                    raise Unsupported('while loop too long')
        elif k == 'if':
            for j, (cond, body) in enumerate(s[1]):
                if self.eval(cond, frame):
                    self.exec_body(body, frame, path + (f'c{j}',))
                    return
            if s[2] is not None:
                self.exec_body(s[2], frame, path + ('e',))
        elif k == 'if1':
            if self.eval(s[1], frame):
                self.exec_stmt(s[2], frame, path + ('s', 0))
        elif k == 'select':
            v = self.eval(s[1], frame)
            for j, (items, body) in enumerate(s[2]):
                for it in items:
                    if it[0] == 'rng':
                        lo = None if it[1] is None else self.eval(it[1], frame)
                        hi = None if it[2] is None else self.eval(it[2], frame)
                        hit = (lo is None or v >= lo) and (hi is None or v <= hi)
                    else:
                        hit = v == self.eval(it, frame)
                    if hit:
                        self.exec_body(body, frame, path + (f'c{j}',))
                        return
            if s[3] is not None:
                self.exec_body(s[3], frame, path + ('e',))
        elif k == 'where':
            pending = None
            shape = None
            for j, (mask, body) in enumerate(s[1]):
                if mask is not None:
                    m = self.eval(mask, frame)
                    if not isinstance(m, ArrVal):
                        raise UB('scalar WHERE mask')
                    if shape is not None and m.shape != shape:
                        raise UB('ELSEWHERE mask shape differs')
                    shape = m.shape
                    sel = {p: ((pending is None or pending[p]) and bool(m.fn(p))) for p in m.positions()}
                else:
                    sel = dict(pending)
                cur = MaskVal(shape, sel)
                for i2, a in enumerate(body):
                    if a[0] != 'assign':
                        raise Unsupported('non-assignment in WHERE')
                    if self.trace:
                        self.trace.push_stmt(frame.id, '.'.join(str(x) for x in path + (f'c{j}', i2)))
                    try:
                        self.assign(a[1], a[2], frame, mask=cur)
                    finally:
                        if self.trace:
                            self.trace.pop()
                pending = {p: ((pending is None or pending[p]) and not sel[p]) for p in sel}
        elif k == 'where1':
            m = self.eval(s[1], frame)
            if not isinstance(m, ArrVal):
                raise UB('scalar WHERE mask')
            cur = MaskVal(m.shape, {p: bool(m.fn(p)) for p in m.positions()})
            if self.trace:
                self.trace.push_stmt(frame.id, '.'.join(str(x) for x in path + ('s', 0)))
            try:
                self.assign(s[2][1], s[2][2], frame, mask=cur)
            finally:
                if self.trace:
                    self.trace.pop()
        elif k == 'call':
            tgt = s[1]
            if not isinstance(tgt, str):
                raise Unsupported('type-bound call')
            r, host, mname = self.find_routine(tgt, frame)
            if r is None:
                raise Unsupported(f'call to unknown {tgt}')
            self.invoke(r, host, mname, s[2], s[3] if len(s) > 3 else {}, frame)
        elif k in ('print', 'printf'):
            items = s[1] if k == 'print' else s[2]
            vals = []
            for it in items:
                v = self.eval(it, frame)
                if isinstance(v, ArrVal):
                    v = [v.fn(p) for p in v.positions()]
                vals.append(v)
            self.output.append(('print', vals))
        elif k == 'exit':
            raise _Exit(s[1][1] if len(s) > 1 and isinstance(s[1], list) else None)
        elif k == 'cycle':
            raise _Cycle(s[1][1] if len(s) > 1 and isinstance(s[1], list) else None)
        elif k == 'return':
            raise _Return()
        elif k == 'assoc':
            # ['assoc', [[name, selector], ...], body]: supported for selectors that are whole variables
            saved = dict(frame.assoc)
            new = {}
            for nm, sel in s[1]:
                if not (isinstance(sel, list) and sel and sel[0] == 'd' and len(sel[1]) == 1 and sel[1][0][1] is None):
                    raise Unsupported('associate selector that is not a whole variable')
                tgt = sel[1][0][0].lower()
                if tgt in frame.active_do:
                    raise Unsupported('associate selector is an active DO variable')
                new[nm.lower()] = saved[tgt] if tgt in saved else frame.lookup(tgt)
            frame.assoc.update(new)
            try:
                self.exec_body(s[2], frame, path + ('b',))
            finally:
                frame.assoc = saved
        else:
            raise Unsupported(f'statement {k}')

    # ------------------------------------------------------------ entry
    def run_entry(self, entry, vec):
        """call the entry routine with one input vector; returns {argname: value or list}"""
        mod = self.modules[entry['module'].lower()]
        r = next(x for x in mod['routines'] if x['name'].lower() == entry['name'].lower())
        top = Frame(None, module_vars=self.module_vars[entry['module'].lower()])
        n = vec['n']
        args = []
        cells = {}
        SENT = {'int': -777, 'real': -777.5, 'logical': False}
        for d in entry['args']:
            nm = d['name']
            if d['dims']:
                bounds = [(lb, n if ub == 'n' else ub) for lb, ub in d['dims']]
                c = Cell(d['type'], bounds, nm)
                idxs = ArrVal(tuple(ub - lb + 1 for lb, ub in bounds), None).positions()
                vals = vec.get(nm)
                for k2, p in enumerate(idxs):
                    idx = tuple(lb + q for (lb, _), q in zip(bounds, p))
                    c.data[idx] = (vals[k2] if vals is not None else SENT[d['type']])
                    if d['type'] == 'real':
                        c.data[idx] = float(c.data[idx])
            else:
                c = Cell(d['type'], None, nm)
                v = vec[nm] if nm in vec else SENT[d['type']]
                c.data[()] = float(v) if d['type'] == 'real' else v
            top.vars[nm.lower()] = c
            cells[nm] = c
            args.append(['d', [[nm, None]]])
        self.invoke(r, None, entry['module'].lower(), args, {}, top)
        out = {}
        for d in entry['args'][1:]:
            if d['intent'] == 'in':
                continue
            c = cells[d['name']]
            if d['dims']:
                idxs = ArrVal(tuple(ub - lb + 1 for lb, ub in c.bounds), None).positions()
                out[d['name']] = [c.data[tuple(lb + q for (lb, _), q in zip(c.bounds, p))] for p in idxs]
            else:
                out[d['name']] = c.data[()]
        return out


class MaskVal:
    def __init__(self, shape, vals):
        self.shape = tuple(shape)
        self.vals = vals

    def __getitem__(self, p):
        return self.vals[p]


def _sign(a, b):
    return abs(a) if b >= 0 else -abs(a)


def _mod(a, p):
    if isinstance(a, int) and isinstance(p, int):
        if p == 0:
            raise UB('mod by zero')
        return a - fdiv(a, p) * p
    if p == 0:
        raise UB('mod by zero')
    return math.fmod(a, p)


def _modulo(a, p):
    if p == 0:
        raise UB('modulo by zero')
    if isinstance(a, int) and isinstance(p, int):
        return a - (a // p) * p
    return a - math.floor(a / p) * p


def _sqrt(a):
    if a < 0:
        raise UB('sqrt of negative')
    return math.sqrt(a)


def _num(a, b, fn):
    r = fn(a, b)
    return chk_int(r)


BINOPS = {
    '+': lambda a, b: chk_int(a + b), '-': lambda a, b: chk_int(a - b), '*': lambda a, b: chk_int(a * b),
    '/': lambda a, b: chk_int(fdiv(a, b)),
    '**': lambda a, b: chk_int(ipow(a, b)) if isinstance(b, int) else chk_int(float(a) ** b),
    '==': lambda a, b: a == b, '/=': lambda a, b: a != b, '<': lambda a, b: a < b, '<=': lambda a, b: a <= b,
    '>': lambda a, b: a > b, '>=': lambda a, b: a >= b,
    '.and.': lambda a, b: bool(a) and bool(b), '.or.': lambda a, b: bool(a) or bool(b),
    '.eqv.': lambda a, b: bool(a) == bool(b), '.neqv.': lambda a, b: bool(a) != bool(b),
    '//': lambda a, b: a + b,
}
INTRINSICS = {
    'abs': abs, 'min': lambda *a: min(a), 'max': lambda *a: max(a), 'mod': _mod, 'modulo': _modulo, 'sign': _sign,
    'merge': lambda t, f, m: t if m else f, 'real': lambda a: float(a), 'dble': lambda a: float(a),
    'int': lambda a: int(a), 'sqrt': _sqrt, 'nint': lambda a: int(math.floor(a + 0.5)) if a >= 0 else -int(math.floor(-a + 0.5)),
}


def run_case(case, trace=False):
    """returns (list of per-vector output dicts, interpreter) ; raises UB / Unsupported"""
    results = []
    interp = None
    for vec in case['inputs']:
        interp = Interp(case['files'], trace=trace)
        results.append(interp.run_entry(case['entry'], vec))
    return results, interp
