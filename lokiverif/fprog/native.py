"""
Native execution harness: write a project (module/routine files + a driver main.f90 that
never passes through loki), build with gfortran (+gcc for C files), run, compare outputs.
"""
import os
import re
import shutil
import subprocess

FFLAGS = ['-O0', '-g0', '-ffree-line-length-none', '-fno-range-check', '-fcheck=bounds,do',
          '-ftrapv', '-ffpe-trap=invalid,zero,overflow', '-w']


def fnum(v):
    if isinstance(v, bool):
        return '.true.' if v else '.false.'
    if isinstance(v, int):
        return str(v)
    r = repr(float(v))
    if 'e' in r:
        m, e = r.split('e')
        return f'{m}d{int(e)}'
    return r + 'd0'


TYPE_DECL = {'int': 'integer', 'real': 'real(kind=8)', 'logical': 'logical', 'real4': 'real'}
FMT = {'int': "'(A,*(1X,I0))'", 'real': "'(A,*(1X,ES24.16E3))'", 'logical': "'(A,*(1X,L1))'", 'real4': "'(A,*(1X,ES16.8E3))'"}
SENTINEL = {'int': '-777', 'real': '-777.5d0', 'logical': '.false.', 'real4': '-777.5'}


def make_driver(case, extra_uses=(), call_name=None, pre_call=(), post_call=(), extra_decls=()):
    """driver program text for a generated case (see gen.cases)"""
    ent = case['entry']
    args = ent['args']
    lines = ['program main']
    if ent.get('module'):
        lines.append(f"  use {ent['module']}, only: {call_name or ent['name']}")
    for u in extra_uses:
        lines.append(f'  use {u}')
    lines.append('  implicit none')
    for d in args:
        if d['type'].startswith('type:'):
            lines.append(f"  type({d['type'][5:]}) :: {d['name']}")
        elif d['dims']:
            lines.append(f"  {TYPE_DECL[d['type']]}, allocatable :: {d['name']}({','.join(':' * len(d['dims']))})")
        else:
            lines.append(f"  {TYPE_DECL[d['type']]} :: {d['name']}")
    lines += list(extra_decls)
    for iv, vec in enumerate(case['inputs']):
        n = vec['n']
        lines.append(f"  print '(A,I0)', 'vector ', {iv}")
        lines.append(f'  n = {n}')
        for d in args[1:]:
            nm = d['name']
            if d['type'].startswith('type:'):
                continue
            if d['dims']:
                bounds = ','.join(f"{lb}:{n if ub == 'n' else ub}" for lb, ub in d['dims'])
                lines.append(f'  allocate({nm}({bounds}))')
                if nm in vec:
                    vals = ', '.join(fnum(v) for v in vec[nm])
                    if len(d['dims']) == 1:
                        lines.append(f'  {nm} = [{vals}]')
                    else:
                        lines.append(f'  {nm} = reshape([{vals}], shape({nm}))')
                else:
                    lines.append(f"  {nm} = {SENTINEL[d['type']]}")
            else:
                lines.append(f"  {nm} = {fnum(vec[nm]) if nm in vec else SENTINEL[d['type']]}")
        lines += [ln.format(iv=iv) for ln in pre_call]
        lines.append(f"  call {call_name or ent['name']}({', '.join(d['name'] for d in args)})")
        lines += [ln.format(iv=iv) for ln in post_call]
        for d in args[1:]:
            if d['intent'] == 'in' or d['type'].startswith('type:'):
                continue
            lines.append(f"  print {FMT[d['type']]}, '{d['name']}', {d['name']}")
        for d in args[1:]:
            if d['dims']:
                lines.append(f"  deallocate({d['name']})")
    lines.append('end program main')
    # free-form line continuation for long constructor lines
    out = []
    for ln in lines:
        while len(ln) > 120:
            cut = ln.rfind(',', 0, 118)
            if cut < 20:
                break
            out.append(ln[:cut + 1] + ' &')
            ln = '      ' + ln[cut + 1:]
        out.append(ln)
    return '\n'.join(out) + '\n'


class RunResult:
    def __init__(self, stage, rc, out, err):
        self.stage, self.rc, self.out, self.err = stage, rc, out, err

    @property
    def ok(self):
        return self.stage == 'run' and self.rc == 0

    def brief(self):
        return f'stage={self.stage} rc={self.rc} err={self.err[-600:]!r}'


class Native:
    def __init__(self, scratch=None):
        self.scratch = scratch or os.environ.get('LOKIVERIF_SCRATCH') or '/tmp'
        self.n = 0

    def workdir(self, tag):
        self.n += 1
        d = os.path.join(self.scratch, f'{tag}{self.n}')
        os.makedirs(d, exist_ok=True)
        return d

    def build_run(self, tag, files, driver=None, flags=None, cfiles=(), run=True, timeout=20, keep=False,
                  stdin=None, cflags=()):
        """files: list of (name, text) Fortran sources in dependency order; driver: text of main.f90"""
        d = self.workdir(tag)
        try:
            names = []
            for name, text in files:
                with open(os.path.join(d, name), 'w') as f:
                    f.write(text)
                names.append(name)
            objs = []
            for name, text in cfiles:
                with open(os.path.join(d, name), 'w') as f:
                    f.write(text)
                p = subprocess.run(['gcc', '-O0', '-w', '-c', name, *cflags], cwd=d, capture_output=True, text=True, timeout=120)
                if p.returncode != 0:
                    return RunResult('compile-c', p.returncode, p.stdout, p.stderr)
                objs.append(os.path.splitext(name)[0] + '.o')
            if driver is not None:
                with open(os.path.join(d, 'main_driver.f90'), 'w') as f:
                    f.write(driver)
                names.append('main_driver.f90')
            fl = list(FFLAGS if flags is None else flags)
            if driver is None and not run:
                cmd = ['gfortran', *fl, '-c', *names]
            else:
                cmd = ['gfortran', *fl, '-o', 'prog.x', *names, *objs]
            try:
                p = subprocess.run(cmd, cwd=d, capture_output=True, text=True, timeout=180)
            except subprocess.TimeoutExpired:
                return RunResult('compile-timeout', -1, '', 'compile timeout')
            if p.returncode != 0:
                return RunResult('compile', p.returncode, p.stdout, p.stderr)
            if not run or driver is None:
                return RunResult('compiled', 0, p.stdout, p.stderr)
            try:
                p = subprocess.run(['./prog.x'], cwd=d, capture_output=True, text=True, timeout=timeout, input=stdin)
            except subprocess.TimeoutExpired:
                return RunResult('run-timeout', -1, '', 'run timeout')
            r = RunResult('run', p.returncode, p.stdout, p.stderr)
            return r
        finally:
            if not keep:
                shutil.rmtree(d, ignore_errors=True)


_num = re.compile(r'^[+-]?(\d+\.?\d*([eEdD][+-]?\d+)?|\.\d+([eEdD][+-]?\d+)?)$')


def same_output(a, b, rtol=0.0):
    """exact comparison; with rtol > 0 numeric tokens containing '.' may differ relatively by rtol"""
    if a == b:
        return True
    if rtol <= 0:
        return False
    la, lb = a.split('\n'), b.split('\n')
    if len(la) != len(lb):
        return False
    for x, y in zip(la, lb):
        if x == y:
            continue
        tx, ty = x.split(), y.split()
        if len(tx) != len(ty):
            return False
        for u, v in zip(tx, ty):
            if u == v:
                continue
            if _num.match(u) and _num.match(v) and ('.' in u or '.' in v):
                fu, fv = float(u.lower().replace('d', 'e')), float(v.lower().replace('d', 'e'))
                if abs(fu - fv) <= rtol * max(abs(fu), abs(fv), 1e-300):
                    continue
            return False
    return True


def first_diff(a, b):
    la, lb = a.split('\n'), b.split('\n')
    for i, (x, y) in enumerate(zip(la, lb)):
        if x != y:
            return f'line {i + 1}: {x!r} vs {y!r}'
    return f'length {len(la)} vs {len(lb)}'
