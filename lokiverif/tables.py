"""
Shared helpers for the mapping / symbol properties (C12, C13):

* JSON descriptors of ``SymbolAttributes`` (build / describe),
* spelling alphabets (few base names, every letter-case variant, optional ``(dims)`` suffix),
* a delta-debugging minimiser for recorded operation histories.

Everything here is deterministic and free of loki imports at module level.
"""
import itertools
import time

BASIC = ('DEFERRED', 'LOGICAL', 'INTEGER', 'REAL', 'CHARACTER', 'COMPLEX')


# ---------------------------------------------------------------------------
# SymbolAttributes <-> JSON descriptor {'dtype': 'INTEGER', 'kind': 4, 'intent': 'in', 'shape': ['n']}
# ---------------------------------------------------------------------------
def build_attrs(desc):
    """plain JSON descriptor -> fresh loki SymbolAttributes (basic dtypes only)"""
    from loki.types import SymbolAttributes, BasicType
    kw = {}
    for k, v in desc.items():
        if k == 'dtype':
            continue
        kw[k] = tuple(v) if isinstance(v, list) else v
    return SymbolAttributes(BasicType[desc['dtype']], **kw)


def describe_attrs(attrs):
    """loki SymbolAttributes -> JSON descriptor (None stays None)"""
    if attrs is None:
        return None
    out = {}
    for k, v in attrs.__dict__.items():
        if k == 'dtype':
            out[k] = getattr(v, 'name', None) if not isinstance(v, str) else v
            if out[k] not in BASIC:
                out[k] = f'{type(v).__name__}:{getattr(v, "name", v)}'
        elif isinstance(v, tuple):
            out[k] = [str(x) for x in v]
        else:
            out[k] = v
    return out


def merge_attrs(desc, changes):
    """model of SymbolAttributes.clone(**changes): None removes an attribute"""
    out = dict(desc)
    for k, v in changes.items():
        if v is None:
            out.pop(k, None)
        else:
            out[k] = v
    return out


# ---------------------------------------------------------------------------
# spellings
# ---------------------------------------------------------------------------
def case_variants(name):
    """every upper/lower spelling of ``name`` in a fixed order (lower-case first)"""
    letters = [(c.lower(), c.upper()) if c.isalpha() else (c,) for c in name]
    seen = []
    for combo in itertools.product(*letters):
        s = ''.join(combo)
        if s not in seen:
            seen.append(s)
    return seen


def spellings(bases, suffixes=('',)):
    out = []
    for b in bases:
        for v in case_variants(b):
            for s in suffixes:
                out.append(v + s)
    return out


def strip_dims(name):
    i = name.find('(')
    return name if i < 0 else name[:i]


# ---------------------------------------------------------------------------
# history minimiser (ddmin over the op list, then over the tail of each op)
# ---------------------------------------------------------------------------
def minimise_ops(case, still_fails, budget_s=6.0, key='ops'):
    """
    Shrink ``case[key]`` (a list) while ``still_fails(case)`` stays true.
    ``still_fails`` must be deterministic. Returns the smallest case found.
    """
    t_end = time.time() + budget_s
    ops = list(case[key])

    def attempt(candidate):
        if time.time() > t_end:
            return False
        c = dict(case)
        c[key] = candidate
        return bool(still_fails(c))

    if not attempt(ops):
        return case
    n = 2
    while len(ops) >= 2 and time.time() < t_end:
        chunk = max(1, len(ops) // n)
        reduced = False
        for start in range(0, len(ops), chunk):
            cand = ops[:start] + ops[start + chunk:]
            if cand and attempt(cand):
                ops = cand
                n = max(n - 1, 2)
                reduced = True
                break
        if not reduced:
            if chunk == 1:
                break
            n = min(len(ops), n * 2)
    out = dict(case)
    out[key] = ops
    return out


# ---------------------------------------------------------------------------
# budget-aware stateful runs
# ---------------------------------------------------------------------------
def run_machine_chunked(ctx, machine, label, total, steps, chunk=250):
    """
    Run ``total`` histories of a RuleBasedStateMachine in chunks with independent derived seeds, stopping
    between chunks once the shard's budget is used up (Hypothesis itself cannot be told to stop early).
    Returns the number of histories requested from Hypothesis.
    """
    import hypothesis
    from hypothesis.stateful import run_state_machine_as_test
    from .core import derive_seed
    done = 0
    k = 0
    while done < total and not ctx.out_of_time():
        n = min(chunk, total - done)
        run_state_machine_as_test(hypothesis.seed(derive_seed(ctx.seed, label, k))(machine),
                                  settings=ctx.settings(n, stateful_step_count=steps))
        done += n
        k += 1
    return done
