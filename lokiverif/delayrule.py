"""
Lint rule and report handler of ours for C42 (lint results independent of parallelism).

``DelayRule`` is an ordinary, picklable :class:`loki.lint.GenericRule`: it reports nothing and sleeps for the
number of milliseconds its configuration assigns to the file being checked
(``config['DelayRule'] = {'plan': {<file name>: ms}}``). Because every worker runs all rules on a file, the
duration of each lint task - and with it the completion order of the tasks - becomes a generated value.

``CollectHandler`` is a picklable :class:`loki.lint.GenericHandler` that turns every file report into plain
data (file, [(rule, message, first line)]) inside the worker and writes all of them as JSON in ``output()``.
It is the "in-memory reporter" observation point next to the violations file and the JUnit XML file.
"""
import json
import time
from pathlib import Path

from loki.lint import GenericRule, GenericHandler, RuleType


class DelayRule(GenericRule):

    type = RuleType.INFO

    docs = {'title': 'lokiverif: sleeps according to the per-file delay plan, reports nothing'}

    config = {'plan': {}}

    @classmethod
    def check_file(cls, sourcefile, rule_report, config):
        plan = config.get('plan') or {}
        name = Path(sourcefile.path).name if sourcefile.path else None
        ms = plan.get(name, 0)
        if ms:
            time.sleep(ms / 1000.0)


class CollectHandler(GenericHandler):

    def __init__(self, path, basedir=None):
        super().__init__(basedir)
        self.path = str(path)

    def handle(self, file_report):
        entries = []
        for rule_report in file_report.reports:
            for problem in rule_report.problem_reports:
                loc = problem.location
                source = getattr(loc, '_source', getattr(loc, 'source', None))
                entries.append([rule_report.rule.__name__, str(problem.msg),
                                source.lines[0] if source is not None else None])
        return [str(self.get_relative_filename(file_report.filename)), entries]

    def output(self, handler_reports):
        with open(self.path, 'w') as f:
            json.dump([list(r) for r in handler_reports], f)
