"""
A small free-form Fortran lexer of our own (no loki import), used by C04 (token identity of wrapped output)
and C03 (classification of emitted lines).

``lex(text)`` follows the free-form source rules of the standard (F2008 3.3.2):
  * ``!`` outside a character context starts a comment that runs to the end of the line;
  * ``&`` as last non-blank character of a line (before an optional comment) continues the statement; a leading
    ``&`` on the next line is skipped; blank/comment-only lines between are skipped;
  * inside a character context a trailing ``&`` continues the *literal*: the next line must have ``&`` as its
    first non-blank character and the literal resumes directly behind it (so a literal wrapped as
    ``'abc &\\n   & def'`` has the value ``abc  def``);
  * ``;`` separates statements.
Tokens are tuples (kind, value): ('name', lower-cased), ('num', lower-cased text incl. kind suffix),
('str', value with doubled delimiters undone), ('op', text; dot operators lower-cased), ('cmt', text from the ``!``
on, right-stripped), ('eol', '').  Comments inside a continued statement are kept in sequence.
A directive/pragma comment sequence ``!$kw ... &`` / ``!$kw & ...`` is joined into one ('cmt', ...) token
with single blanks (loki re-assembles pragmas word-wise).
"""
import re

_name = re.compile(r'[A-Za-z_]\w*')
_dotop = re.compile(r'\.[A-Za-z]+\.')
_expo = re.compile(r'[edED][+-]?\d+')
_kind = re.compile(r'_\w+')
_two = ('==', '/=', '<=', '>=', '**', '//', '::', '=>', '(/', '/)')


class LexError(Exception):
    pass


def lex(text, pragma_join=True):
    toks = []
    n = len(text)
    i = 0
    cont = False          # a trailing '&' was seen: the statement continues on the next non-blank, non-comment line
    fresh = True          # at the start of a physical line (only blanks seen so far)

    def eol():
        if toks and toks[-1][0] != 'eol':
            toks.append(('eol', ''))

    while i < n:
        c = text[i]
        if c == '\n':
            if not cont:
                eol()
            fresh = True
            i += 1
            continue
        if c in ' \t\r':
            i += 1
            continue
        if c == '!':
            j = text.find('\n', i)
            j = n if j < 0 else j
            toks.append(('cmt', text[i:j].rstrip()))
            i = j
            continue
        if c == '&':
            if fresh and cont:
                # leading '&' of a continuation line
                fresh = False
                i += 1
                continue
            # trailing '&': only blanks or a comment may follow
            j = text.find('\n', i)
            j = n if j < 0 else j
            rest = text[i + 1:j].strip()
            if rest and not rest.startswith('!'):
                raise LexError('text after continuation marker: ' + text[i:j][:40])
            cont = True
            fresh = False
            i += 1
            continue
        if c == ';':
            eol()
            fresh = False
            cont = False
            i += 1
            continue
        fresh = False
        cont = False
        if c in '\'"':
            q = c
            j = i + 1
            buf = []
            while True:
                if j >= n:
                    raise LexError('unterminated character literal')
                d = text[j]
                if d == q:
                    if j + 1 < n and text[j + 1] == q:
                        buf.append(q)
                        j += 2
                        continue
                    j += 1
                    break
                if d == '\n':
                    # character context continuation: the literal so far must end in '&' (+ blanks)
                    s = ''.join(buf)
                    t = s.rstrip(' ')
                    if not t.endswith('&'):
                        raise LexError('line break inside a character literal without continuation')
                    buf = [t[:-1]]
                    k = j + 1
                    while k < n and text[k] in ' \t':
                        k += 1
                    if k >= n or text[k] != '&':
                        raise LexError('continued character literal does not resume with &')
                    j = k + 1
                    continue
                buf.append(d)
                j += 1
            toks.append(('str', ''.join(buf)))
            i = j
            continue
        m = _dotop.match(text, i)
        if m:
            toks.append(('op', m.group(0).lower()))
            i = m.end()
            continue
        if c.isdigit() or (c == '.' and i + 1 < n and text[i + 1].isdigit()):
            j = i
            while j < n and text[j].isdigit():
                j += 1
            if j < n and text[j] == '.' and not _dotop.match(text, j):
                j += 1
                while j < n and text[j].isdigit():
                    j += 1
            m = _expo.match(text, j)
            if m:
                j = m.end()
            m = _kind.match(text, j)
            if m:
                j = m.end()
            toks.append(('num', text[i:j].lower()))
            i = j
            continue
        m = _name.match(text, i)
        if m:
            # kind-prefixed literal  k_'abc'
            toks.append(('name', m.group(0).lower()))
            i = m.end()
            continue
        if text[i:i + 2] in _two:
            toks.append(('op', text[i:i + 2]))
            i += 2
            continue
        toks.append(('op', c))
        i += 1
    eol()
    if pragma_join:
        toks = join_pragmas(toks)
    return toks


_prag = re.compile(r'!\$(\w+)')


def join_pragmas(toks):
    """``!$kw a b &`` eol ``!$kw & c``  ->  ``!$kw a b c`` (words separated by single blanks)"""
    out = []
    i = 0
    while i < len(toks):
        k, v = toks[i]
        m = _prag.match(v) if k == 'cmt' else None
        if not m:
            out.append(toks[i])
            i += 1
            continue
        kw = m.group(1).lower()
        words = v.split()
        while words and words[-1] == '&' and i + 2 < len(toks) + 1:
            # next token must be eol followed by a comment with the same sentinel
            j = i + 1
            if j < len(toks) and toks[j][0] == 'eol':
                j += 1
            if j < len(toks) and toks[j][0] == 'cmt':
                m2 = _prag.match(toks[j][1])
                if m2 and m2.group(1).lower() == kw:
                    nxt = toks[j][1].split()[1:]
                    if nxt and nxt[0] == '&':
                        nxt = nxt[1:]
                    words = words[:-1] + nxt
                    i = j
                    continue
            break
        out.append(('cmt', ' '.join(words)))
        i += 1
    return out


def code_tokens(toks):
    return [t for t in toks if t[0] not in ('cmt',)]


def split_trailing_comment(line):
    """(code, comment|None) of one physical line; quotes are tracked, so a '!' inside a literal is not a comment.
    A literal that is open at the end of the line (continued literal) makes the rest code."""
    q = None
    i = 0
    n = len(line)
    while i < n:
        c = line[i]
        if q:
            if c == q:
                if i + 1 < n and line[i + 1] == q:
                    i += 2
                    continue
                q = None
        elif c in '\'"':
            q = c
        elif c == '!':
            return line[:i], line[i:]
        i += 1
    return line, None


def line_content(line):
    """code of a physical line without indentation, continuation markers and trailing comment"""
    code, _ = split_trailing_comment(line)
    s = code.strip()
    if s.startswith('&'):
        s = s[1:].lstrip()
    if s.endswith('&'):
        s = s[:-1].rstrip()
    return s


def word_tokens(content):
    """name / number / string tokens of a line content (a literal left open by the line counts as one token)"""
    try:
        toks = lex(content, pragma_join=False)
    except LexError:
        # an open literal: count what precedes it plus one
        q = None
        cut = None
        i = 0
        while i < len(content):
            c = content[i]
            if q:
                if c == q:
                    if content[i + 1:i + 2] == q:
                        i += 2
                        continue
                    q = None
            elif c in '\'"':
                q = c
                cut = i
            i += 1
        if q is None or cut is None:
            raise
        return [t for t in lex(content[:cut], pragma_join=False) if t[0] in ('name', 'num', 'str')] + [('str', content[cut:])]
    return [t for t in toks if t[0] in ('name', 'num', 'str')]
