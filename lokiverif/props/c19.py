"""C19 - the regex frontend discovers what the full parser finds, whatever the order of incremental requests."""

from hypothesis import strategies as st

from ..core import exc_bucket
from ..unitsrc import gen, facts
from ..unitsrc.render import render

ID = 'C19'
LEVEL = 'exploration'
TECHNIQUE = ('differential comparison REGEX frontend vs FP frontend on generated multi-unit files under layout variation, '
             'plus a reference model of incremental parser-class requests (union per scope)')
RULE = ('files are generated from a JSON model (modules, free routines, internal procedures, prefixes, typed functions, USE with '
        'only-lists/renames/rename-lists, derived types with procedure/generic bindings, generic/abstract/plain interfaces, CALLs '
        'incl. one-line IF, type-bound a%b%c, labels; identifiers that start with keywords; keywords inside strings and comments) and '
        'rendered under a generated layout (case, continuation lines with/without leading &, comments between continuation lines, '
        'split strings, ;-joined statements, ENDxxx spellings, decoy comments). Oracle 1: units(name,kind,nesting), imports, typedefs+'
        'bindings, interfaces, call targets of Sourcefile.from_source(REGEX) == those of from_source(FP). Oracle 2: for a generated '
        'history (initial parser classes incl. ProgramUnitClass, then make_complete(REGEX, classes) on the file or on a unit), after '
        'every step the facts of every class in the union requested for a scope (itself or an ancestor) equal the one-shot facts; two '
        'orders of the same requests are run; for a quarter of the cases make_complete(FP) ends the history and must give the FP '
        'facts. Triggers of the listed findings (named generator/layout flags, see EXCLUDED and gen.LAYOUT_TRIGGERS) are never drawn; '
        'a failure on a case that contains one is named after it (":trigger=<flag>"). non-trivial = >=2 units, a layout perturbation '
        'touches a statement that carries a compared fact, and two different request orders were run; distinct by hash of the case')
ASSUMPTIONS = ['generated files are valid Fortran (python -m lokiverif.unitsrc.selftest compiles them with gfortran -std=f2008)',
               'the FP frontend is the reference; a file the FP frontend rejects is counted as rejected, not as a violation',
               'the first request of every history contains ProgramUnitClass (as every caller in loki does; the repository tests '
               'document that a class requested before the enclosing unit is known has no effect); only the classes the '
               'statement lists are compared (declarations and pragmas are not)',
               'the REGEX frontend time-out is set to 15 s (loki default 30 s); a time-out is reported as a violation']
SHARDS = {'quick': 8, 'thorough': 16}
BUDGET = {'quick': 75, 'thorough': 1500}

CLASSES = ['ProgramUnitClass', 'InterfaceClass', 'ImportClass', 'TypeDefClass', 'DeclarationClass', 'CallClass', 'PragmaClass']
FACT_OF = {'ProgramUnitClass': 'units', 'InterfaceClass': 'ifaces', 'ImportClass': 'imports', 'TypeDefClass': 'typedefs',
           'CallClass': 'calls'}
KEYWORDS = ['call', 'use', 'type', 'module', 'interface', 'procedure', 'generic', 'contains', 'end', 'subroutine', 'function',
            'if', 'import', 'class', 'final']

# triggers of listed findings, excluded by construction in the search profile (see known_findings.d/C19.txt)
EXCLUDED = {k: False for k in gen.TRIGGER_FLAGS}
PROFILE = gen.profile(**EXCLUDED)


def rpc(names):
    from loki.frontend import RegexParserClass
    v = RegexParserClass.EmptyClass
    for n in names:
        v = v | getattr(RegexParserClass, n)
    return v


REGEX_TIMEOUT = 15   # seconds; loki's default is 30 (a normal regex parse of a generated file takes ~0.03 s)


_timeout = [REGEX_TIMEOUT]


def parse(text, frontend, classes=None):
    from loki import Sourcefile
    from loki.config import config
    from loki.frontend import FP, REGEX
    config['regex-frontend-timeout'] = _timeout[0]
    if frontend == 'fp':
        return Sourcefile.from_source(text, frontend=FP)
    return Sourcefile.from_source(text, frontend=REGEX, parser_classes=rpc(classes or ['AllClasses']))


# ---------------------------------------------------------------------------------------------
# signatures
# ---------------------------------------------------------------------------------------------
def lead_kind(lead):
    lead = (lead or '').lower()
    for k in sorted(KEYWORDS, key=len, reverse=True):
        if lead.startswith(k) and lead != k:
            return k
    return None


CLASS_KW = {'calls': 'call', 'imports': 'use', 'typedefs': 'type', 'ifaces': 'interface', 'units': None}


def stmt_tag(rendered, d):
    """name the generated statement behind a difference (ground truth from the line map); no generated names"""
    cls, scope, direction, item, lines = d
    stmts = rendered.stmts
    if direction in ('missing', 'differs', 'order'):
        if cls == 'units':
            key = scope.split('/')[-1]
            tags = [s['tag'] for s in stmts if s['fact'] == 'units' and s['key'] == key and s['unit'] == scope]
            return '+'.join(sorted(set(t for t in tags if 'bare' in t))) or (tags[0] if tags else 'unknown')
        ref_item = item[0] if direction == 'differs' else item
        if direction == 'order':
            return 'order'
        key = ref_item if cls == 'calls' else ref_item[0]
        cands = [s for s in stmts if s['fact'] == cls and s['unit'] == scope and s['key'] == key]
        if cls == 'typedefs' and direction == 'differs':
            # which binding differs
            rb, gb = item[0][1], item[1][1]
            miss, spur = facts._multidiff(rb, gb)
            names = [m[0][0] for m in miss] or [m[0][0] for m in spur]
            cands = [s for s in stmts if s['fact'] == cls and s['unit'] == scope and s['key'] in names] or cands
            return 'binding:' + ((cands[0]['tag']) if cands else 'unknown')
        if cands:
            return cands[0]['tag']
        return 'unknown'
    # spurious: what is at the lines the node points to
    if lines:
        here = [s for s in stmts if s['span'][0] <= lines[1] and s['span'][1] >= lines[0]
                and s['tag'] not in ('comment', 'blank')]
        kwd = CLASS_KW.get(cls)
        pref = [s for s in here if kwd and (s['lead'] or '').lower().startswith(kwd) and s['fact'] != cls]
        s = (pref or here or [None])[0]
        if s is not None:
            tag = s['tag'].replace('if1-', '')
            lk = lead_kind(s['lead'])
            return tag + (f':lead={lk}*' if lk else '')
    return 'unknown'


def signatures(rendered, diffs, prefix):
    """
    ONE signature per failing case: the first difference (class in dependency order units > imports > typedefs >
    interfaces > calls; within a class 'differs' before 'missing' before 'spurious'; then file order) names it.
    Further differences of the same case are consequences more often than not (a unit that ends early drags
    calls, nested units ... with it) and would give one root cause several names.
    """
    order = ['units', 'imports', 'typedefs', 'ifaces', 'calls']
    rank = {'differs': 0, 'missing': 1, 'spurious': 2, 'order': 3}
    for cls in order:
        ds = [d for d in diffs if d[0] == cls]
        if ds:
            d = sorted(ds, key=lambda d: rank[d[2]])[0]
            return {f'{prefix}:{cls}:{d[2]}:{stmt_tag(rendered, d)}': d}
    return {}


# ---------------------------------------------------------------------------------------------
# oracle 1: REGEX vs FP
# ---------------------------------------------------------------------------------------------
def compare_frontends(text):
    """-> ('rejected', exc) | ('raises', exc) | ('ok', fp_facts, re_facts, diffs)"""
    try:
        fp = facts.extract(parse(text, 'fp'))
    except (Exception, SystemExit) as e:  # noqa: fparser calls sys.exit(1) on some syntax errors
        return ('rejected', e)
    try:
        re_ = facts.extract(parse(text, 'regex'))
    except Exception as e:  # noqa
        return ('raises', e, fp)
    return ('ok', fp, re_, facts.diff(fp, re_))


def triggers(model, layout, rendered):
    """names of the known-finding triggers present in a case (all are off in the search profile)"""
    out = set()
    for st_ in rendered.stmts:
        if st_['tag'] in ('assign', 'if1-assign') and (st_['lead'] or '').lower().startswith('call'):
            out.add('kw_lhs')
    def routines(rs):
        for r in rs:
            yield r
            yield from routines(r['contains'])
    mods = [u for u in model['units'] if u['k'] == 'module']
    for u in model['units']:
        rs = list(routines(u['routines'] if u['k'] == 'module' else [u]))
        for r in rs:
            if r['end'] == 'bare':
                out.add('bare_end')
            if any(it[0] == 'generic' for it in r['ifaces']):
                out.add('free_iface_modproc')
            if any(x.get('nature') for x in r['uses']):
                out.add('use_nature')
            if '"if (a) call b"' in _dumps(r['body']) or any(t in _dumps(r['body']) for t in ('"(x) call y("', '"call z(1)"', '") call w"')):
                out.add('cond_string')
        if u['k'] == 'module':
            if any(x.get('nature') for x in u['uses']):
                out.add('use_nature')
            for t in u['types']:
                if t.get('extends_spaced'):
                    out.add('extends_spaced')
                for pr in t['procs']:
                    if pr[0] == 'final':
                        out.add('final')
                    if pr[0] == 'proc' and pr[4]:
                        out.add('deferred')
                    if pr[0] == 'proc' and any('(' in a for a in pr[3]):
                        out.add('pass_arg')
            if any(it[0] in ('abstract', 'plain') and any(bd[0] == 'fun' for bd in it[1]) for it in u['ifaces']):
                out.add('iface_fun_body')
            if any(gen.looks_like_type_stmt(t) for _, t in u['strs']):
                out.add('mod_type_string')
            if u is not mods[-1] and any(r['contains'] for r in u['routines']):
                out.add('internal_before_module')
    if layout.get('endjoin_iface') and any(s_['tag'] == 'end-iface' for s_ in rendered.stmts):
        out.add('endjoin_iface')
    if layout.get('end_gap'):
        out.add('end_gap')
    if layout.get('bind_kw_nocolon') and not layout.get('dcolon', True) and any(
            pr[0] == 'proc' and not pr[2] and not pr[3] and not pr[4] and ('function' in pr[1] or 'subroutine' in pr[1])
            for u in mods for t in u['types'] for pr in t['procs']):
        out.add('bind_kw_nocolon')
    return sorted(out)


def _dumps(o):
    import json
    return json.dumps(o)


# ---------------------------------------------------------------------------------------------
# oracle 2: histories
# ---------------------------------------------------------------------------------------------
def run_history(text, units, init, steps, oneshot, ctx, case, rendered, label, trig=''):
    """reference model: eff(scope) = init | classes of every request aimed at the scope or an ancestor (or the file)"""
    from loki.frontend import REGEX
    try:
        sf = parse(text, 'regex', init)
    except Exception as e:  # noqa
        ctx.fail(f'C19:history:regex-raises:{exc_bucket(e)}' + trig, case, f'{label}: initial parse {init}: {e!r}'[:600])
        return None
    eff = {u: set(init) for u in units}

    def check(step_no, what):
        try:
            got = facts.extract(sf)
        except Exception as e:  # noqa
            ctx.fail(f'C19:history:facts-raise:{exc_bucket(e)}' + trig, case, f'{label} step {step_no} {what}: {e!r}'[:600])
            return False
        ok = True
        # units are always requested
        for cls_name, fc in FACT_OF.items():
            scopes = [u for u in units if cls_name in eff[u]]
            if not scopes:
                continue
            ds = facts.diff(oneshot, got, classes=(fc,), scopes=set(scopes) if fc != 'units' else None)
            if ds:
                sigs = signatures(rendered, ds, 'C19:history')
                for sig, d in sigs.items():
                    claimed = None
                    try:
                        claimed = facts.find_unit(sf, d[1])._parser_classes
                    except Exception:  # noqa: the unit itself is missing
                        pass
                    if claimed is not None and not (claimed & rpc([cls_name])):
                        # loki itself no longer claims the class for that scope: discovered facts were dropped
                        sig = 'C19:history:scope-no-longer-parsed-for-a-requested-class'
                    ctx.fail(sig + trig, case, f'{label}: after step {step_no} ({what}) scope {d[1]} class {fc}: {d[2]} '
                             f'{d[3]!r}; requested for that scope so far: {sorted(eff.get(d[1], []))}; loki claims '
                             f'{claimed}'[:900])
                ok = False
                break
        return ok

    if not check(0, f'initial parse {init}'):
        return sf
    for n, (target, classes) in enumerate(steps, 1):
        try:
            if target == '':
                sf.make_complete(frontend=REGEX, parser_classes=rpc(classes))
            else:
                facts.find_unit(sf, target).make_complete(frontend=REGEX, parser_classes=rpc(classes))
        except Exception as e:  # noqa
            ctx.fail(f'C19:history:make_complete-raises:{exc_bucket(e)}' + trig, case,
                     f'{label} step {n}: make_complete(REGEX, {classes}) on {target or "<file>"}: {e!r}'[:600])
            return sf
        for u in units:
            if target == '' or u == target or u.startswith(target + '/'):
                eff[u] |= set(classes)
        if not check(n, f'make_complete(REGEX, {"|".join(classes)}) on {target or "<file>"}'):
            break
    return sf


def resolve_history(hist, units, order=None):
    """
    history with unit *indices* -> concrete (init, steps, lossy); the JSON case stays valid for any model.
    Unless hist['loss'] is set, a request aimed at a scope is widened by the classes its nested units were given
    before and that it would not cover (exclusion by construction of the listed finding 'a re-parse of an
    enclosing scope drops what was discovered for a nested unit'); lossy = such a widening was needed but not done.
    """
    init = sorted(set(['ProgramUnitClass'] + [CLASSES[i % len(CLASSES)] for i in hist.get('init', [])]), key=CLASSES.index)
    raw = []
    targets = [''] + units
    for t, cl in hist.get('steps', []):
        classes = sorted({CLASSES[i % len(CLASSES)] for i in cl}, key=CLASSES.index)
        if classes:
            raw.append((targets[t % len(targets)], classes))
    if order is not None:
        raw = [raw[i % len(raw)] for i in order] if raw else []
    eff = {u: set(init) for u in units}
    steps, lossy = [], False
    for target, classes in raw:
        tops = [u for u in units if '/' not in u] if target == '' else [target]
        need = set()
        for t in tops:
            for d in units:
                if d.startswith(t + '/'):
                    need |= eff[d] - eff[t] - set(classes)
        if need:
            if hist.get('loss'):
                lossy = True
            else:
                classes = sorted(set(classes) | need, key=CLASSES.index)
        steps.append((target, classes))
        for u in units:
            if target == '' or u == target or u.startswith(target + '/'):
                eff[u] |= set(classes)
    return init, steps, lossy


# ---------------------------------------------------------------------------------------------
def check_case(case, ctx):
    _timeout[0] = case.get('regex_timeout') or REGEX_TIMEOUT      # committed replays of time-outs use a short one
    model, layout = case['model'], case['layout']
    rendered = render(model, layout)
    text = rendered.text
    truth = gen.truth(model)
    units = [u for u, _ in truth['units']]
    feats = gen.features(model)
    hist = case.get('history') or {}
    init, steps, lossy = resolve_history(hist, units)
    nraw = len(steps)
    perm = list(hist.get('perm') or [])
    if sorted(perm) != list(range(nraw)) or perm == list(range(nraw)):
        perm = list(reversed(range(nraw)))
    _, steps2, lossy2 = resolve_history(hist, units, order=perm)
    lossy = lossy or lossy2
    two_orders = nraw >= 2 and steps2 != steps
    touched = sorted(rendered.touched)
    nontrivial = len(units) >= 2 and bool(touched) and two_orders
    classes = list(feats) + [f'layout:{t}' for t in touched] + [f'units={min(len(units), 8)}']
    classes.append('history:two-orders' if two_orders else 'history:one-order')
    if any(t != '' for t, _ in steps):
        classes.append('history:unit-level-request')
    if any('/' in t for t, _ in steps):
        classes.append('history:nested-unit-request')
    ctx.case(case, nontrivial, classes)
    if len(ctx.samples) < 3:
        ctx.sample({'source': text[:1800], 'history': {'init': init, 'steps': steps, 'second_order': steps2}})

    trg = triggers(model, layout, rendered)
    trig = (':trigger=' + '+'.join(trg)) if trg else ''
    htrig = (':trigger=' + '+'.join(trg + (['nested_then_ancestor'] if lossy else []))) if (trg or lossy) else ''
    res = compare_frontends(text)
    if res[0] == 'rejected':
        ctx.reject(res[1] if isinstance(res[1], Exception) else f'SystemExit@fparser:{res[1]}', {'text': text[:1500]})
        return
    if res[0] == 'raises':
        sig = f'C19:regex-raises:{exc_bucket(res[1])}' + trig
        ctx.fail(sig, case, f'REGEX frontend raised {res[1]!r} on a file the FP frontend parses'[:600])
        return
    _, fp, re_, diffs = res
    tdiff = facts.diff(truth, fp)
    if tdiff:
        ctx.count('selfcheck:fp-differs-from-generator-truth')
        ctx.note(f'FP facts differ from generator truth: {tdiff[0][:4]!r}'[:400])
    if diffs:
        for sig, d in signatures(rendered, diffs, 'C19').items():
            ctx.fail(sig + trig, case, f'scope {d[1]}: {d[0]} {d[2]}: {d[3]!r} (REGEX vs FP); lines {d[4]}'[:900])
        return      # histories are judged against the one-shot REGEX result only when that agrees with FP

    # ---- histories (oracle 2) ----
    oneshot = re_
    sf = run_history(text, units, init, steps, oneshot, ctx, case, rendered, 'order A', htrig)
    if two_orders:
        run_history(text, units, init, steps2, oneshot, ctx, case, rendered, 'order B', htrig)
    if hist.get('fp') and sf is not None:
        try:
            sf.make_complete()
            got = facts.extract(sf)
        except Exception as e:  # noqa
            ctx.fail(f'C19:history:final-full-parse-raises:{exc_bucket(e)}' + htrig, case, repr(e)[:600])
            return
        ds = facts.diff(fp, got)
        for sig, d in signatures(rendered, ds, 'C19:history:final-full-parse').items():
            ctx.fail(sig + htrig, case, f'after the history and make_complete(FP): scope {d[1]}: {d[0]} {d[2]}: {d[3]!r}'[:900])


@st.composite
def cases(draw, prof=None):
    model = draw(gen.files(prof or PROFILE))
    layout = draw(gen.layouts())
    nsteps = draw(st.sampled_from([0, 1, 2, 2, 3, 3, 4, 5]))
    hist = {
        'init': draw(st.lists(st.integers(0, 6), max_size=3)),
        'steps': [[draw(st.integers(0, 12)) if draw(st.integers(0, 2)) else 0,
                   draw(st.lists(st.integers(0, 6), min_size=1, max_size=3))] for _ in range(nsteps)],
        'perm': draw(st.permutations(list(range(nsteps)))) if nsteps else [],
        'fp': draw(st.integers(0, 3)) == 0,
        'loss': False,
    }
    return {'model': model, 'layout': layout, 'history': hist}


def explore(ctx, strategy, check, n, label):
    """quick: one Hypothesis run; thorough: chunks of 100 so that an exhausted budget also stops the *generation*"""
    if not ctx.thorough:
        ctx.given(strategy, check, n, label=label)
        return
    k = 0
    while n > 0 and not ctx.out_of_time():
        ctx.given(strategy, check, min(100, n), label=f'{label}{k}')
        n -= 100
        k += 1


def run_shard(ctx):
    def counted(case, ctx_):
        for k in list(EXCLUDED) + ['end_gap', 'endjoin_iface', 'bind_kw_nocolon', 'nested_then_ancestor']:
            ctx_.exclude(f'trigger {k} of a listed finding is never drawn (cases generated without it)')
        check_case(case, ctx_)
    prof = PROFILE
    if ctx.thorough:
        prof = dict(PROFILE, max_modules=3, max_free=3, max_routines=3, max_stmts=6)
    explore(ctx, cases(prof), counted, ctx.scale(1500, 30000), 'main')


def replay(case, ctx):
    check_case(case, ctx)
    return [(s, e['detail']) for s, e in ctx.failures.items()]
