"""C38 - temporary hoisting and stack/pool allocation preserve behaviour and provide enough storage."""
import copy
import re

from hypothesis import strategies as st

from ..fprog import gen_scc, scc_run

ID = 'C38'
LEVEL = 'exploration'
TECHNIQUE = ('differential execution (gfortran -fcheck=bounds -fcray-pointer) of generated IFS-style driver/kernel call trees vs the same '
             'trees after hoisting / pool / stack allocation of the kernel temporaries was run through the Scheduler and written with '
             'FileWriteTransformation; overflow guards and bounds checks make undersized storage observable; known root causes '
             'excluded by construction (named trigger flags)')
RULE = ('a case = (program model, allocator variant). the model (fprog/gen_scc.py, shared with C37) is a driver with block loops calling '
        '1-3 kernels (nested calls at top level / under IF / inside a vertical loop, temporaries passed down, callee optionally in a '
        'second module) whose kernels have automatic temporaries of shapes (nlon) (nlon,nz) (nlon,0:nz) (nlon,nz+1) (nlon,3) '
        '(nlon,nz,2) (nz) and types real(jprb) / real(jprm) / integer(jpim) / logical, kernel-side aliases of the size names. '
        'variants: HoistTemporaryArraysAnalysis (dim_vars given or not) + HoistVariablesTransformation (as_kwarguments +-), '
        '+ HoistTemporaryArraysTransformationAllocatable, TemporariesPoolAllocatorTransformation (check_bounds=True, cray_ptr_loc_rhs '
        '+-), TemporariesRawStackTransformation, FtrPtrStackTransformation, DirectIdxStackTransformation (int_kind=jpim), each '
        'stand-alone as in loki/transformations/temporaries/tests or as last stage of the SCC{V,S}Stack / StackFtrPtr / StackDirectIdx / '
        'RawStack pipelines. oracle: stdout(original + PROGRAM) == stdout(files written by loki + same PROGRAM) for 2 input vectors '
        '(exact text); enough storage: the generated overflow guard (STOP) must not fire, -fcheck=bounds must not trap on a stack '
        'array, the candidate must compile. EcstackPoolAllocatorTransformation needs an external module: not claimed. '
        'non-trivial = at least one temporary was hoisted or replaced by stack storage (read off the transformed IR) AND at least 2 '
        'kernels; distinct by hash of (model, variant). the construct that triggers a LISTED known finding (TRIGGER_SIGS / '
        'case_triggers) is generated only by its committed hand-written replay, draws that asked for it are counted as excluded; the '
        'triggers of the C37 findings about the SCC stage are switched off in the model; three hand-written regression programs '
        '(replays/C38/regress-*.json) are evaluated on every run')
ASSUMPTIONS = ['gfortran 12 -O0 with -fcheck=bounds,do -ftrapv -ffpe-trap -fcray-pointer is the reference semantics; !$acc / !$omp lines '
               'are comments',
               'the PROGRAM that initialises the fields, calls the driver and prints never passes through loki',
               'an undersized hoisted (non-stack) array is only observable through changed outputs',
               'while the finding "CONTIGUOUS on the explicit-shape stack dummy" is listed, that attribute is deleted from the '
               'explicit-shape stack declarations of FtrPtr/DirectIdx candidates before compiling (it has no meaning there), so that '
               'the rest of their output is still exercised; the committed replay compiles the unmodified output',
               'while the finding "FtrPtr pointer target section one element too long" is listed, the upper bound of these sections '
               'is reduced by one before compiling, so that -fcheck=bounds still detects any OTHER under-allocation',
               'the compilation units of a project are concatenated into one file before compiling (original and candidate alike)']
SHARDS = {'quick': 6, 'thorough': 16}
BUDGET = {'quick': 80, 'thorough': 1500}

ALLOCATORS = ['hoist', 'hoist-alloc', 'pool', 'rawstack', 'ftrptr', 'directidx']
SCC_PIPE = {'pool': 'SCC{m}StackPipeline', 'ftrptr': 'SCC{m}StackFtrPtrPipeline', 'directidx': 'SCC{m}StackDirectIdxPipeline',
            'rawstack': 'SCC{m}RawStackPipeline'}

TRIGGER_SIGS = {
    'stack_dummy_contiguous': 'C38:stack_dummy_contiguous:candidate-does-not-compile',
    'ftrptr_section_one_too_long': 'C38:ftrptr_section_one_too_long:stack-array-out-of-bounds',
    'directidx_offset_dropped': 'C38:directidx_offset_dropped:wrong-result',
    'directidx_stack_one_short': 'C38:directidx_stack_one_short:stack-array-out-of-bounds',
    'directidx_discontiguous_section': 'C38:directidx_discontiguous_section:wrong-result',
    'rawstack_kind_only_in_callee': 'C38:rawstack_kind_only_in_callee:candidate-does-not-compile',
    'sccs_stack_positional': 'C38:sccs_stack_positional:candidate-does-not-compile',
    'pool_empty_stack': 'C38:pool_empty_stack:wrong-result',
}

# the SCC stage of the SCC*Stack pipelines is judged by C37: the triggers of ITS known findings are switched off here
_COMMON = dict(temp_shapes=['r1', 'r2', 'r2', 'r2z', 'r2p', 'r2c', 'r3', 'v1'], temp_types=['real', 'real', 'real4', 'int', 'log'],
               driver_bounds_in_section=False, edge_uniform=False, uniform_reassign=False)
PROFILE = gen_scc.profile(max_temps=4, **_COMMON)
PROFILE_THOROUGH = gen_scc.profile(max_temps=5, max_kernels=4, max_blocks=7, **_COMMON)


def pool_may_be_empty(m, scc=None):
    """
    True unless some kernel is guaranteed to have a pool-allocated temporary: the allocator skips vertical temporaries, temporaries
    that are never referenced in the kernel body ("Filter out unused vars") and those whose size names are kernel-side aliases; a
    preceding SCC stage may demote temporaries without a non-constant second dimension (conservative)
    """
    if m['ns'].get('alias'):
        return True
    shapes = ('r2', 'r2z', 'r2p', 'r3') if scc else ('r1', 'r2', 'r2z', 'r2p', 'r2c', 'r3')
    return not any(t['shape'] in shapes and gen_scc._mentions(k['body'], t['name']) for k in m['kernels'] for t in k['temps'])


def case_triggers(case):
    """
    trigger flags of listed known findings present in a case:
      ftrptr_section_one_too_long  FtrPtr stack: "t(1:n) => P_STACK(JD:JD + n)" designates n+1 elements, one beyond the end of the stack for
                               the last temporary; present whenever the upper bound is NOT corrected (variant flag keep_ptr_upper)
      directidx_offset_dropped     DirectIdx stack: references whose linear offset is not a sum (t(jl) of a rank-1 temporary) lose the
                               stack position of the temporary
      directidx_stack_one_short    DirectIdx stack: positions start at 1 and the offset of the first element is 1 as well: the last
                               temporary on the deepest path ends one element beyond the stack.
                               (no DirectIdx variant is generated while either of the two is listed; their replays are hand-written)
      directidx_discontiguous_section  DirectIdx stack: an array section of a temporary that is not contiguous in memory
                               (t(start:end, :) with start:end not the whole first dimension) is linearised into ONE contiguous stack
                               section (gen_scc.temp_section_over_levels: some temporary is initialised as t(start:end, :))
      rawstack_kind_only_in_callee Raw stack: a kernel without a stack temporary of some type/kind calls a kernel that has one
                               (gen_scc.rawstack_kind_only_in_callee, conservative)
      sccs_stack_positional        SCCS{RawStack,StackFtrPtr,StackDirectIdx}Pipeline: the sequential revector stage appends the horizontal
                               index to the kernel dummies and passes it by keyword, the stack stage then appends its dummies
                               after it but passes the actuals positionally (same pattern as C37 shoist_positional)
      pool_empty_stack             pool allocator (cray_ptr_loc_rhs=False) when no temporary is pool-allocated (kernel-side size aliases
                               are not recognised by it, only vertical temporaries, or only temporaries that are never referenced, which
                               it filters out): LOC(ZSTACK(1, b)) of a zero-size stack
      stack_dummy_contiguous   FtrPtr / DirectIdx stack: the explicit-shape stack dummy is declared CONTIGUOUS (rejected by gfortran);
                               present whenever the attribute is NOT stripped (variant flag keep_contiguous)
    """
    v = case['variant']
    if 'triggers' in case:          # hand-written replays name their triggers
        return list(case['triggers'])
    t = []
    if v['alloc'] in ('ftrptr', 'directidx') and v.get('keep_contiguous'):
        t.append('stack_dummy_contiguous')
    if v['alloc'] == 'ftrptr' and v.get('keep_ptr_upper'):
        t.append('ftrptr_section_one_too_long')
    if v['alloc'] == 'pool' and not v.get('loc_rhs') and 'model' in case and pool_may_be_empty(case['model'], v.get('scc')):
        t.append('pool_empty_stack')
    if v['alloc'] == 'directidx' and 'model' in case and gen_scc.temp_section_over_levels(case['model']):
        t.append('directidx_discontiguous_section')
    if v.get('scc') == 'S' and v['alloc'] in ('rawstack', 'ftrptr', 'directidx'):
        t.append('sccs_stack_positional')
    if v['alloc'] == 'rawstack' and 'model' in case and gen_scc.rawstack_kind_only_in_callee(case['model']):
        t.append('rawstack_kind_only_in_callee')
    return t


def make_steps(v):
    def steps(horizontal, vertical, blocking):
        from loki.transformations import temporaries as tp
        from loki.transformations import single_column as sc
        from loki.transformations.pragma_model import PragmaModelTransformation
        a = v['alloc']
        if v.get('scc'):
            kw = dict(horizontal=horizontal, block_dim=blocking, directive='openacc', trim_vector_sections=False,
                      demote_local_arrays=bool(v.get('demote', 1)), check_bounds=True)
            if a == 'pool':
                kw['cray_ptr_loc_rhs'] = bool(v.get('loc_rhs'))
            if a in ('ftrptr', 'directidx'):
                kw['int_kind'] = 'jpim'
            return [getattr(sc, SCC_PIPE[a].format(m=v['scc']))(**kw)]
        if a == 'hoist':
            dv = tuple(horizontal.sizes) if v.get('dim_vars') else None
            return [tp.HoistTemporaryArraysAnalysis(dim_vars=dv),
                    tp.HoistVariablesTransformation(as_kwarguments=bool(v.get('as_kwarguments')))]
        if a == 'hoist-alloc':
            dv = tuple(horizontal.sizes) if v.get('dim_vars') else None
            return [tp.HoistTemporaryArraysAnalysis(dim_vars=dv),
                    tp.HoistTemporaryArraysTransformationAllocatable(as_kwarguments=bool(v.get('as_kwarguments')))]
        if a == 'pool':
            return [tp.TemporariesPoolAllocatorTransformation(block_dim=blocking, horizontal=horizontal, check_bounds=True,
                                                              cray_ptr_loc_rhs=bool(v.get('loc_rhs'))),
                    PragmaModelTransformation()]
        if a == 'rawstack':
            return [tp.TemporariesRawStackTransformation(block_dim=blocking, horizontal=horizontal), PragmaModelTransformation()]
        if a == 'ftrptr':
            return [tp.FtrPtrStackTransformation(block_dim=blocking, horizontal=horizontal, int_kind='jpim'), PragmaModelTransformation()]
        if a == 'directidx':
            return [tp.DirectIdxStackTransformation(block_dim=blocking, horizontal=horizontal, int_kind='jpim'),
                    PragmaModelTransformation()]
        raise ValueError(a)
    return steps


_CONTIG = re.compile(r'(TARGET), CONTIGUOUS(, INTENT\(INOUT\) ::\s*(?:&\s*\n\s*&)?\s*\w+_STACK\(K_\w+_STACK_SIZE\))', re.I)


def strip_contiguous(files):
    return [(n, _CONTIG.sub(r'\1\2', t)) for n, t in files]


_PTRUP = re.compile(r'(=>\s*(?:&\s*\n\s*&\s*)?\w+_STACK\((\w+):\2 \+ [^\n]*)\)[ \t]*$', re.I | re.M)


def fix_ptr_upper(files):
    return [(n, _PTRUP.sub(r'\1 - 1)', t)) for n, t in files]


def stack_storage_used(cand):
    txt = '\n'.join(t for _, t in cand).upper()
    return any(k in txt for k in ('_STACK', 'YLSTACK', 'POINTER('))


def check_case(case, ctx):
    v = case['variant']
    feat = case['model']['feat'] if 'model' in case else []
    files, main, orig = scc_run.original(case)
    if not orig.ok:
        ctx.exclude('original-traps-at-runtime(UB)')
        ctx.case(case, False, ['ub-excluded'])
        return
    name = v['alloc'] + (f'+scc{v["scc"]}' if v.get('scc') else '')
    classes = [name] + [f'opt:{k}' for k in ('loc_rhs', 'as_kwarguments', 'dim_vars') if v.get(k)] + list(feat)
    try:
        cand, info = scc_run.apply(case, files, make_steps(v))
    except Exception as e:  # noqa: loki raised on a generated input
        if not scc_run.raised_inside_loki(e):
            raise                                   # our own bug: harness error, never a rejection
        ctx.reject(e, case)
        ctx.case(case, False, classes + ['rejected'])
        return
    if v['alloc'] in ('ftrptr', 'directidx') and not v.get('keep_contiguous'):
        cand = strip_contiguous(cand)
    if v['alloc'] == 'ftrptr' and not v.get('keep_ptr_upper'):
        cand = fix_ptr_upper(cand)
    nk = len(case['model']['kernels']) if 'model' in case else 2
    moved = info['hoisted'] >= 1 or (v['alloc'] not in ('hoist', 'hoist-alloc') and stack_storage_used(cand[1:]))
    nontrivial = nk >= 2 and moved
    for k in ('demoted', 'hoisted', 'removed'):
        if info[k]:
            classes.append(f'temporaries-{k}')
    if moved:
        classes.append('temporaries-in-hoisted-or-stack-storage')
    ctx.case(case, nontrivial, classes)
    if nontrivial and (not ctx.samples or (len(ctx.samples) < 3 and ctx.evaluations % 4 == 0)):
        ctx.sample({'variant': v, 'transformed': '\n'.join(t for n, t in cand if n != 'parkind1.F90')[:3000]})
    if ctx.budget is not None and ctx.time_left() < -120:
        ctx.note('evaluation abandoned before the candidate build: budget exceeded by more than 120 s (overloaded machine)')
        return
    res = scc_run.build_run('cand', cand, main)
    bad = scc_run.compare(orig, res)
    if bad:
        scc_run.generator_selfcheck(case, orig)
        kind, detail = bad
        if kind == 'wrong-result' and res.ok and len(res.out) < len(orig.out) and orig.out.startswith(res.out):
            kind = 'stack-overflow-guard-fired(STOP)'
        elif kind == 'wrong-result' and not res.ok and ('bound' in res.err or 'outside of expected range' in res.err) and '_STACK' in res.err.upper():
            kind = 'stack-array-out-of-bounds'
        tags = '+'.join(case_triggers(case)) or f'{name}:unlisted'
        ctx.fail(f'C38:{tags}:{kind}', case, detail)


@st.composite
def cases(draw, prof, triggers, first=0, salt=None):
    m = draw(gen_scc.model(prof, salt))
    g = gen_scc.G(draw, None if salt is None else salt + 1)
    n = g.i(2, 3)
    vs, avoided = [], []
    for j in range(n):
        a = ALLOCATORS[(first + j + g.i(0, len(ALLOCATORS) - 1)) % len(ALLOCATORS)]
        if a == 'directidx' and not (triggers['directidx_offset_dropped'] and triggers['directidx_stack_one_short']):
            # every DirectIdx variant runs into one of the two listed findings: none is generated while either is listed
            avoided.append('directidx_offset_dropped|directidx_stack_one_short')
            a = 'rawstack'
        if a == 'directidx' and not triggers['directidx_discontiguous_section'] and gen_scc.temp_section_over_levels(m):
            avoided.append('directidx_discontiguous_section')
            a = 'rawstack'
        if a == 'rawstack' and not triggers['rawstack_kind_only_in_callee'] and gen_scc.rawstack_kind_only_in_callee(m):
            avoided.append('rawstack_kind_only_in_callee')
            a = 'pool'
        v = dict(alloc=a)
        if a in SCC_PIPE and g.chance(30):
            v['scc'] = g.pick(['V', 'S'])
            if v['scc'] == 'S' and a != 'pool' and not triggers['sccs_stack_positional']:
                avoided.append('sccs_stack_positional')
                v['scc'] = 'V'
            v['demote'] = int(not g.chance(30))
        if a == 'pool':
            v['loc_rhs'] = int(g.chance(50))
            if not v['loc_rhs'] and not triggers['pool_empty_stack'] and pool_may_be_empty(m, v.get('scc')):
                avoided.append('pool_empty_stack')
                v['loc_rhs'] = 1
        if a in ('hoist', 'hoist-alloc'):
            v['as_kwarguments'] = int(g.chance(40))
            v['dim_vars'] = int(g.chance(40))
        if a in ('ftrptr', 'directidx'):
            v['keep_contiguous'] = int(triggers['stack_dummy_contiguous'])
            if not v['keep_contiguous']:
                avoided.append('stack_dummy_contiguous')
        if a == 'ftrptr':
            v['keep_ptr_upper'] = int(triggers['ftrptr_section_one_too_long'])
            if not v['keep_ptr_upper']:
                avoided.append('ftrptr_section_one_too_long')
        vs.append(v)
    return {'model': m, 'variants': vs, 'avoided': avoided}


def check_group(group, ctx):
    for t in group.get('avoided', []):
        ctx.exclude(f'trigger-of-listed-known-finding:{t}')
    for v in group['variants']:
        if ctx.out_of_time():
            return
        check_case({'model': group['model'], 'variant': v}, ctx)


def run_shard(ctx):
    triggers = {t: (sig not in ctx.known_sigs) for t, sig in TRIGGER_SIGS.items()}
    prof = PROFILE_THOROUGH if ctx.thorough else PROFILE
    ctx.given(cases(prof, triggers, first=ctx.shard, salt=ctx.seed), check_group, ctx.scale(100, 2400), shrink=ctx.thorough)


def replay(case, ctx):
    check_case(copy.deepcopy(case), ctx)
    return [(s, e['detail']) for s, e in ctx.failures.items()]
