"""C27 - dependency queries report every actual loop-carried or read-after-write value."""
from ..core import exc_bucket
from ..fprog import gen, harness, interp
from .. import dfa_common as dc

ID = 'C27'
LEVEL = 'exploration'
TECHNIQUE = 'element-level value-flow ground truth from a reference-interpreter trace must be contained in loop_carried_dependencies / read_after_write_vars'
RULE = ('programs as for C26 (loops with recurrences, accumulators, shifted array reads, conditionally updated scalars, ASSOCIATE blocks) without '
        'size/lbound/ubound references. For every read in the trace the last write of the same storage element is looked up and the two '
        'execution contexts are compared: if they diverge at two iterations i<j of the same loop execution the variable is truly loop-carried '
        'for that loop; if they diverge at sibling statements s_w < s_r of one execution of a body, the value truly flows across every '
        'inspection point k with s_w < k <= s_r. Oracle: the variable is in loop_carried_dependencies(loop) resp. '
        'read_after_write_vars(body, node_k). Inspection bodies: routine body and loop bodies. A miss is classified by root cause from the '
        'analysed IR (model of FindReads that records where the candidate was dropped; mirror of the kill rule of _visit_body). '
        'non-trivial = the trace has at least one true carried or read-after-write flow; distinct by case hash')
ASSUMPTIONS = ['element-level truth is a subset of any sound variable-level report, so imprecision of the analysis cannot alarm, only misses',
               'DO variables are exempt (documented)', 'reads/writes inside callees are attributed to the call statement of the inspected routine',
               'an associate name and its selector are the same variable: loki may report either spelling',
               'interpreter self-check as for C26 (classes selfcheck:*)']
SHARDS = {'quick': 8, 'thorough': 16}
BUDGET = {'quick': 70, 'thorough': 1500}

# inquiry=False: size/lbound/ubound of a variable that is also read in the same expression is a listed finding of C26
# (and one listed manifestation here, kept alive by its replay); excluded by construction in the search
PROFILE = dict(dc.PROFILE)   # (inquiry functions are generated again: the mem-query defect was repaired in /repo, b8e835a)
EXCLUDED_INQUIRY = 'size/lbound/ubound references not generated (known: mem-query-argument)'


names_of = dc.names_of


def flows(trace, frame_id):
    """
    yields ('carried', loop_path, cell) and ('raw', parent_body_path, iw, ir, cell) facts
    (paths relative to the routine, iw/ir = sibling statement indices)
    """
    last = {}
    out = set()

    def via(stack):
        """path of the kernel-frame call statement through which a deeper frame performed the access, else None"""
        if stack and stack[-1][1] != frame_id:
            for ent in reversed(stack):
                if ent[0] == 's' and ent[1] == frame_id:
                    return ent[2]
        return None

    def inner(stack):
        """innermost statement of the inspected frame in whose execution the access happened"""
        for ent in reversed(stack):
            if ent[0] == 's' and ent[1] == frame_id:
                return ent[2]
        return None

    for kind, cid, idx, ctx in trace.events:
        stack = trace.ctx_table[ctx]
        if kind == 'w':
            last[(cid, idx)] = stack
            continue
        w = last.get((cid, idx))
        if w is None:
            continue
        d = 0
        while d < len(w) and d < len(stack) and w[d] == stack[d]:
            d += 1
        if d >= len(w) or d >= len(stack):
            continue   # same statement execution (or one contains the other): no flow across a point
        a, b = w[d], stack[d]
        if a[1] != frame_id or b[1] != frame_id:
            continue
        if a[0] == 'i' and b[0] == 'i' and a[2] == b[2] and a[3] == b[3]:
            if a[4] < b[4]:
                out.add(('carried', a[2], inner(stack), via(stack), cid))
        elif a[0] == 's' and b[0] == 's':
            pa, pb = a[2].rsplit('.', 1), b[2].rsplit('.', 1)
            if pa[0] == pb[0] and pa[1].isdigit() and pb[1].isdigit():
                iw, ir = int(pa[1]), int(pb[1])
                if iw < ir:
                    out.add(('raw', pa[0], iw, ir, inner(stack), via(stack), cid))
    return out


from .c26 import vars_in, callee_intents, mem_query_args, header_exprs  # noqa: E402


def use_miss_reason(case, table, node, v, rinner, arrays):
    """
    why is ``v`` (read inside ``node`` by the statement at path ``rinner``) not in ``node.uses_symbols``?
    One root cause = one answer, decided from the analysed IR:
      partial-array-write-treated-as-full-definition  an earlier sibling that defines v on every path (possible only for
                                                      a write of *other* elements of an array) removed the use
      may-define-kills-use                            only conditional / zero-trip / masked definitions removed the use
      mem-query-argument                              the reading statement also passes v to size/lbound/ubound/present
      call:dummy-intent=..                            the reading statement is a CALL
      <class>                                         anything else
    """
    line = table[rinner]['line'] if rinner in table else None
    cause = dc.use_drop_cause(node, v, line)
    if cause == 'definite-define' and v in arrays:
        return 'partial-array-write-treated-as-full-definition'
    if cause in ('may-define', 'definite-define'):
        return 'may-define-kills-use'
    ent = table.get(rinner)
    if ent is not None and ent['kind'] == 'call':
        st = ent['stmt']
        actuals = list(st[2]) + list((st[3] if len(st) > 3 and st[3] else {}).values())
        ints = callee_intents(case, st)
        bound = sorted({str(ints[k]) if k < len(ints) else '?' for k, a_ in enumerate(actuals) if v in dc.fold(vars_in(a_))})
        return 'reader-uses-set-misses-it:call:dummy-intent=' + (bound[0] if bound else 'not-an-argument')
    if ent is not None and v in dc.fold(mem_query_args(header_exprs(ent['stmt']))):
        return 'reader-uses-set-misses-it:mem-query-argument'
    return f'reader-uses-set-misses-it:{type(node).__name__}'


def diagnose_raw(ir_root, start, v, names_of=names_of):
    """
    Model of ``FindReads(start=start, candidate_set={v}, clear_candidates_on_write=True).visit(ir_root)`` for one
    variable that records *where* the candidate is registered as read or dropped. Returns (events, ) with events
    ('read', node) / ('clear', node, enclosing-chain) in visiting order.
    """
    from loki.ir import nodes as ir
    events = []
    state = {'active': False}

    def expr_names(e):
        from loki import FindVariables
        return names_of(FindVariables().visit(e))

    def reads(o, cand, names):
        if state['active'] and cand and v in names:
            events.append(('read', o))

    def walk(o, cand, chain):
        if isinstance(o, (tuple, list)):
            for c in o:
                cand = walk(c, cand, chain)
            return cand
        if not isinstance(o, ir.Node):
            return cand
        if o is start:
            state['active'] = True
        if isinstance(o, ir.Conditional):
            reads(o, cand, expr_names(o.condition))
            c1 = walk(tuple(o.body), cand, chain + (o,))
            c2 = walk(tuple(o.else_body or ()), cand, chain + (o,))
            return c1 or c2
        if isinstance(o, ir.Loop):
            reads(o, cand, expr_names(o.bounds))
            return walk(tuple(o.body), cand, chain + (o,))
        if isinstance(o, ir.WhileLoop):
            reads(o, cand, expr_names(o.condition))
            return walk(tuple(o.body), cand, chain + (o,))
        if isinstance(o, ir.LeafNode):
            if state['active']:
                reads(o, cand, names_of(o.uses_symbols))
                if v in names_of(o.defines_symbols):
                    if cand:
                        events.append(('clear', o, chain))
                    return False
            return cand
        return walk(tuple(getattr(o, 'body', ()) or ()), cand, chain + (o,))

    walk(ir_root, True, ())
    return events


def clear_reason(ev, v, arrays):
    """classify the node at which FindReads dropped the candidate ``v`` although its value is still read later"""
    from loki.ir import nodes as ir
    _, node, chain = ev
    if v in arrays:
        if isinstance(node, ir.Assignment) and getattr(node.lhs, 'dimensions', None):
            return 'partial-array-write-treated-as-full-definition'
        if isinstance(node, (ir.CallStatement, ir.MaskedStatement)):
            return 'partial-array-write-treated-as-full-definition'
    if isinstance(node, (ir.MultiConditional, ir.TypeConditional, ir.MaskedStatement)) \
            or any(isinstance(c, (ir.Loop, ir.WhileLoop)) for c in chain):
        return 'candidate-cleared-by-write-that-may-not-execute'
    if v in arrays:
        return 'partial-array-write-treated-as-full-definition'
    return f'candidate-cleared-by:{type(node).__name__}'


def check_case(case, ctx):
    rendered = harness.render_case(case)
    dc.set_alias_map(case)
    try:
        runs = dc.run_traced(case)
    except interp.UB:
        ctx.exclude('undefined-behaviour-by-interpreter')
        ctx.case(case, False, ['ub-excluded'])
        return
    except interp.Unsupported as e:
        ctx.exclude(f'interpreter-unsupported:{str(e)[:30]}')
        ctx.case(case, False, ['unsupported'])
        return
    if dc.selfcheck_sampled(case, ctx.thorough):
        verdict = dc.interpreter_vs_gfortran(case, rendered, runs)
        ctx.count('selfcheck:' + (verdict if verdict in ('ok', 'native-traps', 'skipped') else 'MISMATCH'))
        if verdict == 'native-traps':
            ctx.exclude('original-traps-at-runtime(UB not seen by the interpreter)')
            ctx.case(case, False, ['ub-excluded'])
            return
        if verdict not in ('ok', 'skipped'):
            ctx.fail('%s:harness:reference-interpreter-disagrees-with-gfortran' % ID, case, verdict)
    try:
        sf, routine = dc.parse_kernel(rendered, case['entry']['name'])
    except Exception as e:  # noqa
        ctx.reject(e, None)
        ctx.case(case, False, ['rejected'])
        return
    from loki.analyse import dataflow_analysis_attached, loop_carried_dependencies, read_after_write_vars, FindWrites
    from loki.ir import nodes as lir
    table = dc.statement_table(case, rendered)
    dovars = dc.do_variables(case)
    arrays = dc.array_names(case)
    classes = set()
    nontrivial = False

    def reading_leaf(reader, rinner):
        """the outermost loki LeafNode on the way from the reading sibling down to the statement that performed the read
        (FindReads consults the uses set of that node and does not look inside it)"""
        parts = (rinner or reader).split('.')
        for k in range(len(reader.split('.')), len(parts) + 1):
            q = '.'.join(parts[:k])
            if q in nodes and isinstance(nodes[q], lir.LeafNode):
                return nodes[q]
        return nodes.get(reader)

    try:
        with dataflow_analysis_attached(routine):
            nodes = dc.map_nodes(routine, table)
            carried_cache, raw_cache, writes_cache = {}, {}, {}
            for it, fid in runs:
                names = it.trace.frames[fid]['names']
                for fact in sorted(flows(it.trace, fid), key=str):
                    vs = {nm for nm in names.get(fact[-1], ())} - dovars
                    if not vs:
                        continue
                    rinner, rvia = fact[-3], fact[-2]
                    # a read performed inside a callee (CALL or function reference) of a variable that the calling
                    # statement does not mention is a host-associated read of an internal procedure
                    host_read = False
                    if rvia is not None:
                        q = rvia
                        while q not in table and '.' in q:      # e.g. the statement of a one-line IF shares its line
                            q = q.rsplit('.', 1)[0]
                        host_read = q not in table or not (vs & dc.fold(vars_in(header_exprs(table[q]['stmt']))))
                    if fact[0] == 'carried':
                        lp = fact[1]
                        node = nodes.get(lp)
                        if node is None or type(node).__name__ != 'Loop':
                            continue
                        nontrivial = True
                        classes.add('carried-flow')
                        classes.add('carried-flow:' + ('array' if vs & arrays else 'scalar'))
                        if lp not in carried_cache:
                            carried_cache[lp] = names_of(loop_carried_dependencies(node))
                        rep = carried_cache[lp]
                        for v in sorted(vs - rep):
                            in_d, in_u = v in names_of(node.defines_symbols), v in names_of(node.uses_symbols)
                            if host_read:
                                why = 'read-by-internal-procedure-through-host-association'
                            elif in_d and not in_u:
                                why = use_miss_reason(case, table, node, v, rinner, arrays)
                            elif in_u and not in_d:
                                why = 'used-but-not-in-defines'
                            elif not in_u:
                                why = 'neither-used-nor-defined'
                            else:
                                why = 'in-both-but-missing'
                            ctx.fail(f'C27:loop-carried-missed:{why}', case,
                                     f'loop {lp}: {v} written in an earlier and read in a later iteration (read by {rinner}); '
                                     f'reported {sorted(rep)}; stmt={str(table[lp]["stmt"])[:300]}')
                    else:
                        _, parent, iw, ir_, rinner, _rv, cid = fact
                        if parent == 'body':
                            ir_root = routine.body
                        else:
                            # parent like 'body.3.b' -> loop body of the node at 'body.3'
                            if not parent.endswith('.b'):
                                continue
                            pnode = nodes.get(parent[:-2])
                            if pnode is None or type(pnode).__name__ not in ('Loop', 'WhileLoop'):
                                continue
                            ir_root = pnode.body
                        for k in range(iw + 1, ir_ + 1):
                            node = nodes.get(f'{parent}.{k}')
                            if node is None:
                                continue
                            nontrivial = True
                            classes.add('raw-flow' + ('' if parent == 'body' else ':in-loop-body'))
                            classes.add('raw-flow:' + ('array' if vs & arrays else 'scalar'))
                            if k < ir_:
                                classes.add('raw-flow:statements-between-point-and-read')
                            key = (parent, k)
                            if key not in raw_cache:
                                raw_cache[key] = names_of(read_after_write_vars(ir_root, node))
                            rep = raw_cache[key]
                            for v in sorted(vs - rep):
                                reader = f'{parent}.{ir_}'
                                if key not in writes_cache:
                                    fw = FindWrites(stop=node, active=True)
                                    fw.visit(ir_root)
                                    writes_cache[key] = (names_of(fw.writes), dc.spelled_names_of(fw.writes))
                                if host_read:
                                    why = 'read-by-internal-procedure-through-host-association'
                                elif v not in writes_cache[key][0]:
                                    why = 'writer-defines-set-misses-it:' + table.get(f'{parent}.{iw}', {}).get('kind', '?')
                                elif v not in writes_cache[key][1]:
                                    # written through an associate name: the candidate carries that name, not the selector's
                                    why = 'associate-name-not-resolved-to-selector'
                                else:
                                    events = diagnose_raw(ir_root, node, v)
                                    clears = [e for e in events if e[0] == 'clear']
                                    rnode = reading_leaf(reader, rinner)
                                    if any(e[0] == 'read' for e in events):
                                        # the model sees the read when associate names are folded to their selectors;
                                        # does it also see it with the names as loki spells them?
                                        spelled = diagnose_raw(ir_root, node, v, names_of=dc.spelled_names_of)
                                        why = 'query-logic:model-of-FindReads-predicts-a-report' \
                                            if any(e[0] == 'read' for e in spelled) else 'associate-name-not-resolved-to-selector'
                                    elif clears and clears[0][1] is not rnode:
                                        why = clear_reason(clears[0], v, arrays)
                                    elif rnode is None:
                                        why = 'no-read-registered'
                                    else:
                                        # the leaf node that contains the read does not list v in its uses set
                                        why = use_miss_reason(case, table, rnode, v, rinner or reader, arrays)
                                ctx.fail(f'C27:read-after-write-missed:{why}', case,
                                         f'{v} written by statement {parent}.{iw} and read by {reader} (in {rinner}), '
                                         f'inspection point {parent}.{k}; reported {sorted(rep)}')
    except Exception as e:  # noqa
        ctx.fail(f'C27:query-raises:{exc_bucket(e)}', case, repr(e)[:400])
    ctx.case(case, nontrivial, sorted(classes))
    if len(ctx.samples) < 2:
        ctx.sample({'source': rendered[0]['text'][:2500]})


def search_case(case, ctx):
    ctx.exclude(dc.EXCLUDED_BY_CONSTRUCTION)
    check_case(case, ctx)


def run_shard(ctx):
    # in chunks: once the time budget is used up Hypothesis still *generates* the remaining examples of a run
    # (quick: one run of 150 examples per shard, label 'main')
    total, done, k = ctx.scale(1200, 20000), 0, 0
    while done < total and not ctx.out_of_time():
        n = min(250, total - done)
        ctx.given(dc.cases(PROFILE), search_case, n, label='main' if k == 0 else f'main{k}')
        done += n
        k += 1


def replay(case, ctx):
    check_case(case, ctx)
    return [(s, e['detail']) for s, e in ctx.failures.items()]
