"""C27 - dependency queries report every actual loop-carried or read-after-write value."""
from ..core import exc_bucket
from ..fprog import gen, harness, interp
from .. import dfa_common as dc

ID = 'C27'
LEVEL = 'exploration'
TECHNIQUE = 'element-level value-flow ground truth from a reference-interpreter trace must be contained in loop_carried_dependencies / read_after_write_vars'
RULE = ('programs as for C26 (loops with recurrences, accumulators, shifted array reads, conditionally updated scalars). For every read in the '
        'trace the last write of the same storage element is looked up and the two execution contexts are compared: if they diverge at two '
        'iterations i<j of the same loop execution the variable is truly loop-carried for that loop; if they diverge at sibling statements '
        's_w < s_r of one execution of a body, the value truly flows across every inspection point k with s_w < k <= s_r. Oracle: the variable is '
        'in loop_carried_dependencies(loop) resp. read_after_write_vars(body, node_k). Inspection bodies: routine body and loop bodies. '
        'non-trivial = the trace has at least one true carried or read-after-write flow; distinct by case hash')
ASSUMPTIONS = ['element-level truth is a subset of any sound variable-level report, so imprecision of the analysis cannot alarm, only misses',
               'DO variables are exempt (documented)', 'reads/writes inside callees are attributed to the call statement of the inspected routine']
SHARDS = {'quick': 8, 'thorough': 16}
BUDGET = {'quick': 70, 'thorough': 1500}

PROFILE = dc.PROFILE


def names_of(symbols):
    return {str(getattr(s, 'name', s)).lower().split('%')[0] for s in symbols}


def flows(trace, frame_id):
    """
    yields ('carried', loop_path, cell) and ('raw', parent_body_path, iw, ir, cell) facts
    (paths relative to the routine, iw/ir = sibling statement indices)
    """
    last = {}
    out = set()

    def via(stack):
        """path of the kernel-frame call statement through which a deeper frame performed the access, else None"""
        if stack and stack[-1][1] != frame_id:
            for ent in reversed(stack):
                if ent[0] == 's' and ent[1] == frame_id:
                    return ent[2]
        return None

    def inner(stack):
        """innermost statement of the inspected frame in whose execution the access happened"""
        for ent in reversed(stack):
            if ent[0] == 's' and ent[1] == frame_id:
                return ent[2]
        return None

    for kind, cid, idx, ctx in trace.events:
        stack = trace.ctx_table[ctx]
        if kind == 'w':
            last[(cid, idx)] = stack
            continue
        w = last.get((cid, idx))
        if w is None:
            continue
        d = 0
        while d < len(w) and d < len(stack) and w[d] == stack[d]:
            d += 1
        if d >= len(w) or d >= len(stack):
            continue   # same statement execution (or one contains the other): no flow across a point
        a, b = w[d], stack[d]
        if a[1] != frame_id or b[1] != frame_id:
            continue
        if a[0] == 'i' and b[0] == 'i' and a[2] == b[2] and a[3] == b[3]:
            if a[4] < b[4]:
                out.add(('carried', a[2], inner(stack), via(stack), cid))
        elif a[0] == 's' and b[0] == 's':
            pa, pb = a[2].rsplit('.', 1), b[2].rsplit('.', 1)
            if pa[0] == pb[0] and pa[1].isdigit() and pb[1].isdigit():
                iw, ir = int(pa[1]), int(pb[1])
                if iw < ir:
                    out.add(('raw', pa[0], iw, ir, inner(stack), via(stack), cid))
    return out


from .c26 import vars_in, callee_intents  # noqa: E402


def why_uses_missing(case, table, nodes, reader, rinner, v):
    """attribute 'v is read inside `reader` but not in its uses set' to the innermost node that shows it"""
    p = rinner
    # walk from the innermost statement that performed the read up to the reader
    chain = []
    while p and len(p) >= len(reader):
        if p in nodes:
            chain.append(p)
        if p == reader or '.' not in p:
            break
        p = p.rsplit('.', 1)[0]
    for q in chain:
        n = nodes[q]
        if v in names_of(n.uses_symbols):
            continue
        kind = table[q]['kind']
        if kind == 'call':
            ints = callee_intents(case, table[q]['stmt'])
            if any(i is None for i in ints):
                return 'reader-uses-set-misses-it:call-with-dummy-without-intent'
            return 'reader-uses-set-misses-it:call:intents=' + ','.join(sorted({str(i) for i in ints}))
        if v in names_of(n.defines_symbols):
            return 'reader-uses-set-misses-it:may-define-kills-use'
        return f'reader-uses-set-misses-it:{type(n).__name__}'
    return 'reader-uses-set-misses-it:unattributed'


def check_case(case, ctx):
    rendered = harness.render_case(case)
    try:
        runs = dc.run_traced(case)
    except interp.UB:
        ctx.exclude('undefined-behaviour-by-interpreter')
        ctx.case(case, False, ['ub-excluded'])
        return
    except interp.Unsupported as e:
        ctx.exclude(f'interpreter-unsupported:{str(e)[:30]}')
        ctx.case(case, False, ['unsupported'])
        return
    try:
        sf, routine = dc.parse_kernel(rendered, case['entry']['name'])
    except Exception as e:  # noqa
        ctx.reject(e, None)
        ctx.case(case, False, ['rejected'])
        return
    from loki.analyse import dataflow_analysis_attached, loop_carried_dependencies, read_after_write_vars
    table = dc.statement_table(case, rendered)
    dovars = dc.do_variables(case)
    classes = set()
    nontrivial = False
    try:
        with dataflow_analysis_attached(routine):
            nodes = dc.map_nodes(routine, table)
            carried_cache, raw_cache = {}, {}
            for it, fid in runs:
                names = it.trace.frames[fid]['names']
                for fact in sorted(flows(it.trace, fid), key=str):
                    vs = {nm for nm in names.get(fact[-1], ())} - dovars
                    if not vs:
                        continue
                    rvia = fact[-2]
                    host_read = False
                    if rvia is not None and rvia in table and table[rvia]['kind'] == 'call':
                        st = table[rvia]['stmt']
                        actual = set()
                        for a_ in list(st[2]) + list((st[3] if len(st) > 3 and st[3] else {}).values()):
                            actual |= vars_in(a_)
                        host_read = not (vs & actual)
                    elif rvia is not None:
                        host_read = True    # read inside a function referenced in an expression or an untabulated call
                    if fact[0] == 'carried':
                        lp = fact[1]
                        node = nodes.get(lp)
                        if node is None or type(node).__name__ != 'Loop':
                            continue
                        nontrivial = True
                        classes.add('carried-flow')
                        if lp not in carried_cache:
                            carried_cache[lp] = names_of(loop_carried_dependencies(node))
                        rep = carried_cache[lp]
                        for v in sorted(vs - rep):
                            both = (v in names_of(node.defines_symbols), v in names_of(node.uses_symbols))
                            why = {(True, False): 'defined-but-not-in-uses(may-define-kills-use)', (False, True): 'used-but-not-in-defines',
                                   (False, False): 'neither-used-nor-defined', (True, True): 'in-both-but-missing'}[both]
                            if host_read:
                                why = 'read-by-internal-procedure-through-host-association'
                            classes.add('carried-flow:' + ('host-read' if host_read else 'direct'))
                            ctx.fail(f'C27:loop-carried-missed:{why}', case,
                                     f'loop {lp}: {v} written in an earlier and read in a later iteration; reported {sorted(rep)}; '
                                     f'stmt={str(table[lp]["stmt"])[:300]}')
                    else:
                        _, parent, iw, ir_, rinner, _rv, cid = fact
                        if parent == 'body':
                            ir_root = routine.body
                        else:
                            # parent like 'body.3.b' -> loop body of the node at 'body.3'
                            if not parent.endswith('.b'):
                                continue
                            pnode = nodes.get(parent[:-2])
                            if pnode is None or type(pnode).__name__ not in ('Loop', 'WhileLoop'):
                                continue
                            ir_root = pnode.body
                        for k in range(iw + 1, ir_ + 1):
                            node = nodes.get(f'{parent}.{k}')
                            if node is None:
                                continue
                            nontrivial = True
                            classes.add('raw-flow' + ('' if parent == 'body' else ':in-loop-body'))
                            key = (parent, k)
                            if key not in raw_cache:
                                raw_cache[key] = names_of(read_after_write_vars(ir_root, node))
                            rep = raw_cache[key]
                            for v in sorted(vs - rep):
                                wnode, rnode = nodes.get(f'{parent}.{iw}'), nodes.get(f'{parent}.{ir_}')
                                rkind = table.get(f'{parent}.{ir_}', {}).get('kind', '?')
                                wkind = table.get(f'{parent}.{iw}', {}).get('kind', '?')
                                if host_read:
                                    why = 'read-by-internal-procedure-through-host-association'
                                elif rnode is not None and v not in names_of(rnode.uses_symbols):
                                    why = why_uses_missing(case, table, nodes, f'{parent}.{ir_}', rinner, v)
                                elif wnode is not None and v not in names_of(wnode.defines_symbols):
                                    why = f'writer-defines-set-misses-it:{wkind}'
                                else:
                                    between = [(table.get(f'{parent}.{j}', {}).get('kind'), nodes.get(f'{parent}.{j}')) for j in range(k, ir_)]
                                    clearing = sorted({bk for bk, b in between if b is not None and v in names_of(b.defines_symbols)})
                                    if clearing:
                                        why = 'candidate-cleared-by-intermediate-partial-or-conditional-write'
                                        classes.add('raw-cleared-by:' + clearing[0])
                                    else:
                                        why = f'query-logic:writer={wkind}:reader={rkind}'
                                ctx.fail(f'C27:read-after-write-missed:{why}', case,
                                         f'{v} written by statement {parent}.{iw} and read by {parent}.{ir_}, inspection point {parent}.{k}; '
                                         f'reported {sorted(rep)}')
    except Exception as e:  # noqa
        ctx.fail(f'C27:query-raises:{exc_bucket(e)}', case, repr(e)[:400])
    ctx.case(case, nontrivial, sorted(classes))
    if len(ctx.samples) < 2:
        ctx.sample({'source': rendered[0]['text'][:2500]})


def run_shard(ctx):
    ctx.given(gen.cases(PROFILE), check_case, ctx.scale(1200, 20000))


def replay(case, ctx):
    check_case(case, ctx)
    return [(s, e['detail']) for s, e in ctx.failures.items()]
