"""C23 - batch processing does not depend on the letter case of names."""
import copy
import gc
import os

from hypothesis import strategies as st

from ..core import exc_bucket
from ..project import gen, harness, refgraph

ID = 'C23'
LEVEL = 'exploration'
TECHNIQUE = ('metamorphic: generated multi-file project + config run twice through the Scheduler (lower-case vs. '
             'case-permuted sources, config keys/values, seeds, name-valued transformation options); plus unit-level '
             'Item eq/hash/set/dict/graph-membership consistency over case variants')
RULE = ('cases = (project description, config+seeds, source casing, config/option casing, parse mode, pipeline in '
        '{probe, DuplicateKernel(+subgraph), RemoveKernel, DependencyTransformation}); run A renders everything '
        'lower-case, run B applies the case permutation; compared after lower-casing: graph (names, kinds, edges, '
        'is_ignored), probe visit sequence (weakened to same multiset + both topologically valid when only the '
        'order differs: discovery iterates a set() of paths), item cache keys and graph after the pipeline, written '
        'files. non-trivial = the permutation changes the spelling of a name that a config entry, a seed or a '
        'transformation option refers to AND the graph has >= 3 items; distinct by JSON hash of the whole case')
ASSUMPTIONS = ['run A (all lower-case) is the reference behaviour; a loki exception in run A is a rejected input',
               'each run executes with the cyclic garbage collector off (collected between runs): loki results that depend on '
               'collector timing (dead weakly referenced scopes) are outside this property',
               'generated Fortran is valid (gfortran-checked by the generator self-test) and case-insensitive by the standard',
               'role/mode strings are not names and are left unchanged']
SHARDS = {'quick': 8, 'thorough': 16}
BUDGET = {'quick': 60, 'thorough': 1200}

PROFILE = gen.profile()          # core profile (triggers of listed C21 findings switched off)
PROFILE['iface_same_module'] = True       # repaired in /repo by 9676bad: generated again (no boost)
IGNORE_CASE = {
    'dep': 'DependencyTransformation: mixed-case spelling of an `ignore` entry (listed finding '
           'C23:dep:mixed-case-ignore-entry-not-renamed), entry kept lower-case',
    'dupsub': 'DuplicateKernel(duplicate_subgraph=True): mixed-case spelling of an `ignore` entry (listed finding '
              'C23:dupsub:mixed-case-ignore-entry-not-honoured), entry kept lower-case',
}

def perm(s, bits):
    return ''.join(c.upper() if (bits >> (i % 12)) & 1 else c for i, c in enumerate(s))


class KCase:
    def __init__(self, bits):
        self.bits = bits or [0]
        self.k = 0
        self.changed = 0

    def __call__(self, s):
        b = self.bits[self.k % len(self.bits)]
        self.k += 1
        out = perm(s, b)
        if out != s:
            self.changed += 1
        return out


def permute_cfg(cfg, kc, keep_ignore=False):
    """-> (permuted config, number of `ignore` entries whose spelling was deliberately left alone)"""
    out = copy.deepcopy(cfg)
    conf = out['config']
    kept = [0]

    def spell(lst, k):
        v = kc(k)
        if lst == 'ignore' and keep_ignore and v != k:
            kc.changed -= 1
            kept[0] += 1
            return k
        return v
    for lst in ('disable', 'block', 'ignore'):
        if lst in conf['default']:
            conf['default'][lst] = [spell(lst, k) for k in conf['default'][lst]]
    newr = {}
    for key, ent in conf['routines'].items():
        ent = dict(ent)
        for lst in ('disable', 'block', 'ignore'):
            if lst in ent:
                ent[lst] = [spell(lst, k) for k in ent[lst]]
        newr[kc(key)] = ent
    conf['routines'] = newr
    out['seeds'] = [kc(s) for s in out['seeds']]
    return out, kept[0]


@st.composite
def cases(draw):
    proj = draw(gen.projects(PROFILE))
    cfg = draw(gen.configs(proj, PROFILE))
    casing = draw(gen.casings())
    kcase = draw(st.lists(st.integers(0, 4095), min_size=1, max_size=5))
    pipeline = draw(st.sampled_from(['probe', 'probe', 'dup', 'dupsub', 'remove', 'dep']))
    full_parse = draw(st.booleans())
    mode = {'full_parse': full_parse, 'pipeline': pipeline,
            'reverse': draw(st.booleans()), 'file_graph': draw(st.booleans()),
            'plan': draw(st.booleans()) if pipeline in ('probe', 'dup', 'dupsub', 'remove') else False}
    opt = {}
    if pipeline != 'probe':
        callees = sorted({s['target'] for _, r in gen.all_routines(proj) for s in r['body']
                          if s['k'] == 'call' and s.get('via') not in ('self', 'back')})
        if not callees:
            mode['pipeline'] = 'probe'
        else:
            opt['kernel'] = callees[draw(st.integers(0, len(callees) - 1))].split('#')[1]
            opt['suffix'] = draw(st.sampled_from(['_dup', '_x2', 'dp']))
            opt['module_suffix'] = draw(st.sampled_from([None, '_md', '_mod']))
    return {'proj': proj, 'cfg': cfg, 'casing': casing, 'kcase': kcase, 'mode': mode, 'opt': opt}


def _lower_graph(g):
    return {'items': {k.lower(): v for k, v in g['items'].items()},
            'edges': {(a.lower(), b.lower()) for a, b in g['edges']},
            'ignored': {k.lower(): v for k, v in g['ignored'].items()}}


def observe(proj, cfg, casing, mode, opt, optcase):
    """
    one full run -> observation dict (everything lower-cased where names are concerned).

    The cyclic garbage collector is switched off during a run and triggered explicitly afterwards: loki scopes are
    held through weak references, and whether e.g. DuplicateKernel meets a dead scope (AttributeError: 'NoneType'
    object has no attribute 'symbol_attrs') depends on *when* the collector happens to run, i.e. on the history of
    the process and not on the case. Without this the lower-case and the permuted run of one case can differ by
    collector timing alone.
    """
    was_enabled = gc.isenabled()
    gc.disable()
    try:
        return _observe(proj, cfg, casing, mode, opt, optcase)
    finally:
        if was_enabled:
            gc.enable()
        gc.collect()


def _observe(proj, cfg, casing, mode, opt, optcase):
    from loki.batch import ProcessingStrategy
    obs = {}
    with harness.Workdir(proj, casing, label='c23') as wd:
        full_parse = mode['full_parse'] and not mode['plan'] or (mode['pipeline'] == 'dep')
        if mode['pipeline'] in ('dup', 'dupsub', 'remove') and not mode['plan']:
            full_parse = True
        if mode['pipeline'] == 'probe' and not mode['plan']:
            full_parse = mode['full_parse']
        outdir = os.path.join(wd.dir, 'out')
        os.makedirs(outdir, exist_ok=True)
        sched = harness.make_scheduler(wd.src, cfg['config'], cfg['seeds'], full_parse=full_parse, output_dir=outdir)
        obs['graph0'] = _lower_graph(harness.graph_of(sched))
        strat = ProcessingStrategy.PLAN if mode['plan'] else ProcessingStrategy.SEQUENCE
        if strat == ProcessingStrategy.SEQUENCE and not full_parse:
            strat = ProcessingStrategy.PLAN
        pl = mode['pipeline']
        trafo = None
        if pl in ('dup', 'dupsub'):
            from loki.transformations.dependency import DuplicateKernel
            ms = opt['module_suffix']
            trafo = DuplicateKernel(duplicate_kernels=(optcase(opt['kernel']),), duplicate_suffix=optcase(opt['suffix']),
                                    duplicate_module_suffix=None if ms is None else optcase(ms),
                                    duplicate_subgraph=(pl == 'dupsub'))
        elif pl == 'remove':
            from loki.transformations.dependency import RemoveKernel
            trafo = RemoveKernel(remove_kernels=(optcase(opt['kernel']),))
        elif pl == 'dep':
            from loki.transformations.build_system import DependencyTransformation
            ms = opt['module_suffix']
            trafo = DependencyTransformation(suffix=optcase(opt['suffix']),
                                             module_suffix=None if ms is None else optcase(ms))
        if trafo is not None:
            sched.process(trafo, proc_strategy=strat)
            obs['graph1'] = _lower_graph(harness.graph_of(sched))
            obs['cache1'] = sorted(k.lower() for k in harness.cache_names(sched))
            obs['names_eq_keys'] = sorted((k, it.name) for k, it in sched.item_factory.item_cache.items()
                                          if k != it.name.lower() and type(it).__name__ != 'FileItem')
        probe = harness.make_probe(item_filter='proc', reverse=mode['reverse'], file_graph=mode['file_graph'])
        sched.process(probe, proc_strategy=strat)
        root = wd.dir.lower()
        obs['visits'] = [(c['hook'], (c['item'] or '').lower().replace(root, ''), c['role'], c['mode'],
                          tuple(sorted(t.lower() for t in (c['targets'] or ()))))
                         for c in probe.calls]
        obs['edges_for_order'] = _lower_graph(harness.graph_of(sched))['edges']
        if mode['file_graph']:
            fg = sched.sgraph.as_filegraph(sched.item_factory, sched.config, item_filter=(probe.item_filter,),
                                           exclude_ignored=True)
            obs['edges_for_order'] = {(a.name.lower().replace(root, ''), b.name.lower().replace(root, ''))
                                      for a, b in fg.dependencies}
        if trafo is not None and strat == ProcessingStrategy.SEQUENCE:
            from loki.transformations.build_system import FileWriteTransformation
            sched.process(FileWriteTransformation(), proc_strategy=strat)
            written = {}
            for fn in sorted(os.listdir(outdir)):
                with open(os.path.join(outdir, fn)) as f:
                    written[fn.lower()] = f.read().lower()
            obs['written'] = written
    return obs


def order_valid(visits, edges, reverse):
    posn = {}
    for k, v in enumerate(visits):
        posn.setdefault(v[1], k)
    for a, b in edges:
        if a in posn and b in posn and a != b:
            if (posn[a] > posn[b]) != bool(reverse):
                return False
    return True


def check_case(case, ctx):
    proj, cfg, mode, opt = case['proj'], case['cfg'], case['mode'], case['opt']
    kc = KCase(case['kcase'])
    # exclusion by construction of two listed findings: with the DependencyTransformation and the
    # DuplicateKernel(duplicate_subgraph) pipelines the `ignore` entries keep their lower-case spelling (the committed
    # replay files set mode['ignore_case'] to exercise the triggers)
    keep_ignore = mode['pipeline'] in IGNORE_CASE and not mode.get('ignore_case')
    cfg_b, kept = permute_cfg(cfg, kc, keep_ignore)
    if kept:
        ctx.exclude(IGNORE_CASE[mode['pipeline']], kept)
    mixed_ignore = [k for ent in [cfg_b['config']['default']] + list(cfg_b['config']['routines'].values())
                    for k in ent.get('ignore', ()) if k != k.lower()]
    listed = mode.get('ignore_case') and mixed_ignore      # reachable only from the committed replay files
    oc = KCase(list(reversed(case['kcase'])))
    classes = [f'pipeline={mode["pipeline"]}', f'plan={mode["plan"]}', f'full_parse={mode["full_parse"]}',
               f'file_graph={mode["file_graph"]}']
    try:
        a = observe(proj, cfg, None, mode, opt, lambda s: s)
    except Exception as e:  # noqa: loki raised on the all-lower-case reference run
        ctx.case(case, False, classes + ['rejected'])
        ctx.reject(e, case)
        return
    try:
        b = observe(proj, cfg_b, case['casing'], mode, opt, oc)
    except Exception as e:  # noqa
        ctx.case(case, True, classes + ['variant-raises'])
        root = e
        while root.__cause__ is not None:
            root = root.__cause__
        bucket = exc_bucket(root)
        if mode['pipeline'] == 'dep' and listed and bucket == 'RuntimeError@loki/batch/item_factory.py:_get_procedure_item':
            ctx.fail('C23:dep:mixed-case-ignore-entry-not-renamed', case,
                     f'ignore entries {mixed_ignore}: {root!r}'[:400])
        else:
            ctx.fail(f'C23:case-variant-raises:{bucket}', case, f'pipeline={mode["pipeline"]}: {root!r}'[:400])
        return
    refers = kc.changed + oc.changed
    nontrivial = refers > 0 and len(a['graph0']['items']) >= 3
    if refers:
        classes.append('config-or-option-spelling-changed')
    if any(k in cfg['config']['default'] for k in ('disable', 'block', 'ignore')) or cfg['config']['routines']:
        classes.append('has-pruning-config')
    ctx.case(case, nontrivial, classes)
    if ctx.evaluations % 200 == 1:
        ctx.sample({'seeds_A': cfg['seeds'], 'seeds_B': cfg_b['seeds'], 'config_B': cfg_b['config'], 'mode': mode,
                    'opt': opt, 'items_A': sorted(a['graph0']['items'])})

    def diff(stage, ga, gb):
        for part in ('items', 'edges', 'ignored'):
            if ga[part] != gb[part]:
                if part == 'items':
                    what = 'names' if set(ga[part]) != set(gb[part]) else 'kinds'
                else:
                    what = part
                if part == 'edges':
                    d = sorted(ga[part] ^ gb[part])[:6]
                else:
                    d = sorted(set(ga[part].items()) ^ set(gb[part].items()))[:6]
                ctx.fail(f'C23:graph-differs:{stage}:{what}', case, f'lower-case vs permuted differ in {d}')
                return True
        return False

    if diff('discovery', a['graph0'], b['graph0']):
        return
    pl = mode['pipeline']
    if 'graph1' in a:
        if pl == 'dupsub' and listed and (a['graph1'] != b['graph1'] or a['cache1'] != b['cache1']):
            d = sorted(set(a['cache1']) ^ set(b['cache1']))[:6]
            ctx.fail('C23:dupsub:mixed-case-ignore-entry-not-honoured', case,
                     f'ignore entries {mixed_ignore}: items only in one of the runs: {d}')
            return
        if diff(f'after-{pl}', a['graph1'], b['graph1']):
            return
        if a['cache1'] != b['cache1']:
            d = sorted(set(a['cache1']) ^ set(b['cache1']))[:6]
            ctx.fail(f'C23:item-cache-differs:after-{pl}', case, f'cache keys differ: {d}')
            return
        if b['names_eq_keys'] and not a['names_eq_keys']:
            ctx.fail(f'C23:item-name-not-normalised:after-{pl}', case, f'cache key vs item.name: {b["names_eq_keys"][:4]}')
    if a['visits'] != b['visits']:
        same_multiset = sorted(map(repr, a['visits'])) == sorted(map(repr, b['visits']))
        if same_multiset and order_valid(a['visits'], a['edges_for_order'], mode['reverse']) \
                and order_valid(b['visits'], b['edges_for_order'], mode['reverse']):
            ctx.count('order-differs-both-valid')
        elif same_multiset:
            ctx.fail(f'C23:visit-order-invalid:{pl}', case, f'A={[v[1] for v in a["visits"]]} B={[v[1] for v in b["visits"]]}')
        else:
            da = [v for v in a['visits'] if v not in b['visits']][:3]
            db = [v for v in b['visits'] if v not in a['visits']][:3]
            what = 'items' if sorted(v[1] for v in a['visits']) != sorted(v[1] for v in b['visits']) else 'role-mode-targets'
            ctx.fail(f'C23:visits-differ:{pl}:{what}', case, f'only in A: {da}; only in B: {db}')
    if 'written' in a:
        if set(a['written']) != set(b.get('written', {})):
            ctx.fail(f'C23:written-files-differ:{pl}', case,
                     f'{sorted(set(a["written"]) ^ set(b.get("written", {})))[:6]}')
        else:
            for fn in a['written']:
                if a['written'][fn] != b['written'][fn]:
                    la, lb = a['written'][fn].splitlines(), b['written'][fn].splitlines()
                    d = next(((x, y) for x, y in zip(la, lb) if x != y), (len(la), len(lb)))
                    ctx.fail(f'C23:generated-code-differs:{pl}', case, f'{fn}: {d}')
                    break


# ---- unit level: Item equality / hashing / membership ---------------------------------------------

def check_unit(case, ctx):
    """case = [name, bits, kind]"""
    import networkx as nx
    from loki.batch.item import ProcedureItem, ModuleItem, Item
    from loki.tools import CaseInsensitiveDict
    name, bits, kind = case
    other = perm(name, bits)
    cls = {'proc': ProcedureItem, 'module': ModuleItem, 'item': Item}[kind]
    a, b = cls(name, source=None), cls(other, source=None)
    nontrivial = other != name
    ctx.case(case, nontrivial, ['unit', f'unit-{kind}'])
    if not a == b:
        ctx.fail('C23:Item.eq:case-variants-unequal', case, f'{name!r} != {other!r}')
        return
    g = nx.DiGraph()
    g.add_node(a)
    in_graph = b in g
    g.add_edge(a, b)
    symptoms = []
    if b not in {a} or len({a, b}) != 1:
        symptoms.append('set membership')
    if {a: 1}.get(b) != 1:
        symptoms.append('dict lookup')
    if not in_graph:
        symptoms.append('nx graph membership')
    if g.number_of_nodes() != 1:
        symptoms.append('second graph node created')
    if hash(a) != hash(b):
        # one root cause: __hash__ uses the raw name while __eq__ folds case
        ctx.fail('C23:Item.hash:equal-items-hash-differently', case,
                 f'Item({name!r}) == Item({other!r}) but hashes differ; consequences: {", ".join(symptoms) or "none"}')
    elif symptoms:
        ctx.fail('C23:Item.membership:' + symptoms[0].replace(' ', '-'), case,
                 f'Item({name!r}) vs Item({other!r}): {", ".join(symptoms)}')
    d = CaseInsensitiveDict()
    d[name] = a
    if other not in d or d.get(other) is not a:
        ctx.fail('C23:CaseInsensitiveDict.lookup', case, f'{other!r} not found under {name!r}')
    if not (a == other and b == name):
        ctx.fail('C23:Item.eq-str', case, f'Item({name!r}) != {other!r}')


def unit_cases():
    names = st.sampled_from(['amod#ka0', '#fr0', 'b_mod#tb0%go0', 'cmod', 'd_mod#kern', 'amod#ka0_dup'])
    return st.tuples(names, st.integers(0, 4095), st.sampled_from(['proc', 'module', 'item'])).map(list)


def _explore(ctx, strategy, check, total, chunk=300):
    """
    ctx.given in chunks of ``chunk`` cases (quick tier: exactly one chunk, label 'main'): once the time budget is
    used up Hypothesis still *generates* the remaining examples of a run, which for the thorough case counts takes
    longer than the runner's hard timeout
    """
    k = 0
    while total > 0 and not ctx.out_of_time():
        n = min(chunk, total)
        ctx.given(strategy, check, n, label='main' if k == 0 else f'main{k}')
        total -= n
        k += 1


def run_shard(ctx):
    harness.quiet()
    ctx.given(unit_cases(), check_unit, ctx.scale(400, 4000), label='unit')
    ctx.exclude('core project profile: triggers of listed C21 findings are not generated '
                '(see lokiverif/project/gen.py DEFAULT_PROFILE)', 0)
    _explore(ctx, cases(), check_case, ctx.scale(2400, 60000))


def replay(case, ctx):
    harness.quiet()
    if isinstance(case, list):
        check_unit(case, ctx)
    else:
        check_case(case, ctx)
    return [(s, e['detail']) for s, e in ctx.failures.items()]
