"""C40 - normalising transformations are idempotent: fgen(T(T(x))) == fgen(T(x)) and the IR dumps are equal."""
import json

from hypothesis import strategies as st

from ..fprog import gen as B, gen_assoc as GA, gen_arrays as GR, gen_constprop as GC, harness
from ..fprog.model import var, lit, decl, routine, module, elem
from .. import irdump
from .c29 import parse_rendered, all_routines, refine_failures, replay_with

ID = 'C40'
LEVEL = 'exploration'
TECHNIQUE = ('metamorphic: apply each normalising transformation twice to generated programs and compare regenerated text and '
             'structural IR dump after one vs two applications; feature ablation for root-cause signatures')
RULE = ('programs of the C29 (nested/shadowing ASSOCIATE, derived types), C30 (array sections, WHERE, explicit loops, (1:n) declarations) and '
        'C32 (decidable/undecidable IF chains, SELECT, loops) generators, decorated with: a second module whose symbols are imported at '
        'module and routine level (used, unused and redundant imports, an imported kind parameter), multi-variable declarations, calls '
        'with element actuals for array dummies (sequence association, 1-D and 2-D), identifiers in upper/mixed case. One transformation '
        'T per case out of do_resolve_associates(start_depth 0/1), resolve_vector_notation(+-insert_comments), normalize_range_indexing, '
        'convert_to_lower_case, sanitise_imports (module and routines), do_resolve_sequence_association, do_remove_dead_code(+-use_simplify), '
        'single_variable_declaration(+-group_by_shape), applied to every routine; oracle: to_fortran() and lokiverif.irdump after T(T(x)) '
        'equal those after T(x). non-trivial = T(x) differs from x (text or dump); distinct by hash of (program, T)')
ASSUMPTIONS = ['both applications act on the same in-memory Sourcefile (the caller protocol of the entry points)',
               'loki exceptions during an application are bucketed as rejected_by_loki (idempotence is about the code produced)']
SHARDS = {'quick': 8, 'thorough': 16}
BUDGET = {'quick': 75, 'thorough': 1200}

TS = ['do_resolve_associates', 'resolve_vector_notation', 'normalize_range_indexing', 'convert_to_lower_case', 'sanitise_imports',
      'do_resolve_sequence_association', 'do_remove_dead_code', 'single_variable_declaration']


# ---------------------------------------------------------------------- decoration of a base case
def cmod():
    cfun = routine('cfun', ['ci'], [decl('ci', 'int', intent='in'), decl('cres', 'int')],
                   [['assign', var('cres'), ['b', '+', ['b', '*', var('ci'), ['i', 2]], var('cpa')]]], kind='function', result='cres')
    csub = routine('csub', ['cq'], [decl('cq', 'int', intent='inout')], [['assign', var('cq'), ['b', '+', var('cq'), var('cvx')]]])
    return module('cmod', routines=[cfun, csub],
                  decls=[decl('cpa', 'int', param=lit(3)), decl('cpb', 'int', param=lit(5)), decl('ck4', 'int', param=lit(4)),
                         decl('cvx', 'int', init=lit(2)), decl('cvy', 'int', init=lit(7))])


def decorate(g, case):
    """add imports (used / unused / redundant), multi-variable declarations and sequence-association calls to the kernel"""
    case = json.loads(json.dumps(case))
    f = case['files'][0]
    kmod = next(u for k, u in f['units'] if k == 'module')
    kern = GA.kernel_of(case)
    f['units'].insert(0, ['module', cmod()])
    feats = []
    # ---- imports
    pool = ['cpa', 'cpb', 'cvx', 'cvy', 'cfun', 'csub', 'ck4']
    mod_only = [[n, None] for n in pool if g.chance(40)]
    rt_only = [[n, None] for n in pool if g.chance(45)]
    for must in ('cpa', 'cfun', 'ck4', 'csub', 'cvx'):
        if not any(n == must for n, _ in mod_only + rt_only):
            rt_only.append([must, None])
    if mod_only:
        kmod['uses'] = list(kmod.get('uses') or []) + [{'module': 'cmod', 'only': mod_only}]
        feats.append('module-level-import')
    kern['uses'] = list(kern.get('uses') or []) + [{'module': 'cmod', 'only': rt_only}]
    if any(n in [m for m, _ in mod_only] for n, _ in rt_only):
        feats.append('redundant-import')
    used = [n for n in ('cpa', 'cfun', 'cvx', 'csub') if g.chance(60)]
    extra = []
    if 'cpa' in used:
        extra.append(['assign', var('yi0'), ['b', '+', var('yi0'), var('cpa')]])
    if 'cfun' in used:
        extra.append(['assign', var('yi0'), ['b', '+', var('yi0'), ['f', 'cfun', [['i', g.i(1, 4)]], {}]]])
    if 'cvx' in used:
        extra.append(['assign', var('yi0'), ['b', '+', var('yi0'), var('cvx')]])
    if 'csub' in used:
        extra.append(['call', 'csub', [var('yi0')], {}])
    if len(used) < 4 or any(n in ('cpb', 'cvy') for n, _ in mod_only + rt_only):
        feats.append('unused-import')
    # ---- multi-variable declarations (raw specification lines) + imported kind
    raw = ['integer :: mv0, mv1(3), mv2', 'real(kind=8) :: mw0(2), mw1(2), mw2(2, 2), mw3']
    if g.chance(60):
        raw.append('integer(kind=ck4) :: mk0, mk1')
        extra += [['assign', var('mk0'), ['i', 4]], ['assign', var('mk1'), ['b', '+', var('mk0'), ['i', 1]]],
                  ['assign', var('yi0'), ['b', '+', var('yi0'), var('mk1')]]]
        feats.append('imported-kind')
    kern['spec_raw'] = list(kern.get('spec_raw') or []) + raw
    extra += [['assign', var('mv0'), ['i', g.i(1, 5)]], ['assign', var('mv1'), var('mv0')], ['assign', var('mv2'), elem('mv1', ['i', 2])],
              ['assign', var('mw0'), ['r', '0.5']], ['assign', var('mw1'), ['b', '+', var('mw0'), ['r', '1.5']]],
              ['assign', var('mw2'), ['r', '0.25']], ['assign', var('mw3'), ['b', '+', elem('mw1', ['i', 1]), elem('mw2', ['i', 2], ['i', 1])]],
              ['assign', var('yi0'), ['b', '+', var('yi0'), var('mv2')]], ['assign', var('yr0'), ['b', '+', var('yr0'), var('mw3')]]]
    feats.append('multi-variable-declaration')
    # ---- sequence association
    hseq = routine('hseq', ['hv', 'hm'], [decl('hm', 'int', intent='in'), decl('hv', 'int', dims=[[1, 'hm']], intent='inout')],
                   [['assign', elem('hv', ['i', 1]), ['b', '+', elem('hv', ['i', 1]), var('hm')]]])
    kmod['routines'].insert(0, hseq)
    kern['decls'] += [decl('sq', 'int', dims=[[1, 6]]), decl('sq2', 'int', dims=[[0, 2], [1, 2]])]
    extra += [['assign', var('sq'), ['i', 1]], ['assign', var('sq2'), ['i', 2]],
              ['call', 'hseq', [elem('sq', ['i', g.i(1, 4)]), ['i', 2]], {}],
              ['call', 'hseq', [elem('sq2', ['i', g.i(0, 1)], ['i', 1]), ['i', g.i(2, 3)]], {}],
              ['assign', var('yi0'), ['b', '+', var('yi0'), ['b', '+', elem('sq', ['i', 2]), elem('sq2', ['i', 1], ['i', 1])]]]]
    if g.chance(50):
        extra.append(['call', 'hseq', [var('sq')], {'hm': ['i', 3]}])
    feats.append('sequence-association')
    # insert after the first executable statements (prologue keeps definite assignment); position does not matter for C40
    pos = g.i(0, len(kern['body']))
    kern['body'] = kern['body'][:pos] + extra + kern['body'][pos:]
    if g.chance(60):
        case['layout'] = dict(case['layout'], idcase=g.pick(['upper', 'mixed']), stream=case['layout'].get('stream') or [3, 1, 2])
        if len(case['layout']['stream']) < 3:
            case['layout']['stream'] = [3, 1, 2, 5, 8]
        feats.append('mixed-case-identifiers')
    case['deco'] = feats
    return case


@st.composite
def cases(draw, only=None):
    g = B.G(draw, B.profile())
    T = only or g.pick(TS)
    if T == 'do_resolve_associates':
        base, kind = draw(GA.cases()), 'assoc'
    elif T in ('resolve_vector_notation', 'normalize_range_indexing'):
        base, kind = draw(GR.cases()), 'arrays'
    elif T == 'do_remove_dead_code':
        base, kind = draw(GC.cases()), 'constprop'
    else:
        kind = g.pick(['assoc', 'arrays', 'constprop'])
        base = draw({'assoc': GA.cases(), 'arrays': GR.cases(), 'constprop': GC.cases()}[kind])
    case = decorate(g, base)
    if T == 'normalize_range_indexing':
        case['layout'] = dict(case['layout'], explicit_lb=True)
    opts = {}
    if T == 'do_resolve_associates':
        opts['start_depth'] = g.pick([0, 0, 1])
    elif T == 'resolve_vector_notation':
        opts['insert_comments'] = g.chance(30)
    elif T == 'do_remove_dead_code':
        opts['use_simplify'] = g.chance(60)
    elif T == 'single_variable_declaration':
        opts['group_by_shape'] = g.chance(40)
    case.pop('xforms', None)
    case['T'] = dict(opts, name=T)
    case['base'] = kind
    return case


# ---------------------------------------------------------------------- oracle
def apply_T(sfs, T):
    from loki.transformations.sanitise import do_resolve_associates, do_resolve_sequence_association
    from loki.transformations.array_indexing import resolve_vector_notation, normalize_range_indexing
    from loki.transformations.utilities import convert_to_lower_case, sanitise_imports, single_variable_declaration
    from loki.transformations.remove_code import do_remove_dead_code
    name = T['name']
    for sf in sfs:
        if name == 'sanitise_imports':
            for m in sf.modules:
                sanitise_imports(m)
            for r in sf.routines:
                sanitise_imports(r)
            continue
        for r in all_routines(sf):
            if name == 'do_resolve_associates':
                do_resolve_associates(r, start_depth=T.get('start_depth', 0))
            elif name == 'resolve_vector_notation':
                resolve_vector_notation(r, insert_comments=T.get('insert_comments', False))
            elif name == 'normalize_range_indexing':
                normalize_range_indexing(r)
            elif name == 'convert_to_lower_case':
                convert_to_lower_case(r)
            elif name == 'do_resolve_sequence_association':
                do_resolve_sequence_association(r)
            elif name == 'do_remove_dead_code':
                do_remove_dead_code(r, use_simplify=T.get('use_simplify', True))
            elif name == 'single_variable_declaration':
                single_variable_declaration(r, group_by_shape=T.get('group_by_shape', False))
            else:
                raise ValueError(name)


def snapshot(sfs):
    return [sf.to_fortran() for sf in sfs], [irdump.dump_ir(sf.ir) for sf in sfs]


def first_text_diff(a, b):
    la, lb = a.split('\n'), b.split('\n')
    for i, (x, y) in enumerate(zip(la, lb)):
        if x != y:
            return f'line {i + 1}: {x.strip()!r} -> {y.strip()!r}'
    return f'{len(la)} lines -> {len(lb)} lines: {(la[len(lb):] or lb[len(la):])[:2]}'


K_LOWER_INIT = 'C40:not-idempotent:convert_to_lower_case:name-only-in-parameter-initialiser'


def lower_case_initialiser_trigger(case):
    """listed finding: convert_to_lower_case leaves a name that occurs only in the initialisation expression of a PARAMETER
    in upper case on the first application and converts it on the second"""
    # (identifier case also comes from the layout, not only from the 'mixed-case-identifiers' decoration)
    return (case['T']['name'] == 'convert_to_lower_case'
            and 'parameter-used-only-in-parameter-initialisation' in (case.get('feats') or []))


def check_case(case, ctx):
    T = case['T']
    name = T['name']
    listed_trigger = lower_case_initialiser_trigger(case)
    if listed_trigger and K_LOWER_INIT in ctx.known_sigs and not case.get('listed_replay'):
        # excluded by construction: the trigger lives on only in the committed replay
        ctx.exclude('convert_to_lower_case on a program with a mixed-case name used only in a PARAMETER initialiser (known finding)')
        return
    rendered = harness.render_case(case)
    try:
        sfs = parse_rendered(rendered)
        t0, d0 = snapshot(sfs)
        apply_T(sfs, T)
        t1, d1 = snapshot(sfs)
        apply_T(sfs, T)
        t2, d2 = snapshot(sfs)
    except Exception as e:  # noqa: loki raised on a generated input
        ctx.reject(e, case)
        ctx.case(case, False, [f'{name}:rejected-by-loki'])
        return
    changed = t0 != t1 or d0 != d1
    cl = [name, f'{name}:{"changes-x" if changed else "leaves-x-unchanged"}', f'base:{case.get("base")}'] + list(case.get('deco') or [])
    if t1 != t2:
        i = next(k for k in range(len(t1)) if t1[k] != t2[k])
        ctx.fail(K_LOWER_INIT if listed_trigger else f'C40:not-idempotent:{name}:text:no-known-hazard', case,
                 f'{T}: {first_text_diff(t1[i], t2[i])}')
        cl.append(f'{name}:not-idempotent')
    elif d1 != d2:
        i = next(k for k in range(len(d1)) if d1[k] != d2[k])
        ctx.fail(f'C40:not-idempotent:{name}:ir-only:no-known-hazard', case, f'{T}: {irdump.first_difference(d1[i], d2[i])}')
        cl.append(f'{name}:not-idempotent')
    ctx.case(case, changed, cl)
    if changed and len(ctx.samples) < 2 and ctx.shard == 0:
        ctx.sample({'T': T, 'source': rendered[0]['text'][:1500], 'after_T': t1[0][:1500]})


def ablations(case):
    mod = {'assoc': GA, 'arrays': GR, 'constprop': GC}.get(case.get('base'), GA)
    fn = getattr(mod, 'ablations', None)     # (not every generator module offers feature ablations)
    return fn(case) if fn else []


def run_shard(ctx):
    ctx.given(cases(), check_case, ctx.scale(400, 8000), label='main')
    refine_failures(ctx, check_case, ablations, None)


replay = replay_with(check_case, ablations, None)
