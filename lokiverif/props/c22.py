"""C22 - scheduler processing visits each selected item once, in dependency order."""
import copy
from collections import Counter

from hypothesis import strategies as st

from ..core import exc_bucket
from ..project import gen, harness, refgraph

ID = 'C22'
LEVEL = 'exploration'
TECHNIQUE = ('recording probe Transformation over generated projects/configs/manifests; visit multiset, order validity '
             '(any topological order), role/mode/targets, file-graph mode and PLAN-vs-SEQUENCE equality checked '
             'against the scheduler graph and an independent model of targets/items')
RULE = ('case = (project description, config with roles/modes/ignore/block/disable, manifest: item_filter subset, '
        'reverse_traversal, traverse_file_graph, process_ignored_items, recurse_to_modules/procedures, mode argument, '
        'strategy SEQUENCE|PLAN). non-trivial = the processed graph has a diamond or depth >= 3 AND the '
        'filter/ignore/mode rules exclude at least one graph item; distinct by JSON hash of the case')
ASSUMPTIONS = ['the graph itself (scheduler.items/dependencies/is_ignored) is taken as given here; its correctness is C21',
               'expected role/mode come from an independent re-implementation of the documented config matching',
               'expected targets come from lokiverif.project.refgraph.proc_targets(true_scopes=True): disable/block keys are '
               'applied to the true item name of every dependency (ground truth of the project description); renamed '
               'symbols whose original name is disabled/blocked are not asserted',
               'order is checked for validity w.r.t. graph edges, not against one fixed order',
               'functions called from their own module have no dependencies of their own (listed finding, see '
               'strip_late_dependencies)']
SHARDS = {'quick': 8, 'thorough': 16}
BUDGET = {'quick': 60, 'thorough': 1200}

PROFILE = gen.profile()
PROFILE['iface_same_module'] = True       # repaired in /repo by 9676bad: generated again (no boost)
FILTERS = [['proc'], ['proc'], ['proc', 'module'], ['module'], ['proc', 'module', 'typedef'], ['typedef'],
           ['all'], ['proc', 'binding', 'interface'], ['binding']]


LATE = 'late-discovered-dependency'


def strip_late_dependencies(proj):
    """
    Exclusion by construction of the listed finding C22:process-raises:file-of-late-discovered-item-not-parsed:
    a function called from a procedure of its own module is discovered only after the full parse (the regex
    frontend does not see inline calls), so the file of a module that only this function imports from is never
    parsed. Such functions lose their routine-level imports / module-variable uses here. -> number of functions changed
    """
    n = 0
    for m in proj['modules']:
        same = {s['target'].split('#')[1] for r in m['routines'] for s in r['body']
                if s['k'] == 'fcall' and s.get('via') == 'same'}
        for r in m['routines']:
            if r['kind'] == 'fun' and r['name'] in same and (r['imports'] or r['body']):
                if any(s['k'] != 'var' for s in r['body']):
                    raise AssertionError('generator invariant: functions only reference module variables')
                r['imports'], r['body'] = [], []
                n += 1
    return n


@st.composite
def cases(draw):
    proj = draw(gen.projects(PROFILE))
    stripped = strip_late_dependencies(proj)
    cfg = draw(gen.configs(proj, PROFILE))
    manifest = {
        'filter': draw(st.sampled_from(FILTERS)),
        'reverse': draw(st.booleans()),
        'file_graph': draw(st.sampled_from([False, False, True])),
        'process_ignored': draw(st.sampled_from([False, False, True])),
        'recurse_modules': draw(st.booleans()),
        'recurse_procedures': draw(st.booleans()),
        'mode_arg': draw(st.sampled_from([None, None, None, 'other', cfg['config']['default']['mode']])),
        'plan_regex': draw(st.booleans()),
    }
    if draw(st.integers(0, 3)) == 0:
        # the usual set-up: the (first) seed is the driver, everything below it a kernel
        full = (refgraph.resolve_seed(refgraph.Index(proj), cfg['seeds'][0]) or [None])[0]
        if full is not None:
            rconf = cfg['config']['routines']
            hit = [k for k in rconf if refgraph.match_keys(full, [k])]
            rconf.setdefault(hit[0] if hit else cfg['seeds'][0], {})['role'] = 'driver'
    if set(manifest['filter']) & {'module', 'typedef', 'all'}:
        # caller protocol: files that hold only module/typedef items are fully parsed only with enable_imports
        cfg['config']['default']['enable_imports'] = True
    case = {'proj': proj, 'cfg': cfg, 'manifest': manifest}
    if stripped:
        case['excluded'] = {LATE: stripped}
    return case


def _kind_matches(kind, flt):
    if 'all' in flt:
        return True
    return kind in flt


def depth_and_diamond(items, edges):
    succ = {n: [] for n in items}
    indeg = Counter()
    for a, b in edges:
        if a in succ and b in succ:
            succ[a].append(b)
            indeg[b] += 1
    depth = {}

    def d(n, seen=()):
        if n in depth:
            return depth[n]
        if n in seen:
            return 0
        depth[n] = 1 + max([d(c, seen + (n,)) for c in succ[n]] or [0])
        return depth[n]
    mx = max([d(n) for n in items] or [0])
    return mx, any(v > 1 for v in indeg.values())


def run_probe(wd, cfg, manifest, full_parse, strategies):
    """
    one scheduler, the (read-only) probe applied once per strategy in ``strategies`` ('plan' / 'sequence');
    -> {'g0', 'g1', 'modes', ..., 'runs': {strategy: {'calls', 'err'}}}
    """
    from loki.batch import ProcessingStrategy
    sched = harness.make_scheduler(wd.src, cfg['config'], cfg['seeds'], full_parse=full_parse)
    g0 = harness.graph_of(sched)
    modes = {it.name: it.mode for it in sched.items if harness.KINDS.get(type(it).__name__) != 'external'}
    ext_origin = {it.name: harness.KINDS.get(getattr(it.origin_cls, '__name__', ''), '?')
                  for it in sched.items if type(it).__name__ == 'ExternalItem'}
    files = {}
    for it in sched.items:
        if type(it).__name__ != 'ExternalItem':
            files[it.name] = str(it.source.path).lower()
    runs = {}
    for sname in strategies:
        probe = harness.make_probe(
            item_filter=manifest['filter'] if len(manifest['filter']) > 1 else manifest['filter'][0],
            reverse=manifest['reverse'], file_graph=manifest['file_graph'],
            process_ignored=manifest['process_ignored'], recurse_modules=manifest['recurse_modules'],
            recurse_procedures=manifest['recurse_procedures'])
        strat = ProcessingStrategy.PLAN if sname == 'plan' else ProcessingStrategy.SEQUENCE
        err = None
        try:
            sched.process_transformation(probe, proc_strategy=strat, mode=manifest['mode_arg'])
        except Exception as e:  # noqa
            err = e
        runs[sname] = {'calls': probe.calls, 'err': err}
    g1 = harness.graph_of(sched)
    return {'g0': g0, 'g1': g1, 'modes': modes, 'files': files, 'ext_origin': ext_origin, 'runs': runs}


def check_case(case, ctx):
    proj, cfg, mf = case['proj'], case['cfg'], case['manifest']
    flt = mf['filter']
    ix = refgraph.Index(proj)
    strict = cfg['config']['default'].get('strict', True)
    classes = [f'filter={"+".join(flt)}', f'file_graph={mf["file_graph"]}', f'reverse={mf["reverse"]}',
               f'process_ignored={mf["process_ignored"]}', f'mode_arg={mf["mode_arg"] is not None}']
    with harness.Workdir(proj, None, label='c22') as wd:
        try:
            both = run_probe(wd, cfg, mf, True, ('plan', 'sequence'))
        except Exception as e:  # noqa: scheduler construction failed on the generated project
            ctx.case(case, False, classes + ['rejected'])
            ctx.reject(e, case)
            return
        seq = dict(both, **both['runs']['sequence'])
        plan = dict(both, **both['runs']['plan'])
        plan_rx = None
        has_fcall = any(s['k'] == 'fcall' for _, r in gen.all_routines(proj) for s in r['body'])
        if mf['plan_regex'] and not has_fcall:
            try:
                rx = run_probe(wd, cfg, mf, False, ('plan',))
                plan_rx = dict(rx, **rx['runs']['plan'])
            except Exception as e:  # noqa
                ctx.reject(e, case)
        root = wd.src.lower()

    g = seq['g0']
    items, edges, ignored = g['items'], g['edges'], g['ignored']

    # ---- expected selection --------------------------------------------------------------------
    def selected(n):
        kind = items[n]
        if kind == 'external':
            return False          # strict=False: externals are skipped (strict=True handled below)
        if not _kind_matches(kind, flt):
            return False
        if ignored[n] and not mf['process_ignored']:
            return False
        return True

    def mode_ok(n):
        if mf['mode_arg'] is None or items[n] in ('typedef', 'interface', 'external'):
            return True
        return seq['modes'][n] == mf['mode_arg']

    ext_selected = [n for n in items if items[n] == 'external' and _kind_matches(seq['ext_origin'].get(n), flt)
                    and not (ignored[n] and not mf['process_ignored'])]
    sel = [n for n in items if selected(n)]
    excluded_any = len(sel) < len(items) or any(not mode_ok(n) for n in sel)
    depth, diamond = depth_and_diamond(items, edges)
    nontrivial = (diamond or depth >= 3) and excluded_any
    classes += [f'depth>={min(depth, 4)}', 'diamond' if diamond else 'no-diamond',
                'excludes-some' if excluded_any else 'excludes-none',
                'has-ignored' if any(ignored.values()) else 'no-ignored']
    ctx.case(case, nontrivial, classes)
    for reason, k in sorted(case.get('excluded', {}).items()):
        ctx.exclude(reason, k)
    if ctx.evaluations % 150 == 1:
        ctx.sample({'manifest': mf, 'config': cfg, 'graph_items': sorted(items),
                    'visits': [(c['hook'], c['item']) for c in seq['calls']][:12]})

    if strict and ext_selected and not mf['file_graph']:
        # documented: with strict, processing an external item raises
        if seq['err'] is None:
            ctx.fail('C22:strict-external-not-raised', case, f'externals {ext_selected} selected but no error')
        return
    for run, label in ((seq, 'sequence'), (plan, 'plan')):
        if run['err'] is not None:
            rootc = run['err']
            while rootc.__cause__ is not None:
                rootc = rootc.__cause__
            bucket = exc_bucket(rootc)
            if bucket == 'RuntimeError@loki/batch/transformation.py:apply_file' and mf['file_graph'] \
                    and strip_late_dependencies(copy.deepcopy(proj)):
                # listed finding; never generated by the search (see strip_late_dependencies), replay file only
                ctx.fail('C22:process-raises:file-of-late-discovered-item-not-parsed', case, repr(rootc)[:300])
            elif bucket == 'RuntimeError@loki/batch/transformation.py:apply_module' \
                    and not cfg['config']['default'].get('enable_imports') and _in_unparsed_file(sel, items, seq['files']):
                # listed finding: without enable_imports Scheduler._parse_items only completes files that hold a
                # ProcedureItem of the graph; a selected binding/interface item elsewhere meets an incomplete Module
                ctx.fail('C22:process-raises:non-procedure-item-in-unparsed-file', case,
                         f'{_in_unparsed_file(sel, items, seq["files"])}: {rootc!r}'[:300])
            else:
                ctx.fail(f'C22:process-raises:{label}:{bucket}', case, repr(rootc)[:300])
            return
    if seq['g1'] != seq['g0']:
        ctx.fail('C22:probe-pass-changes-graph', case, 'graph differs after a read-only probe pass')

    calls = seq['calls']
    own = {'proc': 'transform_subroutine', 'module': 'transform_module', 'typedef': 'transform_module',
           'binding': 'transform_module', 'interface': 'transform_module'}

    if not mf['file_graph']:
        # InterfaceItems are documented as 'not a work item': their transformation entry point is the Interface
        # node itself, for which Transformation.apply has no hook -> neither required nor forbidden here
        expected = [n for n in sel if mode_ok(n) and items[n] != 'interface']
        primary = [c for c in calls if c['item'] in items and c['hook'] == own.get(items[c['item']])]
        cnt = Counter(c['item'] for c in primary)
        missing = sorted(set(expected) - set(cnt))
        extra = sorted(set(cnt) - set(expected))
        twice = sorted(n for n, k in cnt.items() if k > 1)
        if missing:
            why = 'ignored' if any(ignored[n] for n in missing) else items[missing[0]]
            ctx.fail(f'C22:item-not-visited:{why}', case, f'not visited: {missing}; filter={flt}')
        if extra:
            n0 = extra[0]
            why = ('ignored-item' if ignored[n0] and not mf['process_ignored'] else
                   'wrong-mode' if not mode_ok(n0) else f'kind-{items[n0]}-not-in-filter')
            ctx.fail(f'C22:unselected-item-visited:{why}', case, f'visited although not selected: {extra}; filter={flt}')
        if twice:
            ctx.fail('C22:item-visited-twice', case, f'{twice}')
        # recursion into module procedures when a module-scoped item is processed
        for c in calls:
            if c['item'] not in items:
                ctx.fail('C22:visit-of-unknown-item', case, str(c['item']))
        for n in set(cnt):
            subs = [c for c in calls if c['item'] == n and c['hook'] == 'transform_subroutine']
            if items[n] == 'proc':
                continue
            scope = n.split('#')[0]
            want = sorted(r['name'] for r in ix.modules[scope]['routines']) if mf['recurse_procedures'] else []
            gotr = sorted(c['ir'].lower() for c in subs)
            if gotr != want:
                ctx.fail('C22:recurse-to-procedures', case, f'{n}: recursed into {gotr}, module has {want}')
        # order
        posn = {}
        for k, c in enumerate(primary):
            posn.setdefault(c['item'], k)
        for a, b in sorted(edges):
            if a in posn and b in posn:
                if (posn[a] > posn[b]) != mf['reverse']:
                    ctx.fail('C22:order:reverse' if mf['reverse'] else 'C22:order:forward', case,
                             f'edge {a} -> {b} visited at {posn[a]} / {posn[b]}')
                    break
        # role / mode / targets / sub graph
        for c in primary:
            n = c['item']
            conf = refgraph.item_config(cfg['config'], n)
            if c['role'] != conf.get('role') or c['mode'] != conf.get('mode'):
                ctx.fail('C22:role-or-mode', case, f'{n}: got role={c["role"]} mode={c["mode"]}, config says '
                                                    f'{conf.get("role")}/{conf.get("mode")}')
            if items[n] == 'proc':
                got_t = {t.lower() for t in c['targets']}
                # targets == non-blocked dependencies: disable/block keys are applied to the *true* item name of
                # every callee (description ground truth)
                ref_t, amb = refgraph.proc_targets(ix, n, cfg['config'], full_parse=True, true_scopes=True)
                if got_t - amb != ref_t - amb:
                    m_, r_ = ix.routine[n]
                    mn_ = m_['name'].lower() if m_ else ''
                    qualified = {o['local'].lower() for sc in ([m_] if m_ else []) + [r_] for imp in sc['imports']
                                 for o in imp['only'] or ()}
                    # callees that are not imported by name and do not live in the scope of the caller:
                    # free routines (implicit or explicit interface) / procedures reached through an unqualified USE
                    calls_ = [s for s in r_['body'] if s['k'] in ('call', 'xcall', 'fcall', 'gcall')
                              and s.get('via') not in ('self', 'back') and s['name'].lower() not in qualified]
                    free_ = {s['name'].lower() for s in calls_ if mn_ and s['target'].startswith('#')}
                    if mn_:
                        free_ |= {fn.lower() for fn in r_['intfb'] if fn.lower() not in qualified}
                    unq_ = {s['name'].lower() for s in calls_ if s['target'].lower().split('#')[0] not in ('', mn_)}
                    if any(imp['only'] is None for sc in ([m_] if m_ else []) + [r_] for imp in sc['imports']):
                        # with an unqualified USE in scope the provider of any unimported name is unknown to loki
                        free_, unq_ = set(), free_ | unq_
                    diff = (got_t ^ ref_t) - amb
                    what = f'{n}: targets {sorted(got_t)} expected {sorted(ref_t)} (ambiguous aliases {sorted(amb)}); ' \
                           f'disable={conf.get("disable")} block={conf.get("block")}'
                    if diff <= free_ | unq_:
                        # one root cause, two listed variants (the proposed repair covers the first only):
                        # Item._get_children matches a callee that is not imported by name in the scope of the
                        # *calling* item
                        if diff & free_:
                            ctx.fail('C22:targets:free-routine-matched-in-scope-of-caller', case, what)
                        if diff & unq_:
                            ctx.fail('C22:targets:unimported-callee-with-unqualified-use-in-scope', case, what)
                    else:
                        ctx.fail('C22:targets', case, what)
            if c['sub'] is not None:
                flt2 = set(flt)
                if 'proc' in flt2:
                    flt2 |= {'binding', 'interface'}
                desc = _descendants(n, edges)
                # (whether unresolved external items belong to the sub graph is not specified)
                want = sorted(x for x in desc | {n} if items[x] != 'external' and ('all' in flt2 or items[x] in flt2))
                if sorted(x for x in c['sub'] if items.get(x) != 'external') != want:
                    ctx.fail('C22:sub_sgraph', case, f'{n}: sub graph {sorted(c["sub"])} expected {want}')
    else:
        # ---- file graph mode ---------------------------------------------------------------------
        fcalls = [c for c in calls if c['hook'] == 'transform_file']
        fsel = {}
        for n in sel:
            fsel.setdefault(seq['files'][n], []).append(n)
        cnt = Counter(c['item'] for c in fcalls)
        exp_files = set(fsel)
        if mf['mode_arg'] is not None:
            # the mode argument filters FileItems by *their* mode, which is not specified: only check subset
            if not set(cnt) <= exp_files:
                ctx.fail('C22:file-graph:unexpected-file', case, f'{sorted(set(cnt) - exp_files)}')
        else:
            if set(cnt) != exp_files:
                ctx.fail('C22:file-graph:files', case,
                         f'visited {sorted(x.replace(root, "") for x in cnt)} expected {sorted(x.replace(root, "") for x in exp_files)}')
        if any(k > 1 for k in cnt.values()):
            ctx.fail('C22:file-graph:file-visited-twice', case, str([f for f, k in cnt.items() if k > 1]))
        fedges = set()
        for a, b in edges:
            if a in sel and b in sel and seq['files'][a] != seq['files'][b]:
                fedges.add((seq['files'][a], seq['files'][b]))
        posn = {c['item']: k for k, c in enumerate(fcalls)}
        for a, b in sorted(fedges):
            if a in posn and b in posn and (b, a) not in fedges:
                if (posn[a] > posn[b]) != mf['reverse']:
                    ctx.fail('C22:file-graph:order', case, f'{a.replace(root, "")} -> {b.replace(root, "")}')
                    break
        # items handed to each file visit
        for c in fcalls:
            got_items = c['items'] or []
            infile = {n for n in items if items[n] != 'external' and seq['files'][n] == c['item']}
            want, optional = set(), set()
            for n in infile:
                if ignored[n] and not mf['process_ignored']:
                    continue
                if n.count('%') > 1:
                    continue      # call-site items for bindings of nested members are not definitions of the file
                want.add(n)
                # parents (module of a member, type of a binding) are included even if not in the graph
                for par in _parents(n):
                    want.add(par)
                    if ignored.get(par) and not mf['process_ignored']:
                        optional.add(par)    # whether an ignored parent is listed is not specified
            dup = sorted(n for n, k in Counter(got_items).items() if k > 1)
            if dup:
                ctx.fail('C22:file-graph:definition-item-listed-twice', case, f'{c["item"].replace(root, "")}: {dup}')
            if set(got_items) - optional != want - optional:
                missing = want - optional - set(got_items)
                if not set(got_items) - want and missing and not mf['process_ignored'] and all(
                        any(ignored.get(par) for par in _parents(n)) for n in missing):
                    # one root cause (listed): Scheduler._get_definition_items drops the definitions of an ignored
                    # parent (members of an ignored module, bindings of an ignored type) together with the parent,
                    # also those that are in the graph and not ignored
                    ctx.fail('C22:file-graph:items-of-ignored-parent-dropped', case,
                             f'{c["item"].replace(root, "")}: items {sorted(set(got_items))} expected {sorted(want)}')
                    # (an empty list makes Transformation.apply_file recurse into every unit of the file with the
                    # file item; the recursion checks below would only repeat this finding)
                    return
                ctx.fail('C22:file-graph:items', case, f'{c["item"].replace(root, "")}: items {sorted(set(got_items))} '
                                                       f'expected {sorted(want)}')
        rec = Counter((c['hook'], c['item']) for c in calls if c['hook'] != 'transform_file')
        twice = sorted(k for k, v in rec.items() if v > 1)
        if twice:
            ctx.fail('C22:file-graph:recursion-visits-item-twice', case, str(twice[:4]))
        listed = {n for c in fcalls for n in (c['items'] or [])}
        want_m = {n for n in listed if items.get(n, ix.kind(n)) == 'module'} if mf['recurse_modules'] else set()
        want_p = {n for n in listed if items.get(n, ix.kind(n)) == 'proc'} if mf['recurse_procedures'] else set()
        got_m = {c['item'] for c in calls if c['hook'] == 'transform_module'}
        got_p = {c['item'] for c in calls if c['hook'] == 'transform_subroutine'}
        if got_m != want_m or got_p != want_p:
            ctx.fail('C22:file-graph:recursion', case, f'modules {sorted(got_m)} vs {sorted(want_m)}; '
                                                       f'procedures {sorted(got_p)} vs {sorted(want_p)}')
        for c in calls:
            if c['hook'] == 'transform_subroutine' and c['item'] in items:
                conf = refgraph.item_config(cfg['config'], c['item'])
                if c['role'] != conf.get('role'):
                    ctx.fail('C22:role-or-mode', case, f'{c["item"]}: role {c["role"]} vs {conf.get("role")}')

    # ---- PLAN visits the same sequence as SEQUENCE -----------------------------------------------------
    def norm(cs):
        return [(c['hook'].split('_', 1)[1], c['item'], c['role'], c['mode'],
                 tuple(sorted(c['targets'] or ())), tuple(c['items'] or ())) for c in cs]
    if norm(plan['calls']) != norm(seq['calls']):
        a, b = norm(seq['calls']), norm(plan['calls'])
        d = next(((x, y) for x, y in zip(a, b) if x != y), (len(a), len(b)))
        ctx.fail('C22:plan-differs-from-sequence', case, f'first difference {d}')
    if plan_rx is not None and plan_rx['err'] is None:
        def names(cs):
            return sorted((c['hook'].split('_', 1)[1], c['item']) for c in cs)
        if plan_rx['g0'] == seq['g0'] and names(plan_rx['calls']) != names(seq['calls']):
            ctx.fail('C22:plan-regex-differs-from-sequence', case,
                     f'{sorted(set(names(plan_rx["calls"])) ^ set(names(seq["calls"])))[:6]}')
        ctx.count('plan-with-regex-frontend-compared')


def _in_unparsed_file(sel, items, files):
    """selected non-procedure items whose file holds no ProcedureItem of the graph"""
    with_proc = {files[n] for n in items if items[n] == 'proc' and n in files}
    return sorted(n for n in sel if items[n] != 'proc' and files.get(n) not in with_proc)


def _parents(n):
    """definition parents of an item name: module of a member, type (and module) of a binding"""
    scope, _, local = n.partition('#')
    out = []
    if local and '%' in local:
        out.append(f'{scope}#{local.split("%")[0]}')
    if local and scope:
        out.append(scope)
    return out


def _descendants(n, edges):
    succ = {}
    for a, b in edges:
        succ.setdefault(a, set()).add(b)
    out, todo = set(), [n]
    while todo:
        x = todo.pop()
        for y in succ.get(x, ()):
            if y not in out:
                out.add(y)
                todo.append(y)
    return out


def _explore(ctx, strategy, check, total, chunk=300):
    """
    ctx.given in chunks of ``chunk`` cases (quick tier: exactly one chunk, label 'main'): once the time budget is
    used up Hypothesis still *generates* the remaining examples of a run, which for the thorough case counts takes
    longer than the runner's hard timeout
    """
    k = 0
    while total > 0 and not ctx.out_of_time():
        n = min(chunk, total)
        ctx.given(strategy, check, n, label='main' if k == 0 else f'main{k}')
        total -= n
        k += 1


def run_shard(ctx):
    harness.quiet()
    _explore(ctx, cases(), check_case, ctx.scale(2400, 60000))


def replay(case, ctx):
    harness.quiet()
    check_case(case, ctx)
    return [(s, e['detail']) for s, e in ctx.failures.items()]
