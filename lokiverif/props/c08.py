"""C08 - symbolic simplification preserves expression values."""
import json
from fractions import Fraction

from ..exprs import gen
from ..exprs.feval import safe_compile, Sem
from ..exprs.gen import Cfg, children, describe, typeof, walk

ID = 'C08'
LEVEL = 'exploration'
TECHNIQUE = ('generated typed integer/real/logical expression trees simplified with subsets of the Simplification flags; '
             'original and simplified tree evaluated by an independent class-dispatch evaluator on every valuation of a box '
             '(integers exact with truncating division, reals as exact rationals)')
RULE = ('typed J-trees of depth <= 4 (thorough <= 5) over integer/real/logical scalars declared in a loki Scope, literals, '
        'Sum/Product/Quotient/Power/unary minus/Comparison/LogicalAnd/Or/Not, with and without Parenthesised* nodes; each tree '
        'is simplified with 6 flag subsets (always ALL and each single flag class at least sometimes; thorough: all 32 subsets). '
        'A (tree, flags) pair fails if on some box valuation on which the original is defined the simplified tree has another '
        'value, divides by zero or cannot be evaluated. Failures are reduced to the smallest failing flag subset and the minimal '
        'failing subtree and classified: "integer-division" (equal over the rationals, differs under truncating division) vs '
        '"algebra" (differs even over the rationals). 75% of the trees contain no integer Quotient (the trigger of the '
        'listed known findings; counted in excluded_by_construction). non-trivial = simplify returned a structurally different '
        'tree and the tree takes >= 2 values over the box; distinct by (tree, flags)')
ASSUMPTIONS = ['lokiverif.exprs.feval implements Fortran value semantics (truncating integer division, integer power, promotion)',
               'real arithmetic is compared algebraically with a relative tolerance of 1e-9 (FloatingPointArithmetic folds literals in '
               'binary floating point); real literals are powers of two so that folding is exact',
               'valuations on which the original expression divides by zero or overflows 10**60 are outside the quantifier']
SHARDS = {'quick': 8, 'thorough': 16}
BUDGET = {'quick': 50, 'thorough': 1200}

FLAG_NAMES = {1: 'Flatten', 2: 'IntegerArithmetic', 4: 'FloatingPointArithmetic', 8: 'CollectCoefficients', 16: 'LogicEvaluation'}
EXACT = Sem(intdiv='exact')
TOL = Fraction(1, 10 ** 9)


def flags_name(f):
    return '|'.join(n for b, n in FLAG_NAMES.items() if f & b) or 'none'


def close(a, b):
    """status tuples denote the same value (reals up to tolerance)"""
    if a[0] != 'ok' or b[0] != 'ok':
        return a[0] == b[0]
    va, vb = a[1], b[1]
    if isinstance(va, bool) or isinstance(vb, bool):
        return isinstance(va, bool) and isinstance(vb, bool) and va == vb
    if va == vb:
        return True
    if isinstance(va, int) and isinstance(vb, int):
        return False
    fa, fb = Fraction(va), Fraction(vb)
    return abs(fa - fb) <= TOL * max(1, abs(fa), abs(fb))


class Outcome:
    def __init__(self):
        self.kind = None        # None (holds) | 'value' | 'div0' | 'uneval' | 'raises'
        self.env = None
        self.a = None
        self.b = None
        self.exc = None
        self.simplified = None
        self.changed = False
        self.nvalues = 0
        self.ndefined = 0


def run_simplify(T, flags):
    from loki.expression.symbolic import simplify, Simplification
    return simplify(T, enabled_simplifications=Simplification(flags))


def evaluate(j, flags, sem=None):
    """simplify the decoded tree with the flags and compare over the box"""
    o = Outcome()
    dec = gen.Decoder()     # (keeps the Scope alive: symbols only hold a weak reference to it)
    T = dec.dec(j)
    try:
        S = run_simplify(T, flags)
    except Exception as e:  # noqa: loki raised
        o.kind, o.exc = 'raises', e
        return o
    o.simplified = S
    try:
        o.changed = gen.encode(S) != j
    except gen.NotEncodable:
        o.changed = True
    fo = safe_compile(T, sem) if sem else safe_compile(T)
    fs = safe_compile(S, sem) if sem else safe_compile(S)
    values = set()
    for env in gen.valuations(gen.var_names(j)):
        a = fo(env)
        if a[0] != 'ok':
            continue
        o.ndefined += 1
        if len(values) < 3:
            values.add(str(a[1]))
        b = fs(env)
        if not close(a, b):
            if o.kind is None:
                o.kind = 'value' if b[0] == 'ok' else ('div0' if b[0] == 'div0' else ('uneval' if b[0] == 'uneval' else None))
                if o.kind is None:      # simplified overflows where the original does not: outside the box arithmetic
                    continue
                o.env, o.a, o.b = gen.env_json(env), a, b
    o.nvalues = len(values)
    del dec
    return o


def fails(j, flags):
    o = evaluate(j, flags)
    return o if o.kind in ('value', 'div0', 'uneval') else None


def minimal_flags(j, flags):
    """smallest subset of the failing flag set that still fails on this tree (singletons, then pairs)"""
    bits = [b for b in FLAG_NAMES if flags & b]
    for b in bits:
        if fails(j, b):
            return b
    for x in range(len(bits)):
        for y in range(x + 1, len(bits)):
            if fails(j, bits[x] | bits[y]):
                return bits[x] | bits[y]
    return flags


def minimal_subtree(j, flags, budget):
    """a subtree that fails while none of its operator children does"""
    if budget[0] <= 0:
        return j
    for _, c in children(j):
        if c[0] in gen.LEAVES:
            continue
        budget[0] -= 1
        if fails(c, flags):
            return minimal_subtree(c, flags, budget)
    return j


PRODUCTS = ('Product', 'PProduct', 'RawProduct')
QUOTS = ('Quotient', 'PQuotient', 'RawQuotient')
SUMS = ('Sum', 'PSum', 'RawSum')


def nested_multineg(j):
    """a Product((-1, a, b, ..)) with more than one factor after the sign, directly inside a Product"""
    for n in walk(j):
        if n[0] in PRODUCTS:
            for _, c in children(n):
                if c[0] in PRODUCTS and gen.is_neg_form(c) and len(c[1]) >= 3:
                    return True
    return False


def unnest_multineg(j, counter):
    """Product((.., Product((-1, a, b)), ..)) -> Product((.., Product((-1, Product((a, b)))), ..)) (same value)"""
    if j[0] in gen.LEAVES:
        return j
    new = []
    for _, c in children(j):
        c = unnest_multineg(c, counter)
        if j[0] in PRODUCTS and c[0] in PRODUCTS and gen.is_neg_form(c) and len(c[1]) >= 3:
            counter[0] += 1
            c = [c[0], [c[1][0], ['Product', c[1][1:]]]]
        new.append(c)
    return gen.with_children(j, new)


def pattern(m, cls, flags=None):
    """name of the known root cause whose syntactic trigger the minimal failing tree shows, or None"""
    if cls == 'algebra' and nested_multineg(m):
        return 'nested-negated-product-loses-factors'
    if cls != 'integer-division':
        return None
    for n in walk(m):
        if n[0].endswith('Power') and typeof(n[1]) == 'real' and n[2][0] in ('Int', 'Raw') and n[2][1] == 0:
            return 'real-power-zero-becomes-integer-one'
        if n[0] == 'Real' and n[1] in ('-1.0', '-1.', '-1'):
            return 'real-minus-one-literal-becomes-sign'
    if m[0] in QUOTS and m[1][0] in SUMS:
        return 'quotient-distributed-over-sum'
    if m[0] in QUOTS and (m[1][0] in QUOTS or m[2][0] in QUOTS):
        return 'nested-quotients-merged'
    if m[0] in PRODUCTS and any(n[0] in QUOTS for n in walk(m)):
        return 'product-factor-moved-into-numerator'
    if flags is not None and real_operand_becomes_integer(m, flags):
        return 'real-operand-simplified-to-integer-typed'
    return None


def real_operand_becomes_integer(m, flags):
    """
    some real-typed operator subtree of m (real only through real literal factors/terms, e.g. 1.0*i,
    2.0*0.5*i, 0.0 + i) is simplified on its own to an integer-typed tree: the enclosing division or
    power is then evaluated in integer arithmetic. One root cause (literal folding drops the real unit),
    whatever operator encloses it.
    """
    for n in walk(m):
        if n[0] in gen.LEAVES or typeof(n) != 'real':
            continue
        dec = gen.Decoder()
        try:
            S = gen.encode(run_simplify(dec.dec(n), flags))
        except Exception:  # noqa: not encodable / raises: not this pattern
            continue
        finally:
            del dec
        if typeof(S) == 'int':
            return True
    return False


def exact_equal(m, flags):
    """does the simplified tree agree with the original over the rationals (no truncation)?"""
    return evaluate(m, flags, EXACT).kind is None


def classify(j, flags, o, shrink_budget=120):
    """-> signature, minimal tree, minimal flags, outcome on the minimal tree"""
    mf = minimal_flags(j, flags)
    m = minimal_subtree(j, mf, [30])
    m = gen.shrink(m, lambda t: fails(t, mf), budget=shrink_budget)
    mf = minimal_flags(m, mf)
    om = fails(m, mf) or o
    if om.kind == 'uneval':
        return f'C08:unevaluable-result:{flags_name(mf)}:{gen.abstract(m)}', m, mf, om
    has_div = any(n[0] in QUOTS or n[0].endswith('Power') for n in walk(m))
    if has_div and exact_equal(m, mf):
        cls = 'integer-division'
    elif om.kind == 'div0':
        cls = 'introduces-division-by-zero'
    else:
        cls = 'algebra'
    name = pattern(m, cls, mf)
    if name:
        return f'C08:{cls}:{name}', m, mf, om
    return f'C08:{cls}:{flags_name(mf)}:{gen.abstract(m)}', m, mf, om


def fmt(st):
    return str(st[1]) if st[0] == 'ok' else st[0]


_SEEN = {}


def check_case(case, ctx):
    from loki import fgen
    j = case['tree']
    for flags in case['flags']:
        o = evaluate(j, flags)
        sub = {'tree': j, 'flags': [flags]}
        classes = [f'type={typeof(j)}', f'flags={flags_name(flags)}' if flags in (0, 31) or flags in FLAG_NAMES else 'flags=mixed']
        tags = {n[0] for n in walk(j)}
        has_intq = any(n[0] in ('Quotient', 'PQuotient') and typeof(n) == 'int' for n in walk(j))
        classes.append('has-integer-Quotient' if has_intq else 'no-integer-Quotient')
        for t in ('Power', 'Cmp', 'Not', 'And', 'Or'):
            if t in tags:
                classes.append(f'has-{t}')
        if tags & {'PSum', 'PProduct', 'PQuotient', 'PPower'}:
            classes.append('has-Parenthesised')
        if o.kind == 'raises':
            ctx.reject(o.exc, sub)
            ctx.case(sub, False, classes + ['simplify-raised'])
            continue
        classes.append('simplify-changed-tree' if o.changed else 'simplify-returned-same-tree')
        ctx.case(sub, o.changed and o.nvalues >= 2, classes)
        if ctx.evaluations % 600 == 1:
            ctx.sample({'tree': j, 'flags': flags_name(flags), 'original': fgen(gen.decode(j)), 'simplified': str(o.simplified)})
        if o.kind is None:
            continue
        coarse = f'{o.kind}:{describe(j)}:{flags & 1}'
        _SEEN[coarse] = _SEEN.get(coarse, 0) + 1
        if not ctx.thorough and _SEEN[coarse] > 4 and _SEEN[coarse] % 8:
            # budget: frequent look-alike failures are not all minimised in the quick tier
            ctx.count('failure-not-minimised')
            continue
        sig, m, mf, om = classify(j, flags, o)
        try:
            simp = gen.show(gen.encode(om.simplified))
        except gen.NotEncodable:
            simp = str(om.simplified)
        detail = (f'simplify({gen.show(m)}, {flags_name(mf)}) = {simp}; at {om.env} the original evaluates to '
                  f'{fmt(om.a)} but the simplified expression to {fmt(om.b)} ([..] = Parenthesised* node)')
        ctx.fail(sig, {'tree': m, 'flags': [mf]}, detail)


# --------------------------------------------------------------------------
# generation
# --------------------------------------------------------------------------
BASE = dict(arrays=False, calls=False, casts=False, kinds=False)
CFG_NOQ = Cfg(int_quotients=False, **BASE)
CFG_Q = Cfg(**BASE)
CFG_NOPAREN = Cfg(paren=0.0, int_quotients=False, **BASE)
REAL_LITS = ['0.5', '2.0', '0.25', '4.0', '1.0', '16.0', '8.0']


def pow2_literals(j):
    """real literals -> powers of two (floating point folding is then exact)"""
    if j[0] == 'Real':
        k = sum(ord(c) for c in j[1]) % len(REAL_LITS)
        lit = REAL_LITS[k]
        return ['Real', ('-' if j[1].startswith('-') else '') + lit] + j[2:]
    if j[0] in gen.LEAVES:
        return j
    return gen.with_children(j, [pow2_literals(c) for _, c in children(j)])


def build_case(ch, thorough, ctx):
    depth = ch.pick([3, 4, 5, 4] if thorough else [3, 4, 2, 3])
    prof = ch.pick(['noq', 'q', 'noq', 'noq'])
    cfg = {'noq': ch.pick([CFG_NOQ, CFG_NOPAREN]), 'q': CFG_Q}[prof]
    typ = ch.pick(['int', 'real', 'log', 'int'])
    tree = pow2_literals(gen.build_tree(ch, typ, depth, cfg))
    if prof == 'noq':
        if typ != 'real':
            ctx.exclude('integer Quotient not generated (known: integer-division findings)')
        # (nested Product((-1,a,b)) is generated again: 'nested-negated-product-loses-factors' was repaired in /repo)
    if thorough:
        flags = list(range(32))
    else:
        flags = sorted({31, ch.pick([1, 2, 4, 8, 16]), ch.int(0, 31), ch.int(0, 31), ch.pick([3, 9, 11, 27, 15, 23]), ch.int(0, 31)})
    return {'tree': tree, 'flags': flags}


def run_shard(ctx):
    strat = gen.from_choices(lambda ch: build_case(ch, ctx.thorough, ctx), max_size=180)
    total, chunk, k = ctx.scale(30000, 1000000), 100, 0
    while k * chunk < total and not ctx.out_of_time():
        ctx.given(strat, check_case, chunk, label=f'trees{k}', shrink=False)
        k += 1


def replay(case, ctx):
    check_case(case, ctx)
    return [(s, e['detail']) for s, e in ctx.failures.items()]
