"""C20 - recorded source locations (Source.lines / Source.string) match the text of the original file."""
import dataclasses

from hypothesis import strategies as st

from ..core import exc_bucket
from ..unitsrc import gen
from ..unitsrc.render import render

ID = 'C20'
LEVEL = 'exploration'
TECHNIQUE = ('generated multi-unit files with a renderer-side line map; every IR node / program unit of the FP and the REGEX '
             'parse is checked against the file text at its recorded lines, and every generated statement against the node '
             'that must sit on its lines')
RULE = ('files from the C19 generator (modules, routines, internal procedures, types, interfaces, IF/DO/SELECT/ASSOCIATE blocks, '
        'one-line IF, labels, strings and comments with keywords) under generated layouts (continuations with and without leading &, '
        'comment and blank lines between continuation lines, comments after &, ;-joined statements, split strings, case, leading/'
        'trailing comment lines). For BOTH frontends every node reachable through dataclass fields (incl. comments, sections, '
        'program units inside interfaces) that carries a Source must satisfy: 1 <= first <= last <= number of lines; Source.string is '
        'contained verbatim in the text of lines first..last, has exactly last-first+1 lines, and its first/last line are parts of '
        'file lines first/last; a node that names something (call target, imported module, declared variable, type, unit) has that '
        'name in its text. Completeness from the line map: each generated CALL/assignment/USE/declaration/binding statement has '
        'exactly one node of the expected class with exactly its line span (FP; REGEX: calls, USE, types, interfaces), each program '
        'unit has exactly its rendered span and text. Two more populations get the per-node checks only: FProg kernels (WHERE, '
        'SELECT, labelled DO, intrinsics ...) and every Fortran file shipped in the repository. non-trivial = the layout used continuation lines, ;-joins or comment lines '
        'between statements AND some checked leaf node spans >= 2 lines; distinct by hash of the case')
ASSUMPTIONS = ['line numbers are 1-based indices into text.split("\\n") (a final newline gives one more, empty, line - the frontends '
               'count it too)',
               'a file the frontend rejects is counted as rejected (C19 judges discovery); the triggers of the C19 findings are '
               'not generated, and REGEX completeness is judged only when REGEX and FP agree on what the file contains',
               'two listed findings are excluded: files that start with a blank line are not generated (REGEX line numbers), '
               'and a CommentBlock whose member comments are not on adjacent lines is skipped and counted (FP)']
SHARDS = {'quick': 8, 'thorough': 16}
BUDGET = {'quick': 75, 'thorough': 1500}

# files on which the two frontends disagree about WHAT is there (C19 findings) are of no interest here
PROFILE = gen.profile(**{k: False for k in gen.TRIGGER_FLAGS})

FP_CLASS = {'call': 'CallStatement', 'if1-call': 'CallStatement', 'assign': 'Assignment', 'if1-assign': 'Assignment',
            'use': 'Import', 'iface-body-import': 'Import', 'decl': 'VariableDeclaration', 'comp-decl': 'VariableDeclaration',
            'iface-body-decl': 'VariableDeclaration', 'binding': 'ProcedureDeclaration',
            'generic-binding': 'ProcedureDeclaration', 'final-binding': 'ProcedureDeclaration',
            'deferred-binding': 'ProcedureDeclaration', 'modproc': 'ProcedureDeclaration'}
RE_CLASS = {'call': 'CallStatement', 'if1-call': 'CallStatement', 'use': 'Import'}


def walk(obj, seen):
    """every IR node and program unit reachable through dataclass fields / unit sections (no loki visitor)"""
    from loki.ir import nodes as ir
    from loki.program_unit import ProgramUnit
    if obj is None or isinstance(obj, (str, bytes, int, float, bool)):
        return
    if isinstance(obj, (tuple, list)):
        for x in obj:
            yield from walk(x, seen)
        return
    if id(obj) in seen:
        return
    if isinstance(obj, ProgramUnit):
        seen.add(id(obj))
        yield obj
        for sec in (obj.docstring, obj.spec, getattr(obj, 'body', None), obj.contains):
            yield from walk(sec, seen)
    elif isinstance(obj, ir.Node):
        seen.add(id(obj))
        yield obj
        for f in dataclasses.fields(obj):
            if f.name in ('source', 'symbol_attrs', 'parent'):
                continue
            yield from walk(getattr(obj, f.name), seen)


def own_names(node):
    """identifier parts that must occur in the node's own text"""
    cls = type(node).__name__
    try:
        if cls == 'CallStatement':
            n = node.name
            return [p for p in str(getattr(n, 'name', n)).split('%')]
        if cls == 'Import' and not getattr(node, 'c_import', False):
            return [str(node.module)] if node.module else []
        if cls == 'VariableDeclaration':
            return [str(node.symbols[0].name).split('(')[0]] if node.symbols else []
        if cls == 'TypeDef':
            return [node.name]
        if cls in ('Subroutine', 'Function', 'Module'):
            return [node.name]
    except Exception:  # noqa: incomplete regex nodes
        return []
    return []


def squeeze(s):
    """text without blanks, continuation markers and case (for the own-name check only)"""
    return ''.join(s.lower().replace('&', '').split())


def trim_blank(text):
    """text without leading/trailing whitespace-only lines"""
    ls = text.split('\n')
    while ls and not ls[0].strip():
        ls.pop(0)
    while ls and not ls[-1].strip():
        ls.pop()
    return '\n'.join(ls)


def gappy_comment_block(node, lines):
    """CommentBlock whose member comments do not sit on adjacent lines (code lines in between)"""
    if type(node).__name__ != 'CommentBlock':
        return False
    ls = sorted(c.source.lines[0] for c in node.comments if c.source is not None)
    return any(b - a > 1 and any(lines[k - 1].strip() for k in range(a + 1, b)) for a, b in zip(ls, ls[1:]))


def check_node(node, lines, nlines, strict_blocks=False):
    """-> None | (kind, detail) | ('excluded', reason)"""
    src = getattr(node, 'source', None)
    if src is None:
        return None
    l0, l1 = src.lines
    if l1 is None:
        l1 = l0
    if not (isinstance(l0, int) and isinstance(l1, int)) or l0 < 1 or l1 > nlines:
        return ('lines-outside-file', f'lines {src.lines} of a file with {nlines} lines')
    if l1 < l0:
        return ('lines-reversed', f'lines {src.lines}')
    s = src.string
    if s is None:
        return None
    seg = '\n'.join(lines[l0 - 1:l1])
    if s not in seg and not strict_blocks and gappy_comment_block(node, lines):
        return ('excluded', 'CommentBlock over comments that are not on adjacent lines (listed finding)')
    if s not in seg:
        return ('text-not-at-recorded-lines', f'lines {src.lines}: recorded {s[:200]!r} / file has {seg[:200]!r}')
    if s.strip() and s.count('\n') != l1 - l0 and trim_blank(s).count('\n') != trim_blank(seg).count('\n'):
        # (blank lines at either end of the span may be missing from the text: Section sources are stripped)
        return ('text-covers-fewer-lines-than-span', f'lines {src.lines} but the text has {trim_blank(s).count(chr(10)) + 1} '
                f'non-blank-delimited lines: {s[:120]!r}')
    for nm in own_names(node):
        if squeeze(nm) not in squeeze(s):
            return ('own-name-not-in-text', f'lines {src.lines}: {type(node).__name__} names {nm!r} but its text is {s[:160]!r}')
    return None


def shift_of(node, lines, nlines):
    """k != 0 such that the node's text is found k lines further down/up, else None"""
    src = node.source
    s = src.string
    if not s or not s.strip():
        return None
    l0, l1 = src.lines
    l1 = l1 if l1 is not None else l0
    for k in (1, -1, 2, -2, 3, -3):
        a, b = l0 + k, l1 + k
        if a >= 1 and b <= nlines and s in '\n'.join(lines[a - 1:b]):
            return k
    return None


def check_frontend(fe, sf, rendered, lines, nlines, ctx, case, complete=True):
    """returns the number of checked nodes spanning >= 2 lines"""
    nodes = list(walk(sf.ir, set()))
    multi = 0
    bad = []
    for n in nodes:
        src = getattr(n, 'source', None)
        if src is not None and src.lines[1] is not None and src.lines[1] > src.lines[0] \
                and type(n).__name__ not in ('Section', 'Module', 'Subroutine', 'Function'):
            multi += 1
        r = check_node(n, lines, nlines, strict_blocks=case.get('strict_comment_blocks', False))
        if r is not None and r[0] == 'excluded':
            ctx.exclude(r[1])
        elif r is not None:
            bad.append((n, r))
    if bad:
        # a constant displacement of everything is one root cause, whatever classes it hits
        txt = [(n, r) for n, r in bad if r[0] in ('text-not-at-recorded-lines', 'lines-outside-file')]
        shifts = {shift_of(n, lines, nlines) for n, _ in txt if n.source.string and n.source.string.strip()}
        if txt and len(shifts) == 1 and None not in shifts:
            n, r = txt[0]
            ctx.fail(f'C20:{fe}:all-recorded-lines-displaced-by-a-constant', case,
                     f'{len(txt)} nodes, e.g. {type(n).__name__}: {r[1]}; the text is found {shifts.pop():+d} lines away'[:900])
        else:
            n, r = bad[0]
            ctx.fail(f'C20:{fe}:{type(n).__name__}:{r[0]}', case, r[1][:900])
        return multi

    # ---- completeness against the line map ----
    if not complete or rendered is None:
        return multi
    by = {}
    for n in nodes:
        src = getattr(n, 'source', None)
        if src is None:
            continue
        by.setdefault((type(n).__name__, src.lines[0], src.lines[1] if src.lines[1] is not None else src.lines[0]), []).append(n)
    table = FP_CLASS if fe == 'fp' else RE_CLASS
    want = {}
    for st_ in rendered.stmts:
        cls = table.get(st_['tag'])
        if cls:
            want[(cls, st_['span'][0], st_['span'][1])] = want.get((cls, st_['span'][0], st_['span'][1]), 0) + 1
    for key, cnt in sorted(want.items()):
        have = len(by.get(key, []))
        if fe == 'regex' and key[0] == 'CallStatement':
            # the call of a one-line IF is a sub-span of the statement: accept any call node inside the statement's lines
            have = sum(len(v) for k, v in by.items() if k[0] == 'CallStatement' and k[1] >= key[1] and k[2] <= key[2])
            cnt = sum(c for k, c in want.items() if k[0] == 'CallStatement' and k[1] >= key[1] and k[2] <= key[2])
        if have != cnt:
            what = 'no-node-with-the-span-of-the-statement' if have < cnt else 'more-nodes-than-statements-at-span'
            near = sorted(k[1:] for k in by if k[0] == key[0] and k[1] <= key[2] and k[2] >= key[1])
            ctx.fail(f'C20:{fe}:{key[0]}:{what}', case,
                     f'{cnt} generated statement(s) of class {key[0]} on lines {key[1]}-{key[2]}, {have} node(s) with exactly '
                     f'that span; overlapping {key[0]} spans: {near}; text: {lines[key[1] - 1][:120]!r}'[:900])
            return multi
    # program units: exact span and exact text
    units = {}
    for n in nodes:
        if type(n).__name__ in ('Subroutine', 'Function', 'Module'):
            units.setdefault(n.name.lower(), []).append(n)
    inside_iface = {s_['key'] for s_ in rendered.stmts if s_['tag'] == 'iface-body-stmt'}
    for ukey, (f, l) in sorted(rendered.units.items()):
        name = ukey.split('/')[-1]
        cands = [n for n in units.get(name, []) if n.source is not None]
        if not cands:
            if fe == 'fp':
                ctx.fail(f'C20:{fe}:unit-without-source', case, f'unit {ukey} has no Source')
                return multi
            continue        # discovery is C19's business
        if not any(tuple(n.source.lines) == (f, l) for n in cands):
            if name in inside_iface and fe == 'regex':
                continue
            n = cands[0]
            ctx.fail(f'C20:{fe}:{type(n).__name__}:unit-span-differs-from-its-text', case,
                     f'unit {ukey} was rendered on lines {f}-{l}, recorded {[tuple(c.source.lines) for c in cands]}; '
                     f'first line {lines[f - 1][:100]!r} last line {lines[l - 1][:100]!r}'[:900])
            return multi
        n = next(n for n in cands if tuple(n.source.lines) == (f, l))
        if n.source.string is not None and n.source.string.strip('\n') != '\n'.join(lines[f - 1:l]).strip('\n'):
            ctx.fail(f'C20:{fe}:{type(n).__name__}:unit-text-differs-from-its-lines', case,
                     f'unit {ukey} lines {f}-{l}: recorded text {n.source.string[:150]!r}')
            return multi
    if fe == 'regex':
        for blk in rendered.blocks:
            cls = 'TypeDef' if blk['kind'] == 'typedef' else 'Interface'
            spans = sorted(k[1:] for k in by if k[0] == cls)
            if tuple(blk['span']) not in spans and any(s_[0] <= blk['span'][1] and s_[1] >= blk['span'][0] for s_ in spans):
                ctx.fail(f'C20:{fe}:{cls}:block-span-differs-from-its-text', case,
                         f'{blk["kind"]} {blk["name"]} was rendered on lines {blk["span"]}, overlapping recorded spans {spans}')
                return multi
    return multi


def parse(text, fe):
    from ..props import c19
    return c19.parse(text, fe)


def check_case(case, ctx):
    model, layout = case['model'], case['layout']
    rendered = render(model, layout)
    text = rendered.text
    lines = text.split('\n')
    nlines = len(lines)
    how = sorted(rendered.how)
    perturbed = bool({'continuation', 'semicolon', 'comment-between-continuation-lines', 'comment-after-ampersand'} & set(how)) \
        or any(s_['tag'] == 'comment' for s_ in rendered.stmts)
    multi_total = 0
    ok_frontends = []
    from ..unitsrc import facts
    parsed = {}
    for fe in ('fp', 'regex'):
        try:
            parsed[fe] = parse(text, fe)
        except (Exception, SystemExit) as e:  # noqa
            ctx.reject(e if isinstance(e, Exception) else f'SystemExit@fparser({fe})', {'text': text[:1200]})
    same_discovery = False
    if len(parsed) == 2:
        try:
            same_discovery = not facts.diff(facts.extract(parsed['fp']), facts.extract(parsed['regex']))
        except Exception:  # noqa
            same_discovery = False
        if not same_discovery:
            # WHAT the regex frontend finds is C19's business; only its per-node locations are judged here
            ctx.count('regex-discovery-differs-from-fp(C19): regex completeness not judged')
    for fe, sf in parsed.items():
        ok_frontends.append(fe)
        multi_total += check_frontend(fe, sf, rendered, lines, nlines, ctx, case,
                                      complete=(fe == 'fp' or same_discovery))
    classes = [f'layout:{h}' for h in how] + [f'parsed:{fe}' for fe in ok_frontends]
    if lines and not lines[0].strip():
        classes.append('file-starts-with-blank-line')
    if multi_total:
        classes.append('has-multi-line-leaf-node')
    ctx.case(case, perturbed and multi_total > 0, classes)
    if len(ctx.samples) < 3:
        ctx.sample({'source': text[:1500], 'line_map_head': [[s_['tag'], s_['span']] for s_ in rendered.stmts[:25]]})


@st.composite
def cases(draw, prof=None):
    return {'model': draw(gen.files(prof or PROFILE)), 'layout': draw(gen.layouts())}


def run_shard(ctx):
    files = corpus_files()
    from .c19 import explore
    for rel in files[ctx.shard::ctx.nshards]:
        if ctx.out_of_time():
            break
        check_corpus({'corpus': rel}, ctx)
    ctx.extra['repository_files'] = len(files)
    from ..fprog import gen as fgen
    fprof = fgen.profile(assoc=True, pragmas=True, stmtfunc=False)
    # the small FProg population first, so that a short budget still sees every population
    explore(ctx, fgen.cases(fprof).map(lambda c: {'fprog': c}), check_fprog, ctx.scale(160, 3000), 'fprog')
    explore(ctx, cases(PROFILE), check_case, ctx.scale(1600, 30000), 'main')


def replay(case, ctx):
    _dispatch(case, ctx)
    return [(s, e['detail']) for s, e in ctx.failures.items()]


# ---------------------------------------------------------------------------------------------
# second population: FProg kernels (richer executable statements: WHERE, SELECT, labelled DO, intrinsics ...)
# third population: the Fortran files shipped in the repository
# (both: per-node checks only; there is no line map for them)
# ---------------------------------------------------------------------------------------------
def check_text(text, ctx, case, classes, frontends=('fp', 'regex')):
    lines = text.split('\n')
    nlines = len(lines)
    multi = 0
    parsed = []
    for fe in frontends:
        try:
            sf = parse(text, fe)
        except (Exception, SystemExit) as e:  # noqa
            ctx.reject(e if isinstance(e, Exception) else f'SystemExit@fparser({fe})', {'text': text[:600]})
            continue
        parsed.append(fe)
        multi += check_frontend(fe, sf, None, lines, nlines, ctx, case, complete=False)
    ctx.case(case, multi > 0 and ('&' in text or ';' in text), classes + [f'parsed:{fe}' for fe in parsed])


def check_fprog(case, ctx):
    from ..fprog import harness
    for r in harness.render_case(case['fprog']):
        text = r['text']
        if not case.get('leadblank'):
            text = text.lstrip('\n')
        check_text(text, ctx, case, ['population:fprog'])
        # the same file with an IBM `@PROCESS` directive line in front (IFS sources carry such lines; the input
        # sanitiser removes them before parsing): every node must still be recorded at the lines of the ORIGINAL text
        check_text('@PROCESS NOCHECK\n' + text, ctx, dict(case, variant='ibm-directive-line'),
                   ['population:fprog', 'variant:ibm-directive-line'], frontends=('fp',))


def corpus_files():
    import os
    from ..core import REPO
    out = []
    for root, _, files in os.walk(os.path.join(REPO, 'loki')):
        for f in files:
            if f.lower().endswith(('.f90', '.f')) and not f.lower().endswith('.f'):
                out.append(os.path.relpath(os.path.join(root, f), REPO))
    return sorted(out)


def check_corpus(case, ctx):
    import os
    from ..core import REPO
    with open(os.path.join(REPO, case['corpus']), errors='replace') as f:
        text = f.read()
    if not text.split('\n')[0].strip() and not case.get('leadblank'):
        ctx.exclude('repository file starts with a blank line (listed finding of the REGEX frontend)')
        frontends = ('fp',)
    else:
        frontends = ('fp', 'regex')
    check_text(text, ctx, case, ['population:repository-file'], frontends)


def _dispatch(case, ctx):
    if 'corpus' in case:
        check_corpus(case, ctx)
    elif 'fprog' in case:
        check_fprog(case, ctx)
    else:
        check_case(case, ctx)
